#!/bin/bash
# usage: tools/run_seeded.sh <seeded/<id> dir or patch file> <Cxx> [quick|thorough]
# Applies a seeded change to a throw-away git worktree of /repo's HEAD (never to /repo itself while
# other work is running against it), runs the check against it, removes the worktree.
set -u
src="$1"; prop="$2"; tier="${3:-quick}"
[ -d "$src" ] && patch="$src/patch.diff" || patch="$src"
patch="$(readlink -f "$patch")"
here="$(cd "$(dirname "$0")/.." && pwd)"
wt="$(mktemp -d /tmp/seedrun.XXXXXX)"; rmdir "$wt"
git -C /repo worktree add -q --detach "$wt" HEAD || exit 3
trap 'git -C /repo worktree remove --force "$wt" >/dev/null 2>&1; rm -rf "$wt"' EXIT
git -C "$wt" apply "$patch" || { echo "SEED-PATCH-FAILED $patch"; exit 3; }
VERIF_REPO_SRC="$wt/src" "$here/check" "$prop" "$tier" --no-evidence > "$wt/.out.txt" 2> "$wt/.err.txt"
rc=$?
grep -E "^VIOLATION|^  subcheck=" "$wt/.out.txt" | head -8
if [ $rc -eq 1 ]; then echo "CAUGHT $src by $prop $tier";
elif [ $rc -eq 0 ]; then echo "MISSED $src by $prop $tier"; tail -2 "$wt/.out.txt";
else echo "HARNESS-ERROR rc=$rc"; tail -5 "$wt/.err.txt"; fi
exit $rc
