#!/usr/bin/env python3
"""Regenerates MANIFEST.json from the table below (kept in one place so it stays valid)."""
import json, os, sys
HERE = os.path.dirname(os.path.dirname(os.path.abspath(__file__)))
PROPS = [json.loads(l) for l in open(os.path.join(HERE, "properties.jsonl"))]

# property -> (technique, level text, level note, design ref)
CLAIMED = {
 "C01": ("Hypothesis-generated (rule class, n, parameters) against orthogonal-polynomial exactness identities (SciPy recurrences) and mpmath closed forms (node map, step x mp.diff)",
         "All 26 rule classes x admissible n (both parities, 2..257) x extra parameters are generated; inside each case every basis degree up to the nominal one is integrated with a condition-scaled tolerance (1e-11, healthy tree <= 3e-14), closed-form rules are compared node by node with the docstring definition evaluated in mpmath, and inadmissible arguments must be rejected. Exploration, not proof: it samples the (class, n, parameter) space but decides each sampled rule completely.",
         "Trusted: SciPy eval_* recurrences, mpmath, NumPy. Envelope: Gauss-Legendre n<=100, Gauss-Laguerre n<=150, double-exponential rules inside their float64 range. Known finding KF-C01-fejer2 is matched only through the truncated-series buggy model.",
         "DESIGN.md section 3, C01"),
 "C02": ("complete enumeration of the 450 shipped angular grids x all (l,m) up to the advertised degree, against independent spherical harmonics",
         "Thorough enumerates every constructible (method, degree) and integrates every real spherical harmonic with l <= degree (exhaustive: true); quick runs all grids below a cost threshold plus a seeded quarter of the rest and always the two known-finding probes. Oracle: own normalised Legendre recurrence (self-tested against mpmath), tolerance 1e-9 (healthy <= 3.3e-12, defective data >= 5e-5).",
         "Trusted: the reference harmonics in pbt/oracles/sph.py (self-test vs mpmath on every run), file names as the list of constructible grids. Two data defects are known findings keyed on (method, degree).",
         "DESIGN.md section 3, C02"),
 "C08": ("Hypothesis-generated degrees (0..400) and structured angles (poles, equator, 1e-15..1e-3 neighbourhoods, 2pi images, azimuth in [-20,20]) against an independent extended-precision normalised recurrence, re-validated per run against a 40-digit mpmath definition; difference quotients, addition theorem, explicit Cartesian table, conversion round trip",
         "Both harmonics implementations, the derivative routine, solid_harmonics and convert_cart_to_sph are compared with definition-level references under a stated eps x condition-scale error model (measured worst 2.5 units of 300 allowed); about 8 200 quick / 71 000 thorough generated cases per run.",
         "Trusted: numpy cos/sin/arctan2/longdouble arithmetic, mpmath, scipy eval_legendre, the documented convention (no Condon-Shortley phase, Horton-2 order). Polar angles in (pi,2pi) are outside the asserted region; within |sin phi| <= 1e-3 of a pole only finiteness of the polar derivative is asserted (documented convention).",
         "DESIGN.md section 3, C08"),
 "C14": ("Hypothesis-generated (type, dimension, grid, centres incl. grid points and near-axis points, order) with every returned row recomputed as a plain quadrature sum over independently evaluated basis functions and an own Horton-order enumeration; order generator enumerated exhaustively for orders 0..12; dipole helper in neutral / homonuclear / mass-table modes",
         "Every entry and the order list of Grid.moments are decided against direct quadrature for the four moment types in 1-3 dimensions; 26 000 quick / 380 000 thorough cases; error model eps*(order+2)*sum|w f|*bound with 200 units allowed (measured <= 1.9).",
         "Trusted: the property-statement definitions (pure-radial = |r-R|^n x solid harmonic; the docstring's n+1 is not followed), 0^0 = 1, own real solid harmonics (pbt/oracles/sph.py), an 8-digit principal-isotope mass table for Z <= 18.",
         "DESIGN.md section 3, C14"),
 "C18": ("Hypothesis-generated domain lists / repeat mode with mixed point dimensions, separable and non-separable integrands and chunk sizes around 1, total, total+-1, against an explicit odometer loop over index tuples (fsum) and the product of 1-D sums",
         "Every route of MultiDomainGrid.integrate (vectorised, point-wise, each chunk size) and .size/.points/.weights (tuple by tuple, documented order) are compared with the nested-loop definition; 10 000 quick / 150 000 thorough cases.",
         "Trusted: 'same order' = first domain slowest, last fastest as documented; the vectorised calling convention taken from ngrid.py and its tests; summation error model 20*eps*(total+20)*sum|wF|.",
         "DESIGN.md section 3, C18"),
 "C19": ("model-based history testing: Hypothesis generates one JSON list of steps per case (constructions with cache on/off, in-place edits of returned arrays, atomic/shell/molecular grids, transform calls in any order, Coulomb loader calls), interpreted against the library and a model with global caches reset per case and the invariant observed after every step; whole history shrinks as one value",
         "About 24k histories quick / 250k thorough per seed, 40-45 % non-trivial (a construction after an in-place edit of the same key; transform sequences starting with inverse/deriv), plus 70 pinned regression histories for the repaired cache-aliasing defect and every first-call order of the b-scaled transforms.",
         "Trusted: shipped .npz/JSON data read by an independent loader; closed forms retyped from the transform docstrings; own spherical harmonics; rotated shells compared through the Gram matrix. Only white-box access: emptying the module caches at the start of a case.",
         "DESIGN.md section 3, C19"),
 "C20": ("differential aliasing testing over a registry of 177 public operations: each runs on fresh writable arguments and again under an aliasing pattern (read-only arrays, one object for two parameters, calls repeated on shared lists/dicts, callbacks returning their argument or a memoised (read-only) array) with recursive byte-wise snapshots of every caller-side object and callback result; deterministic operation x pattern sweep plus Hypothesis sampling",
         "About 25k cases quick / 404k thorough per seed, > 80 % aliased/read-only/non-fresh callbacks; every operation is exercised under every applicable pattern in every run; 72 pinned cases for the two repaired defects.",
         "Trusted: NumPy tobytes/dtype/shape for snapshots; the aliased run is compared with the run on fresh copies (equivalence, not absolute correctness); 'caller data' = objects created through the argument factory incl. arrays receivers were built from; the global NumPy RNG is pinned before each call.",
         "DESIGN.md section 3, C20"),
 "C12": ("exhaustive enumeration of the finite request space + Hypothesis-generated request sequences, against a table oracle read from the data file names",
         "Every integer degree and size request 0..max+3 of the four methods is enumerated (exhaustive for the lookup clause), every table entry is constructed and compared with the data file in the thorough tier, and generated sequences go through the converter, AtomGrid and from_pruned; the oracle is a linear scan over the sorted list of shipped file names, so bisect/dictionary/range slips are caught.",
         "Trusted: the file names under src/grid/data name what is supported (four unreachable extra files are listed in pbt/oracles/data_loader.py); NumPy.",
         "DESIGN.md section 3, C12"),
}
NOT_YET = "check not built yet in this revision of /verif (work in progress; see DESIGN.md section 7)"

def main():
    checks, na = [], []
    for p in PROPS:
        pid = p["id"]
        if pid in CLAIMED:
            tech, text, note, ref = CLAIMED[pid]
            checks.append({
                "property_id": pid,
                "quick_cmd": f"./check {pid} quick",
                "thorough_cmd": f"./check {pid} thorough",
                "evidence_file": f"evidence/{pid}.json",
                "replay_cmd_template": f"./check {pid} --replay {{path}}",
                "engine": "pbt",
                "level_claimed": {"category": "exploration", "text": text, "design_ref": ref},
                "level_note": note,
                "technique": tech,
            })
        else:
            na.append({"property_id": pid, "reason": NOT_YET})
    man = {
        "version": 1,
        "setup_cmd": "/venv/bin/python -c 'import hypothesis, mpmath' 2>/dev/null || /venv/bin/pip install --no-index --find-links /opt/veriftools/wheels hypothesis mpmath",
        "hooks": {
            "guard": "GRID_VERIF",
            "enable": "no hooks: every property is observed through the public API; checks import the working tree via PYTHONPATH=/repo/src (set by ./check)",
            "baseline_off_cmd": "cd /repo && /venv/bin/python -m pytest -ra -q -p no:cacheprovider --timeout=900 --continue-on-collection-errors",
            "source_commits": [],
            "add_only": True,
        },
        "engines": [{
            "name": "pbt", "path": "pbt/runner.py",
            "serves_properties": sorted(CLAIMED),
            "kind_free_text": "property-based testing: Hypothesis 6.168 strategies producing JSON case descriptors (histories as operation lists), plain body(case) oracles, sharded over 16 processes, bucketed shrinking to replay files; complete enumeration where the space is finite",
        }],
        "checks": checks,
        "notes": "Exit protocol: 0 held / 1 VIOLATION lines / 2 harness error. Known findings: known_findings.json (committed, never written at run time). Fix commits in /repo are listed there as 'fixed:' entries.",
        "not_applicable": na,
    }
    json.dump(man, open(os.path.join(HERE, "MANIFEST.json"), "w"), indent=1)
    try:
        import jsonschema
        jsonschema.validate(man, json.load(open("/root/.vp/MANIFEST.schema.json")))
        print("MANIFEST.json valid;", len(checks), "claimed,", len(na), "not applicable")
    except ImportError:
        print("jsonschema not available; wrote MANIFEST.json")
if __name__ == "__main__":
    main()
