#!/usr/bin/env python3
"""Regenerates MANIFEST.json from the table below (kept in one place so it stays valid)."""
import json, os, sys
HERE = os.path.dirname(os.path.dirname(os.path.abspath(__file__)))
PROPS = [json.loads(l) for l in open(os.path.join(HERE, "properties.jsonl"))]

# property -> (technique, level text, level note, design ref)
CLAIMED = {
 "C01": ("Hypothesis-generated (rule class, n, parameters) against orthogonal-polynomial exactness identities (SciPy recurrences) and mpmath closed forms (node map, step x mp.diff)",
         "All 26 rule classes x admissible n (both parities, 2..257) x extra parameters are generated; inside each case every basis degree up to the nominal one is integrated with a condition-scaled tolerance (1e-11, healthy tree <= 3e-14), closed-form rules are compared node by node with the docstring definition evaluated in mpmath, and inadmissible arguments must be rejected. Exploration, not proof: it samples the (class, n, parameter) space but decides each sampled rule completely.",
         "Trusted: SciPy eval_* recurrences, mpmath, NumPy. Envelope: Gauss-Legendre n<=100, Gauss-Laguerre n<=150, double-exponential rules inside their float64 range. Known finding KF-C01-fejer2 is matched only through the truncated-series buggy model.",
         "DESIGN.md section 3, C01"),
 "C02": ("complete enumeration of the 450 shipped angular grids x all (l,m) up to the advertised degree, against independent spherical harmonics",
         "Thorough enumerates every constructible (method, degree) and integrates every real spherical harmonic with l <= degree (exhaustive: true); quick runs all grids below a cost threshold plus a seeded quarter of the rest and always the two known-finding probes. Oracle: own normalised Legendre recurrence (self-tested against mpmath), tolerance 1e-9 (healthy <= 3.3e-12, defective data >= 5e-5).",
         "Trusted: the reference harmonics in pbt/oracles/sph.py (self-test vs mpmath on every run), file names as the list of constructible grids. Two data defects are known findings keyed on (method, degree).",
         "DESIGN.md section 3, C02"),
 "C03": ("Hypothesis-generated transform descriptors (11 classes + InverseRTransform, integer and non-integer k/m, trim on/off, explicit and inferred b, array and scalar input) compared method by method with an independent mpmath model: maps retyped from the class docstrings at 40 digits, every derivative by mp.diff",
         "transform, inverse, three derivatives, three inverse derivatives, round trip, monotonicity and reference end points are decided for about 11 000 generated cases per quick run and 290 000 per thorough run; the 'symbolic identity' is replaced by 40-digit numerical differentiation over generated parameters and points (evidence, not proof). Pinned regression cases cover the repaired HandyMod.deriv3 and the Knowles end point.",
         "Trusted: mpmath arithmetic and mp.diff (cross-checked against SymPy symbolic derivatives in a self test); the docstrings as specification (Exp/Power forward docstrings are garbled and read through their documented inverse and r(0)=rmin, r(b)=rmax); tolerance = 1e-9 relative plus 1e3*eps conditioning terms, ill-conditioned points skipped and counted. Two known findings (Hyperbolic domain end, inverse at infinity) are matched by narrow predicates.",
         "DESIGN.md section 3, C03"),
 "C04": ("Hypothesis-generated (rule, n) x admissible transform x integrand; the grid returned by transform_1d_grid is compared with an mpmath change of variables (nodes F(x_i), weights w_i*|F'(x_i)| with F' from mp.diff rather than tf.deriv, the sum, signs, the ordered image domain); Gauss-Legendre exactness transported through LinearFinite with an own Legendre recurrence",
         "About 10 500 cases per quick run and 230 000 per thorough run; 24 rules x 12 transform classes, n <= 41 (81 thorough); every shifted Legendre degree k <= 2n-1 in the transport clause.",
         "Trusted: the same mpmath model as C03; the rule's nodes and weights are data (C01). Nodes on a singular end (infinite r or r') are checked for value only. Known findings (signed Jacobian of MultiExp, nan domain ends, trimmed domain below a node) are matched by narrow buggy models, each with a pinned probe.",
         "DESIGN.md section 3, C04"),
 "C05": ("Hypothesis-generated JSON descriptors of an atomic grid (radial nodes incl. r=0, 4 methods, every constructor route, centre, Python/NumPy seed) with every point and weight compared with its (shell, angular node) pair reconstructed from the shipped data files by an independent loader, metamorphic relations (same seed, other seed, translation, per-shell grid) and the factorisation of the integral of g(r)Y_lm with independent harmonics; all 17 preset files x every tabulated element enumerated completely",
         "About 8k (quick) / 150k (thorough) generated configurations plus the exhaustive preset x element enumeration (1855 Lebedev cases; the other 3 methods sampled in quick, complete in thorough).",
         "Trusted: the shipped angular data files and their file-name table (pbt/oracles/data_loader.py), pbt/oracles/sph.py (self-tested against mpmath), NumPy leggauss for the preset radial grids, the dtype convention of the preset tables. Sector-boundary nodes (within 1e-9) are skipped. Two data findings are known (sg_3/Si cannot be built; sg_0/N,P list surplus sizes).",
         "DESIGN.md section 3, C05"),
 "C09": ("on Hypothesis-generated atomic grids a seeded band-limited f = sum g_lm(r) Y_lm (independent harmonics) gives closed-form right-hand sides for angular integration, spline values, absent components and grid-point reproduction; on band-limited and arbitrary data the interpolant is compared with sum spline*Y at special points (centre, axis, knots) and every derivative mode with central differences of the interpolant itself or SciPy spline derivatives; MolGrid.interpolate against the sum of atomic interpolants of w_A f in all six modes",
         "About 4.5k (quick) / 72k (thorough) generated cases across three sub-checks.",
         "Trusted: pbt/oracles/sph.py, the exactness of the shipped angular grids (C02), SciPy CubicSpline evaluation. Finite-difference tolerances 1e-6*scale plus truncation and round-off terms. First derivatives at the centre are not compared. Known finding KF-C09-axis-gradient (first derivatives on the z-axis through the centre) is matched by an input predicate plus a value signature.",
         "DESIGN.md section 3, C09"),
 "C06": ("Hypothesis-generated molecules, point sets and segment tables compared with a loop-level Becke reference written from the docstrings/paper definition (self-tested against 40-digit arithmetic), plus identities (bounds, sum = 1, nucleus values), agreement of all evaluation routes, relabelling and rigid-motion metamorphic relations, and Hirshfeld shares against an own natural spline of the shipped pro-atom tables",
         "Quick about 6 400 cases, thorough about 140 000, with a measured class histogram (1-10 atoms, chunked path, elements without radius, nuclei among points, far points to 1e6).",
         "Trusted: the Bragg-Slater table (cross-checked against Slater 1964) and the pro-atom npz files as data; the 0.45 clip as documented default; tolerance models 64*eps*M*1.9*1.5^order*(1+|x|/R_min), 100x that for rigid motion, 64*M*eps for identities.",
         "DESIGN.md section 3, C06"),
 "C07": ("Hypothesis-generated molecules and constructor argument combinations: the molecular grid is compared with the concatenation built here from AtomGrid objects and the Becke reference, store on/off compared exactly, each classmethod compared by exact array equality with the hand-built grid (default radial grids rebuilt from the documented table); end-to-end charge of Gaussian sums against the analytic total inside/outside a calibrated region",
         "Quick about 2 500 cases, thorough about 76 000. The 1 % clause is enforced outside a region calibrated on about 1.1 M single-Gaussian integrals (worst outside 0.42 %); inside the region (compressed pairs) only errors >= 20 % are violations (known finding).",
         "Trusted: AtomGrid, OneDGrid, PowerRTransform, UniformInteger and the Lebedev data (C01-C05, C12) build the hand-made side; _DEFAULT_POWER_RTRANSFORM_PARAMS and CODATA constants; Bragg radii for the region predicate; positive coefficients only; summation-order tolerance 512*eps*sum|wf|. Known findings: molgrid[i] under store=True; the 1 % region.",
         "DESIGN.md section 3, C07"),
 "C10": ("model-based Hypothesis histories shrunk as one JSON value: one grid instance of any type plus a list of query / reassign-points / reassign-weights / select steps, each interpreted against the real object and a harness-owned model of the current points and weights; every local grid compared with a brute-force distance filter, every selection with a list-of-positions model",
         "9 000 histories per quick run and 180 000 per thorough run, pinned regression cases for the four repaired defects; measured shares: 58 % query after a reassignment, 49 % empty ball, every grid kind 11-13 %, every index kind 13-47 %.",
         "Trusted: NumPy elementwise arithmetic and fancy indexing, the harness distance filter (sum of squares), the grid's public .points/.weights right after construction as the definition of parent points. Points within 1e-9*scale of the sphere are excluded; empty selections and out-of-domain OneDGrid selections may raise ValueError.",
         "DESIGN.md section 3, C10"),
 "C11": ("Hypothesis-generated cells (dimension 1-3, 0..dim skewed/negative lattice vectors, wrap on/off, 1-D arrays) with 1-3 queries each; the library's local grid is decomposed into (parent index, integer translation) pairs and compared as a set with a brute-force enumeration of all integer translations in a provably complete box filtered by plain distance",
         "12 000 cells per quick run and 300 000 per thorough run, pinned cases for the four repaired defects; shares: 35 % duplicated parent indices, 40 % empty results, 64 % negative and 52 % skewed lattices.",
         "Trusted: NumPy linear algebra (pseudo-inverse bound widened by 2, outer layer asserted empty at run time), the harness distance filter, the grid's public .points after optional wrapping (wrap itself checked to 1e-9). Images within 1e-9*scale of the sphere are excluded, except the untranslated point bit-identical to the centre, which must be returned. Infinite radius is outside the domain (pinned ValueError).",
         "DESIGN.md section 3, C11"),
 "C13": ("Hypothesis-generated grid descriptors (shapes 2..12 in 2-D/3-D, signed and skewed axes, 1-D rule products, molecules, cube contents over 40 orders of magnitude, tri-cubic coefficients with derivative orders) with exhaustive enumeration of every flat index of each generated grid and of every shape in {2..12}^d for all five weight schemes; each clause compared with a definition-level reference",
         "About 25 000 (quick) / 250 000 (thorough) generated grids; index maps both ways for all nodes, tensor weights and separable integrals, weight-sum bound, from_molecule margins, closest_point vs brute-force argmin, cube round trip in both unit conventions against the printed-precision bound, cubic/log/linear interpolation and derivatives against closed forms.",
         "Trusted: NumPy linear algebra and numpy.polynomial closed forms; itertools.product as the definition of lexicographic order; the rigorous printed-precision bound for cube files; a typed CODATA bohr/angstrom constant; the stated interpolation error model. Known findings (Fourier2, from_molecule margin) are matched by buggy-model reconstructions.",
         "DESIGN.md section 3, C13"),
 "C15": ("Hypothesis-generated manufactured linear ODE problems of order 1-3 (analytic solution and coefficient families, right-hand side constructed from them, initial or well-posed boundary data read off the solution), each solved directly and through 20 transform variants with random parameters and six SciPy methods; the returned callable is compared with the exact y, y', y'' under a stated propagation error model tied to the requested solver tolerance; prescribed conditions re-read; transformed vs direct solve",
         "Quick about 6 400 / thorough 120 000 generated problems per seed; non-trivial = order >= 2 through a transform or non-constant coefficients. Solver non-convergence is counted as inconclusive, never a violation.",
         "Trusted: SciPy solve_ivp/solve_bvp meeting their tolerances; the harness's closed-form transform maps and jet derivatives (self-tested against 30-digit mpmath); error-model constants calibrated on 9 000 cases (margins 48x-500x); BVP families restricted to uniquely solvable ones so conditioning cannot fake a failure.",
         "DESIGN.md section 3, C15"),
 "C16": ("Hypothesis-generated atomic and two-centre molecular grids and Gaussian charge sets (centred or displaced <= 0.1 bohr): the BVP, IVP and robust Poisson solvers are compared at 200 seeded points with the closed-form erf potentials at the project's own 1e-2 per unit charge; metamorphic linearity at 1e-5; the robust solver's exact-core clause (1e-8), recombination identity and agreement with the plain solver; Laplacian of the analytic potential against -4 pi rho",
         "Quick about 1 500 / thorough about 15 400 cases per seed across six sub-checks and all documented options (include_origin, remove_large_pts, boundary, ode tolerances, split2, alphas_basis). Expensive bodies are bounded by case count; a soft budget hit is reported as inconclusive.",
         "Trusted: scipy.special.erf and the closed forms (self-tested against mpmath); the shipped atomic_gauss_params.json read by the harness; the stated resolution envelope (60-120 radial nodes, degree 7-21, exponents 0.3-4, IVP start on a resolved node, r >= 0.25); solver non-convergence and the NNLS iteration limit counted as inconclusive.",
         "DESIGN.md section 3, C16"),
 "C17": ("Hypothesis over alpha in [1e-6,1e6] and r in {0, below/at/above the 1e-12 switch, log-uniform to 1e300, r ~ 1/sqrt(alpha)} for scalar/array/list input, compared with the 50-digit mpmath Coulomb integral of the documented density (incomplete gamma functions, self-tested against mp.quad and the radial Poisson equation); finite-difference Poisson residual, far-field charge, switch continuity, unnormalised factor; multi-centre routine against sum c*single-centre and mp; loader enumerated exhaustively for Z = 1..118 with all spellings",
         "About 21 700 (quick) / 318 000 (thorough) cases; loader exhaustive.",
         "Trusted: mpmath gammainc/gamma/exp at 50 digits (cross-checked by quadrature in the selftest); the docstring densities as the specification; json.load of atomic_gauss_params.json for the loader. Known finding KF-C17-ptype is matched only by its closed-form offset.",
         "DESIGN.md section 3, C17"),
 "C08": ("Hypothesis-generated degrees (0..400) and structured angles (poles, equator, 1e-15..1e-3 neighbourhoods, 2pi images, azimuth in [-20,20]) against an independent extended-precision normalised recurrence, re-validated per run against a 40-digit mpmath definition; difference quotients, addition theorem, explicit Cartesian table, conversion round trip",
         "Both harmonics implementations, the derivative routine, solid_harmonics and convert_cart_to_sph are compared with definition-level references under a stated eps x condition-scale error model (measured worst 2.5 units of 300 allowed); about 8 200 quick / 71 000 thorough generated cases per run.",
         "Trusted: numpy cos/sin/arctan2/longdouble arithmetic, mpmath, scipy eval_legendre, the documented convention (no Condon-Shortley phase, Horton-2 order). Polar angles in (pi,2pi) are outside the asserted region; within |sin phi| <= 1e-3 of a pole only finiteness of the polar derivative is asserted (documented convention).",
         "DESIGN.md section 3, C08"),
 "C14": ("Hypothesis-generated (type, dimension, grid, centres incl. grid points and near-axis points, order) with every returned row recomputed as a plain quadrature sum over independently evaluated basis functions and an own Horton-order enumeration; order generator enumerated exhaustively for orders 0..12; dipole helper in neutral / homonuclear / mass-table modes",
         "Every entry and the order list of Grid.moments are decided against direct quadrature for the four moment types in 1-3 dimensions; 26 000 quick / 380 000 thorough cases; error model eps*(order+2)*sum|w f|*bound with 200 units allowed (measured <= 1.9).",
         "Trusted: the property-statement definitions (pure-radial = |r-R|^n x solid harmonic; the docstring's n+1 is not followed), 0^0 = 1, own real solid harmonics (pbt/oracles/sph.py), an 8-digit principal-isotope mass table for Z <= 18.",
         "DESIGN.md section 3, C14"),
 "C18": ("Hypothesis-generated domain lists / repeat mode with mixed point dimensions, separable and non-separable integrands and chunk sizes around 1, total, total+-1, against an explicit odometer loop over index tuples (fsum) and the product of 1-D sums",
         "Every route of MultiDomainGrid.integrate (vectorised, point-wise, each chunk size) and .size/.points/.weights (tuple by tuple, documented order) are compared with the nested-loop definition; 10 000 quick / 150 000 thorough cases.",
         "Trusted: 'same order' = first domain slowest, last fastest as documented; the vectorised calling convention taken from ngrid.py and its tests; summation error model 20*eps*(total+20)*sum|wF|.",
         "DESIGN.md section 3, C18"),
 "C19": ("model-based history testing: Hypothesis generates one JSON list of steps per case (constructions with cache on/off, in-place edits of returned arrays, atomic/shell/molecular grids, transform calls in any order, Coulomb loader calls), interpreted against the library and a model with global caches reset per case and the invariant observed after every step; whole history shrinks as one value",
         "About 24k histories quick / 250k thorough per seed, 40-45 % non-trivial (a construction after an in-place edit of the same key; transform sequences starting with inverse/deriv), plus 70 pinned regression histories for the repaired cache-aliasing defect and every first-call order of the b-scaled transforms.",
         "Trusted: shipped .npz/JSON data read by an independent loader; closed forms retyped from the transform docstrings; own spherical harmonics; rotated shells compared through the Gram matrix. Only white-box access: emptying the module caches at the start of a case.",
         "DESIGN.md section 3, C19"),
 "C20": ("differential aliasing testing over a registry of 177 public operations: each runs on fresh writable arguments and again under an aliasing pattern (read-only arrays, one object for two parameters, calls repeated on shared lists/dicts, callbacks returning their argument or a memoised (read-only) array) with recursive byte-wise snapshots of every caller-side object and callback result; deterministic operation x pattern sweep plus Hypothesis sampling",
         "About 25k cases quick / 404k thorough per seed, > 80 % aliased/read-only/non-fresh callbacks; every operation is exercised under every applicable pattern in every run; 72 pinned cases for the two repaired defects.",
         "Trusted: NumPy tobytes/dtype/shape for snapshots; the aliased run is compared with the run on fresh copies (equivalence, not absolute correctness); 'caller data' = objects created through the argument factory incl. arrays receivers were built from; the global NumPy RNG is pinned before each call.",
         "DESIGN.md section 3, C20"),
 "C12": ("exhaustive enumeration of the finite request space + Hypothesis-generated request sequences, against a table oracle read from the data file names",
         "Every integer degree and size request 0..max+3 of the four methods is enumerated (exhaustive for the lookup clause), every table entry is constructed and compared with the data file in the thorough tier, and generated sequences go through the converter, AtomGrid and from_pruned; the oracle is a linear scan over the sorted list of shipped file names, so bisect/dictionary/range slips are caught.",
         "Trusted: the file names under src/grid/data name what is supported (four unreachable extra files are listed in pbt/oracles/data_loader.py); NumPy.",
         "DESIGN.md section 3, C12"),
}
NOT_YET = "not claimed in this revision of /verif"

def main():
    checks, na = [], []
    for p in PROPS:
        pid = p["id"]
        if pid in CLAIMED:
            tech, text, note, ref = CLAIMED[pid]
            checks.append({
                "property_id": pid,
                "quick_cmd": f"./check {pid} quick",
                "thorough_cmd": f"./check {pid} thorough",
                "evidence_file": f"evidence/{pid}.json",
                "replay_cmd_template": f"./check {pid} --replay {{path}}",
                "engine": "pbt",
                "level_claimed": {"category": "exploration", "text": text, "design_ref": ref},
                "level_note": note,
                "technique": tech,
            })
        else:
            na.append({"property_id": pid, "reason": NOT_YET})
    man = {
        "version": 1,
        "setup_cmd": "/venv/bin/python -c 'import hypothesis, mpmath, sympy, scipy' 2>/dev/null || /venv/bin/pip install --no-index --find-links /opt/veriftools/wheels hypothesis mpmath sympy",
        "hooks": {
            "guard": "GRID_VERIF",
            "enable": "no hooks: every property is observed through the public API; checks import the working tree via PYTHONPATH=/repo/src (set by ./check)",
            "baseline_off_cmd": "cd /repo && /venv/bin/python -m pytest -ra -q -p no:cacheprovider --timeout=900 --continue-on-collection-errors",
            "source_commits": [],
            "add_only": True,
        },
        "engines": [{
            "name": "pbt", "path": "pbt/runner.py",
            "serves_properties": sorted(CLAIMED),
            "kind_free_text": "property-based testing: Hypothesis 6.168 strategies producing JSON case descriptors (histories as operation lists), plain body(case) oracles, sharded over 16 processes, bucketed shrinking to replay files; complete enumeration where the space is finite",
        }],
        "checks": checks,
        "notes": "Exit protocol: 0 held / 1 VIOLATION lines / 2 harness error. Known findings: known_findings.json (committed, never written at run time). Fix commits in /repo are listed there as 'fixed:' entries.",
        "not_applicable": na,
    }
    json.dump(man, open(os.path.join(HERE, "MANIFEST.json"), "w"), indent=1)
    try:
        import jsonschema
        jsonschema.validate(man, json.load(open("/root/.vp/MANIFEST.schema.json")))
        print("MANIFEST.json valid;", len(checks), "claimed,", len(na), "not applicable")
    except ImportError:
        print("jsonschema not available; wrote MANIFEST.json")
if __name__ == "__main__":
    main()
