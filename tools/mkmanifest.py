#!/usr/bin/env python3
"""Regenerates MANIFEST.json from the table below (kept in one place so it stays valid)."""
import json, os, sys
HERE = os.path.dirname(os.path.dirname(os.path.abspath(__file__)))
PROPS = [json.loads(l) for l in open(os.path.join(HERE, "properties.jsonl"))]

# property -> (technique, level text, level note, design ref)
CLAIMED = {
 "C12": ("exhaustive enumeration of the finite request space + Hypothesis-generated request sequences, against a table oracle read from the data file names",
         "Every integer degree and size request 0..max+3 of the four methods is enumerated (exhaustive for the lookup clause), every table entry is constructed and compared with the data file in the thorough tier, and generated sequences go through the converter, AtomGrid and from_pruned; the oracle is a linear scan over the sorted list of shipped file names, so bisect/dictionary/range slips are caught.",
         "Trusted: the file names under src/grid/data name what is supported (four unreachable extra files are listed in pbt/oracles/data_loader.py); NumPy.",
         "DESIGN.md section 3, C12"),
}
NOT_YET = "check not built yet in this revision of /verif (work in progress; see DESIGN.md section 7)"

def main():
    checks, na = [], []
    for p in PROPS:
        pid = p["id"]
        if pid in CLAIMED:
            tech, text, note, ref = CLAIMED[pid]
            checks.append({
                "property_id": pid,
                "quick_cmd": f"./check {pid} quick",
                "thorough_cmd": f"./check {pid} thorough",
                "evidence_file": f"evidence/{pid}.json",
                "replay_cmd_template": f"./check {pid} --replay {{path}}",
                "engine": "pbt",
                "level_claimed": {"category": "exploration", "text": text, "design_ref": ref},
                "level_note": note,
                "technique": tech,
            })
        else:
            na.append({"property_id": pid, "reason": NOT_YET})
    man = {
        "version": 1,
        "setup_cmd": "/venv/bin/python -c 'import hypothesis, mpmath' 2>/dev/null || /venv/bin/pip install --no-index --find-links /opt/veriftools/wheels hypothesis mpmath",
        "hooks": {
            "guard": "GRID_VERIF",
            "enable": "no hooks: every property is observed through the public API; checks import the working tree via PYTHONPATH=/repo/src (set by ./check)",
            "baseline_off_cmd": "cd /repo && /venv/bin/python -m pytest -ra -q -p no:cacheprovider --timeout=900 --continue-on-collection-errors",
            "source_commits": [],
            "add_only": True,
        },
        "engines": [{
            "name": "pbt", "path": "pbt/runner.py",
            "serves_properties": sorted(CLAIMED),
            "kind_free_text": "property-based testing: Hypothesis 6.168 strategies producing JSON case descriptors (histories as operation lists), plain body(case) oracles, sharded over 16 processes, bucketed shrinking to replay files; complete enumeration where the space is finite",
        }],
        "checks": checks,
        "notes": "Exit protocol: 0 held / 1 VIOLATION lines / 2 harness error. Known findings: known_findings.json (committed, never written at run time). Fix commits in /repo are listed there as 'fixed:' entries.",
        "not_applicable": na,
    }
    json.dump(man, open(os.path.join(HERE, "MANIFEST.json"), "w"), indent=1)
    try:
        import jsonschema
        jsonschema.validate(man, json.load(open("/root/.vp/MANIFEST.schema.json")))
        print("MANIFEST.json valid;", len(checks), "claimed,", len(na), "not applicable")
    except ImportError:
        print("jsonschema not available; wrote MANIFEST.json")
if __name__ == "__main__":
    main()
