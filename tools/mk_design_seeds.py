#!/usr/bin/env python3
"""Regenerates DESIGN.md section 9.1 (seeded changes) from seeded/*/meta.json and seeded/RESULTS.md."""
import glob, json, os
HERE = os.path.dirname(os.path.dirname(os.path.abspath(__file__)))
MISSED = {  # seed -> (round, what the miss changed)
 'C13_from_cube_angstrom_grid_only': ('1', "ångström→bohr conversion of origin/axes moved behind the early return for `return_data=False`. The check read the ångström file only with `return_data=True`; it now also reads it grid-only and demands identical grids."),
 'C10_inplace_points_stale_tree': ('1', "the `points` setter keeps the k-d tree when the assigned array equals the current one, which is what augmented assignment (`grid.points += shift`) hands it. A third of the point reassignments in C10 histories are now augmented assignments."),
 'C02_cache_alias_first_grid': ('2', "on a cache miss with `cache=True` the returned grid owns the cached arrays. A history (edit the first grid, build again): C19's domain, and C19 caught it; C02 now also destroys the arrays of every grid it was handed before building the next route (fill → hit → size)."),
 'C03_inverse_memo_stale': ('2', "inverse-derivative methods memoise `x(r)` by array identity. C03 now calls every method through one persistent work buffer per length and repeats the inverse-derivative calls on the re-filled buffer; it also asserts that no method modifies its input."),
 'C04_identity_shared_jacobian': ('2', "`transform_1d_grid` scales a cached constant Jacobian in place (Identity). C04 now applies the same transform instance three times to the same grid and demands identical results, an unchanged first result and an unchanged source grid."),
 'C09_shared_basis_cache': ('2, harness error', "a module-level cache of the harmonic basis keyed without the rotation seed. The body found discrepancies, but their occurrence depended on earlier cases in the same process, Hypothesis reported `FlakyFailure`, and the runner turned that into a harness error (exit 2). The runner now reports a discrepancy that *was* observed against the oracle as a violation even when it cannot be reproduced in isolation (noted in the replay file)."),
 'C12_convert_sizes_clamped': ('2', "an oversize element inside a sequence is clamped to the maximal degree instead of being rejected. Sequences now include elements above the maximum, through all five routes; they must raise ValueError."),
 'C14_solid_harmonics_cache_stale': ('2', "solid harmonics cached on the grid object survive `grid.points = …`. Every C14 case now reassigns points and weights of the same Grid object and checks a second `moments()` call against direct quadrature on the current grid."),
 'C17_params_cache_shared_arrays': ('2', "the loader returns the cached arrays. The C17 loader sub-check now destroys the returned arrays between its seven spellings of the same element (C19 caught the twin seed `C19_coulomb_table_shared_arrays`)."),
 'C08_derivative_pole_mask_isclose': ('2', "pole mask widened from |tan φ| < 1e-10 to |sin φ| < 1e-8. The check asserted the polar derivative only for |sin φ| > 1e-3; it now asserts it for |tan φ| ≥ 5e-10 (just outside the documented mask) with the 1/sin φ error model; 36 % of the derivative cases have a compared point within 1e-3 of a pole."),
 'C08_scipy_harmonics_block_remainder': ('2', "blocked evaluation leaves the trailing partial block uninitialised above ≈4 M elements. New sub-check `values-many` (200–6000 points at l_max ≤ 80)."),
 'C19_default_rgrid_cache_shared': ('2', "`from_preset(rgrid=None)` caches the default radial grid per element and hands it out. New history step `preset` (its `rgrid` arrays are editable targets; every later build of the same (element, preset) must be bit-identical to the first build in the process)."),
 'C05_sector_blocks': ('3', "sector look-up by `searchsorted` over contiguous blocks: wrong for radial grids whose nodes are not ascending. The C05 generator only produced ascending nodes; 40 % of the structure cases now have descending or rotated node order (a decreasing transform such as MultiExp produces exactly that)."),
 'C07_from-preset-shell-degree-reuse': ('3', "`MolGrid.from_preset` memoises per-shell degrees by (element, preset). A third of the list/dict-style constructor cases now contain two atoms of the same element (and preset / sector tables) whose radial grids differ but have the same number of shells."),
 'C08_cart-to-sph-center-dtype': ('3', "the centre is cast to the dtype of the points: integer-dtype point arrays truncate a non-integer centre. 40 % of the cart2sph cases now pass int64/int32 lattice points."),
 'C09_last_points_memo': ('3', "the interpolant closure memoises the spherical coordinates of the last evaluation points by array identity. Values are now evaluated through a work array that held other points in an earlier call and was re-filled in place."),
 'C13_cube_z_run_layout': ('3', "cube writer drops the last value of every z-run when nz mod 6 = 1. The cube sub-check used shapes 2..6; it now uses nz up to 20 so that every residue of nz modulo the six values per line occurs."),
 'C14_repeated_center_skip': ('3', "consecutive centres that differ by less than `np.allclose`'s default tolerance reuse the previous column. Centre modes `near-prev` (previous centre + 1e-6 along one axis) and `same-as-prev` were added."),
 'C19_size_to_degree_memo': ('3', "size→degree look-up memoised by size only (the C12 check catches it: same idea as `C12_size-memo-ignores-method`). C19 histories got a `convert` step (a small pool of size requests through all four methods in one process)."),
 'C20_atomgrid_degrees_writeback': ('3', "the rounded-up degree is written back into the caller's `degrees` sequence. The registry's AtomGrid operation only requested shipped degrees; half of its descriptors now request degrees/sizes that must be rounded up."),
 'C03_linfinite_deriv_int_dtype': ('3', "`np.full_like(x, …)` on an integer array truncates the Jacobian. New sub-check `integer-dtype`: an int64 array of interior points (what np.arange/UniformInteger produce) must give the same numbers as the same points in float64, or be rejected loudly (NumPy's 'Integers to negative integer powers' in Knowles/Handy is a clean refusal)."),
 'C04_transform_grid_memo': ('3', "`transform_1d_grid` memoises its result per (transform, grid object). C04 now gives the same source-grid object other weights through the setter and demands the same nodes with the new weights. (Editing an earlier *result* in place is deliberately not part of the check: `IdentityRTransform.transform` returns its argument, so result and source share the points array — an aliasing the properties do not forbid.)"),
 'C15_affine_shortcut_allclose': ('3', "`np.allclose(d²r/dx², 0)` (absolute tolerance 1e-8) treats a transform of very small length scale as affine; only the returned d²y/dx² of third-order problems is wrong. Pinned small-scale cases (Exp rmin=1e-7, Power rmin=1e-9, Becke R=1e-10) were added, and a quarter of the forward maps in the generator now get a length scale of 1e-3…1e-9."),
 'C02_nocache_inplace_norm': ('4', "with `cache=False` on an already cached Lebedev degree the cached weights are scaled by 4π in place; only the NEXT cached construction is wrong (C19 caught it). C02's route sequence got a fourth step: a cached construction after the uncached build on a cached degree."),
 'C06_hirshfeld-tail-guard': ('4', "division skipped where the promolecule is below 1e-20: far from all nuclei the weights no longer sum to one. The Hirshfeld sub-check compared only well-conditioned points within 8 bohr; it now asserts the sum at every point with finite weights (boxes of 30 and 100 bohr added), with the error model eps·Σ|w_A| taken from the returned weights."),
 'C08_trig-table-dtype': ('4', "cos/sin tables allocated with the dtype of the azimuth array: integer-dtype azimuths are truncated. For l_max ≤ 12 both implementations are now also called with the azimuths as an int64 array of whole radians (same numbers as the float call, or a loud rejection)."),
 'C09_spline_memo_identity': ('4', "`interpolate` memoises the splines by identity of the data array. The interpolant under test is now built from a work array that held other data in an earlier `interpolate()` call and was re-filled in place."),
 'C12_size_zero_falsy': ('4', "`if size:` instead of `if size is not None:` — `AngularGrid(size=0)` silently builds the default degree-50 grid. The exhaustive look-up went through the static helper; the smallest requests (0 and 1, Python and NumPy integers) now also go through the constructor."),
 'C18_stale-preweights-cache': ('4', "weight products of the first N-1 domains cached on the object by grid sizes. Every C18 case now scales the weights of its first domain grid through the setter and integrates again on both routes."),
 'C13_fourier1-2d-layout': ('4', "Fourier1 weights of a non-square 2-D grid end up transposed (sum unchanged). New metamorphic clause for every scheme, shape and dimension: the same grid described with its axes listed in reverse order carries the same weight at the same node."),
 'C20_becke-call-indices': ('4', "`BeckeWeights.__call__` shifts the caller's `indices` array in place, but only when it works in several chunks (≥ 4 atoms). The registry's Becke operations used 2–3 atoms; they now use 2–5."),
 'C04_closed-rule-domain': ('4', "new domain taken from the mapped extreme nodes when they are `np.isclose` to the domain ends: wrong for large open rules (n ≳ 400). Pinned cases with GaussChebyshev(450), GaussChebyshevType2(450), GaussLegendre(600), FejerFirst(500) were added (the generator stays at n ≤ 81: a directed addition, not a generator class)."),
 'C15_ivp-y0-inplace': ('4', "`solve_ode_ivp` writes the transformed initial derivatives back into the caller's float64 `y0` array. With `as_array` the same `y0` array is now shared by the transformed and the direct solve of a case and must come back untouched (C20's registry passes `y0` too, but only without a transform)."),
 'C16_bvp-eval-memo': ('4', "the per-atom potential closure returns its cached array for identical points, which the molecular sum then accumulates into. The displaced/two-centre sub-check now evaluates the returned potential twice at the same points: identical numbers, first array unchanged."),
 'C08_sph_harm_last_call_memo': ('5', "one-entry memo of the last harmonics call keyed by l_max and the identity of the angle arrays. `values` now calls both implementations through angle arrays that held other angles in an earlier call with the same l_max and were re-filled in place (and asserts the arrays stay unmodified)."),
 'C13_interpolate_zspline_memo': ('5', "z-splines memoised on the grid, dropped only when `values` is a different array *object*. The decoy call now uses the same values array, which is then re-filled in place with the data under test."),
 'C14_moments_block_tail': ('5', "points processed in blocks of 2^19 with a floor instead of a ceiling: the tail of grids with more than 524 288 points is dropped. Generated grids had at most 24 points; three pinned molecular-size grids (600 011, 524 295, 300 007 points) were added — a directed addition, the generator does not reach such sizes."),
 'C16_bvp_zero_boundary': ('5', "`if not boundary:` treats an explicit `boundary=0.0` as not given. Only the natural value Q/Y00 was ever passed; `bvp_centred` now also passes 0, 0.5 and -0.25 times the natural value where the grid is cut at 10 or 50 bohr (origin included), with the derived shift (B·Y00 − Q)/r_c in the reference."),
 'C17_s_inplace_radius': ('5', "`coulomb_gaussian_s` overwrites r = 0 entries of the caller's float64 array with a dummy radius. Array-mode calls in `pointwise`, `switch` and `poisson_fd` now share one array per list of radii across all calls of a case and assert it stays as given."),
 'C05_points_alias_origin': ('5', "`AtomGrid.points` returns the internal array when the centre is the origin; a caller editing it in place moves the grid. `structure` now shifts the array it was handed by `.points` and demands an unchanged grid."),
 'C12_sizes_converted_in_place': ('5', "the size→degree converter overwrites the caller's int64 sizes array with degrees. `sequences` now asserts that request arrays still hold what the caller wrote and resolves the same array object a second time (converter and AtomGrid)."),
 'C04_linear_codomain_shortcut': ('6', "`LinearFiniteRTransform.transform_1d_grid` sets the new domain to the transform's codomain. Grids from the rule classes always carry the full domain; every case now also transforms the same nodes and weights declared on a strict sub-interval and compares the new domain with the mpmath image of that interval."),
 'C05_shell_grid_negative_index': ('6', "`get_shell_grid` newly accepts negative indices but rotates with seed `rotate + index`. `structure` now asks for shell -1: a clean rejection or exactly the last shell."),
 'C06_atom_weight_dist_buffer': ('6', "distance table allocated with the dtype of the points: integer-dtype lattice points are truncated in `compute_atom_weight`. Every Becke case now repeats three routes on the points rounded to an integer lattice, as int32/int64 and as float64 (same numbers, or a loud rejection)."),
 'C07_preset_rotate_true_seed': ('6', "`rotate=True` (documented: bool or int) mapped to the default seed 37 in `from_preset` instead of being passed through. The constructor cases drew only integers; `True` and `False` were added."),
 'C14_moments_screening': ('6', "points with |f·w| ≤ 1e-30 are dropped: linearity in f is lost for tiny function values. Function values are now scaled by 1, 1e-35, 1e-60 or 1e25 (the reference scales with them)."),
 'C19_sph_coords_cache': ('6', "`convert_cartesian_to_spherical` memoises the grid's own spherical coordinates but ignores the `center` argument. Atom steps of C19 histories (and C05 `structure`) now convert about the grid centre, another centre and the grid centre again and check the radius column."),
}
def main():
    p = os.path.join(HERE, 'DESIGN.md'); s = open(p).read()
    head, sep, rest = s.partition("\n\n## 9. Sensitivity: independently seeded changes and mutants")
    tail = ""
    if "\n### 9.2" in rest:
        tail = rest[rest.index("\n### 9.2"):]
    rows = []
    for d in sorted(glob.glob(os.path.join(HERE, 'seeded', 'C*_*'))):
        m = json.load(open(d + '/meta.json')) if os.path.exists(d + '/meta.json') else {}
        needs = m.get('needs_to_manifest') or m.get('summary') or ''
        if isinstance(needs, (list, dict)): needs = json.dumps(needs)
        needs = ' '.join(str(needs).split()).replace('|', '/')
        rows.append((os.path.basename(d), needs[:197] + '...' if len(needs) > 200 else needs))
    res = {}
    for l in open(os.path.join(HERE, 'seeded', 'RESULTS.md')):
        if l.startswith('| C'):
            c = [x.strip() for x in l.strip('|\n').split('|')]; res[c[1]] = (c[3], c[4])
    out = ["\n\n## 9. Sensitivity: independently seeded changes and mutants\n",
           f"### 9.1 Independently seeded changes ({len(rows)}; each confirmed: demo passes without / fails with the change, unedited suite 598 passed with it)\n",
           "Written by fresh sub-agents from the property text alone (section 4), in six rounds (rounds 2–6 were told which ideas had been used, nothing else; rounds 3–6 were asked for the hard kinds: state carried between calls, rare input representations, narrow numeric regimes, cooperating edits). `verdict` is the owning *quick* check at seed 1 on the current machinery (`tools/seeded_all.sh`; all labels in `seeded/RESULTS.md`); `first` says whether the first version of the check caught it.\n",
           "| change | needs, in order to manifest | verdict | first | first sub-check:label |", "|---|---|---|---|---|"]
    for name, needs in rows:
        v, lab = res.get(name, ('?', ''))
        first = f"MISSED (round {MISSED[name][0]})" if name in MISSED else 'caught'
        out.append(f"| {name} | {needs} | {v} | {first} | {lab.split(' ')[0] if lab else ''} |")
    nm = len(MISSED)
    out.append(f"\n**{nm} of the {len(rows)} were missed by the first version of the owning check** (round 1: 2 of 37, round 2: 10 of 40, rounds 3 and 4 — asked for the hard kinds — 11 of 20 each, round 5: 7 of 20, round 6: 6 of 20). Each miss was turned into a stronger generator or oracle, never into a special case for that patch, and all {len(rows)} are now CAUGHT by the quick tier:\n")
    for name, (rnd, txt) in MISSED.items():
        out.append(f"* `{name}` — {txt}")
    out.append("\nThe lesson that recurred: checks that build a fresh object for every call cannot see state carried between calls. The history dimension (same object called again, arrays re-filled in place, arguments edited between calls, several methods/elements in one process) was added to C01–C04, C09, C13, C14, C17 as cheap extra calls inside each case, in addition to the dedicated history properties C10 and C19.\n")
    open(p, 'w').write(head + '\n'.join(out) + tail)
if __name__ == '__main__':
    main()
