#!/bin/bash
# usage: tools/confirm_seed.sh seeded/<id> [nproc]
# Confirms a seeded change in a throw-away worktree of /repo HEAD: demo passes without the change, fails with it,
# and the unedited test suite still passes with it. Appends the outcome to seeded/<id>/confirmed.txt.
set -u
d="$(readlink -f "$1")"; np="${2:-8}"
wt="$(mktemp -d /tmp/seedconf.XXXXXX)"; rmdir "$wt"
git -C /repo worktree add -q --detach "$wt" HEAD || exit 3
trap 'git -C /repo worktree remove --force "$wt" >/dev/null 2>&1; rm -rf "$wt"' EXIT
export OMP_NUM_THREADS=1 OPENBLAS_NUM_THREADS=1 PYTHONPATH="$wt/src"
cd "$wt"
/venv/bin/python -W ignore "$d/demo.py" > .demo0.txt 2>&1; r0=$?
git apply "$d/patch.diff" || { echo "patch failed" >> "$d/confirmed.txt"; exit 3; }
/venv/bin/python -W ignore "$d/demo.py" > .demo1.txt 2>&1; r1=$?
/venv/bin/python -m pytest -q -p no:cacheprovider --timeout=900 -n "$np" src/grid/tests > .tests.txt 2>&1; rt=$?
summary="$(tail -1 .tests.txt)"
{ echo "confirmed $(date -u +%FT%TZ) at /repo $(git -C /repo rev-parse --short HEAD):"; echo "  demo without change: exit $r0 (expected 0)"; echo "  demo with change: exit $r1 (expected non-zero)"; echo "  test suite with change: exit $rt; $summary"; } >> "$d/confirmed.txt"
tail -4 "$d/confirmed.txt"
[ $r0 -eq 0 ] && [ $r1 -ne 0 ] && [ $rt -eq 0 ]
