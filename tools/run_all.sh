#!/bin/bash
# usage: tools/run_all.sh [tier] [seed...] : runs every check sequentially, prints one line per run; non-zero exit if any run is not clean
cd "$(dirname "$0")/.." || exit 2
tier="${1:-quick}"; shift; seeds=("$@"); [ ${#seeds[@]} -eq 0 ] && seeds=(1)
bad=0
for sd in "${seeds[@]}"; do
  for p in C01 C02 C03 C04 C05 C06 C07 C08 C09 C10 C11 C12 C13 C14 C15 C16 C17 C18 C19 C20; do
    t0=$(date +%s)
    extra=""; [ "$sd" != "1" ] && extra="--no-evidence"
    out=$(VERIF_SEED=$sd ./check $p $tier $extra 2>&1); rc=$?
    t1=$(date +%s)
    echo "seed=$sd $p rc=$rc $((t1-t0))s $(echo "$out" | grep -E "^$p $tier" | cut -c1-160)"
    if [ $rc -ne 0 ]; then bad=1; echo "$out" | grep -E "VIOLATION|HARNESS|label=" | head -5; fi
  done
done
exit $bad
