#!/usr/bin/env python3
"""Regenerates DESIGN.md section 9.2 (mutants) from mutants/RESULTS.md."""
import os, collections
HERE = os.path.dirname(os.path.dirname(os.path.abspath(__file__)))
def main():
    p = os.path.join(HERE, 'DESIGN.md'); s = open(p).read()
    if "\n### 9.2" in s:
        i = s.index("\n### 9.2"); j = s.find("\n## 10.", i)
        s = s[:i] + (s[j:] if j >= 0 else "")
    rows = collections.OrderedDict()
    for l in open(os.path.join(HERE, 'mutants', 'RESULTS.md')):
        if l.startswith('| C'):
            c = [x.strip() for x in l.strip('|\n').split('|')]
            rows.setdefault(c[0], []).append((c[1], c[2], c[3]))
    out = ["\n### 9.2 Mutants written for the checks (mutants/<Cxx>/, results in mutants/RESULTS.md)\n",
           "Each patch is one realistic slip from the **S** lists of section 3 or a reversed `fix:` commit; `mutants/selftest.sh` runs the owning quick check against a scratch copy with the patch applied.\n",
           "| property | mutants | caught by quick | examples (mutant → label) |", "|---|---|---|---|"]
    tot = caught = 0
    for prop in sorted(rows):
        ms = rows[prop]; k = sum(1 for _, v, _ in ms if v == 'CAUGHT'); tot += len(ms); caught += k
        ex = '; '.join(f"{n.replace('.patch','').replace('.datamut.py','')} → {lab.split(' ')[0].replace('label=','')}" for n, v, lab in ms[:3] if v == 'CAUGHT')
        bad = [f"{n}: {v}" for n, v, _ in ms if v != 'CAUGHT']
        out.append(f"| {prop} | {len(ms)} | {k}" + (f" (**{'; '.join(bad)}**)" if bad else "") + f" | {ex} |")
    out.append(f"\nTotal: {caught} of {tot} caught by the quick tier. Equivalent mutants found while writing them were removed and are named in section 8.4 (Fejér weight reversal, Simpson last-interval slice, ceil/floor swap in the periodic translation range, `>`→`>=` at a sector boundary, `.copy()` dropped behind the copying AngularGrid).\n")
    open(p, 'w').write(s.rstrip('\n') + '\n' + '\n'.join(out))
if __name__ == '__main__':
    main()
