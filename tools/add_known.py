#!/usr/bin/env python3
"""Append one entry to known_findings.json under a file lock (development-time tool; checks never call it).
usage: tools/add_known.py <id> <property> <known|fixed> "<what fails>" "<failing input / call site>" "<matcher: where the narrow predicate lives>" [commit]
"""
import fcntl, json, os, sys
HERE = os.path.dirname(os.path.dirname(os.path.abspath(__file__)))
path = os.path.join(HERE, "known_findings.json")
fid, prop, status, what, failing, matcher = sys.argv[1:7]
commit = sys.argv[7] if len(sys.argv) > 7 else None
with open(path, "r+") as fh:
    fcntl.flock(fh, fcntl.LOCK_EX)
    data = json.load(fh)
    data["findings"] = [f for f in data["findings"] if f["id"] != fid]
    ent = {"id": fid, "property": prop, "status": status, "what": what, "failing_input": failing, "matcher": matcher}
    if commit:
        ent["commit"] = commit
        ent["line"] = f"fixed: property={prop} {commit} {what}"
    data["findings"].append(ent)
    fh.seek(0); fh.truncate(); json.dump(data, fh, indent=1)
print("ok", fid)
