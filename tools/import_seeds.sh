#!/bin/bash
# usage: tools/import_seeds.sh Cxx [Cyy ...] : copies /tmp/seed_Cxx/out/<name>/{patch.diff,demo.py,meta.json} to seeded/Cxx_<name>/
cd "$(dirname "$0")/.." || exit 2
for p in "$@"; do
  for d in /tmp/seed_$p/out/*/ /tmp/seed2_$p/out/*/ /tmp/seed3_$p/out/*/ /tmp/seed4_$p/out/*/ /tmp/seed5_$p/out/*/ /tmp/seed6_$p/out/*/ /tmp/seed7_$p/out/*/; do
    [ -f "$d/patch.diff" ] && [ -f "$d/demo.py" ] || continue
    n=$(basename "$d"); mkdir -p "seeded/${p}_$n"; cp "$d/patch.diff" "$d/demo.py" "seeded/${p}_$n/"; [ -f "$d/meta.json" ] && cp "$d/meta.json" "seeded/${p}_$n/"
    echo "imported seeded/${p}_$n"
  done
done
