"""C18 - multi-domain integration equals the iterated product quadrature.

Oracle: an explicit odometer over index tuples (one node per domain, last domain fastest - the order in which the
documentation of MultiDomainGrid.points/.weights forms "each combination"), the product of the weights from plain
indexing, and the integrand called on the individual rows; sums with math.fsum.  No itertools, no generator chunking.
For separable integrands additionally the product of the single-grid sums.

Integrand calling convention (ngrid.py and its tests): non_vectorized=True -> f(p_1, ..., p_k) with p_i one row of
grid i (.points[j]: a scalar for 1-D point arrays, a (d,) array otherwise), returning a float; non_vectorized=False ->
f(p_1, ..., p_{k-1}, P_k) with P_k the whole point array of the last grid, returning an (N_k,) array (k = 1: f(P_1)).
"""
import math

import numpy as np
from hypothesis import strategies as st

from ..core import EPS, SubCheck

PROPERTY = "C18"
RULE = (
    "Hypothesis cases: 1..4 domains (list mode; a later entry may be the very same Grid object as an earlier one) or one "
    "grid with num_domains 1..4 (repeat mode), each grid with 1..7 points (total <= 2401) whose point array is (N,), (N,1), "
    "(N,2) or (N,3) (Grid, or OneDGrid for (N,)), points/weights from a drawn seed (weights signed); integrand drawn from a "
    "separable family prod_i (p_i + q_i s_i + t_i s_i^2) or a non-separable family sin(sum a_i s_i) + (sum b_i s_i)^2 + "
    "c prod_i s_i with s_i a fixed linear form of the coordinates of argument i (coefficients are part of the case); the "
    "library is called vectorised, non-vectorised with the default chunk size and non-vectorised with 2..6 chunk sizes from "
    "{1,2,3,total-1,total,total+1} and uniform 1..total+1. Non-trivial: >= 2 domains, total >= 4, not all grids of size 1 "
    "and at least one tested chunk size in 2..total-1 that does not divide total or equal to 1. distinct = distinct descriptor."
)
ASSUMPTIONS = [
    "'same order' = the order documented for .points/.weights: all combinations of one node per domain, first domain slowest, last fastest",
    "a vectorised integrand receives single rows for the first k-1 arguments and the full point array of the last grid (as in ngrid.py's tests)",
    "summation error model: |I - ref| <= 20 eps (total + 20) sum |w F| (chunked sequential accumulation of pairwise chunk sums)",
]

_LIN = np.array([1.0, -0.5, 0.25])
_WORST = {}


# ---------------------------------------------------------------------------
def _build_grids(case):
    from grid.basegrid import Grid, OneDGrid

    grids = []
    for dom in case["doms"]:
        if "ref" in dom and grids:
            grids.append(grids[int(dom["ref"]) % len(grids)])
            continue
        n, pd = int(dom["n"]), int(dom["pd"])
        rng = np.random.default_rng(int(dom["seed"]))
        pts = rng.uniform(-1.5, 1.5, size=(n,) if pd == 0 else (n, pd))
        w = rng.normal(size=n)
        w = np.where(np.abs(w) < 0.05, 0.5, w)
        if pd == 0 and dom.get("cls") == "OneDGrid":
            pts = np.sort(pts)
            grids.append(OneDGrid(pts, w, (-2.0, 2.0)))
        else:
            grids.append(Grid(pts, w))
    return grids


def _make_s(pd):
    """Fixed linear form of the coordinates; works for a scalar, a (d,) row, an (N,) array of 1-D points, an (N,d) array."""
    if pd == 0:
        return lambda x: np.asarray(x, dtype=float)
    c = _LIN[:pd]
    return lambda x: np.asarray(x, dtype=float) @ c


def _make_integrand(case, pds):
    k = len(pds)
    ss = [_make_s(pd) for pd in pds]
    f = case["f"]
    co = f["coef"]

    if f["kind"] == "separable":

        def g(i, x):
            s = ss[i](x)
            p, q, t = co[i % len(co)]
            return p + q * s + t * s * s

        def fun(*args):
            if len(args) != k:
                raise TypeError(f"integrand called with {len(args)} arguments, expected {k}")
            out = 1.0
            for i, x in enumerate(args):
                out = out * g(i, x)
            return out

        return fun, g

    def fun(*args):
        if len(args) != k:
            raise TypeError(f"integrand called with {len(args)} arguments, expected {k}")
        sa = 0.0
        sb = 0.0
        pr = 1.0
        for i, x in enumerate(args):
            s = ss[i](x)
            a, b, _ = co[i % len(co)]
            sa = sa + a * s
            sb = sb + b * s
            pr = pr * s
        return np.sin(sa) + sb * sb + f["c"] * pr

    return fun, None


def _odometer(sizes):
    """All index tuples, first index slowest / last fastest, by an explicit carry loop."""
    k = len(sizes)
    idx = [0] * k
    out = []
    while True:
        out.append(tuple(idx))
        j = k - 1
        while j >= 0:
            idx[j] += 1
            if idx[j] < sizes[j]:
                break
            idx[j] = 0
            j -= 1
        if j < 0:
            return out


def body_integrate(case, ctx):
    from grid.ngrid import MultiDomainGrid

    base = _build_grids(case)
    if case["mode"] == "repeat":
        k = int(case["repeat"])
        mg = MultiDomainGrid([base[0]], num_domains=k)
        doms = [base[0]] * k
        base_pds = [int(case["doms"][0]["pd"])] * k
    else:
        mg = MultiDomainGrid(list(base))
        doms = list(base)
        k = len(doms)
        base_pds = [0 if g.points.ndim == 1 else g.points.shape[1] for g in doms]
    sizes = [int(g.size) for g in doms]
    total = 1
    for s in sizes:
        total *= s
    fun, g1 = _make_integrand(case, base_pds)
    ctx.cls(f"mode:{case['mode']}", f"domains:{k}", f"integrand:{case['f']['kind']}")
    ctx.cls("pointdims:" + ("mixed" if len(set(base_pds)) > 1 else "uniform"))
    if case["mode"] == "list" and any("ref" in d for d in case["doms"][1:]):
        ctx.cls("same-object-twice")
    chunks = sorted({max(1, min(int(c), total + 1)) for c in case["chunks"]})
    hard_chunk = any((c == 1 and total > 1) or (2 <= c < total and total % c != 0) for c in chunks)
    ctx.nt(k >= 2 and total >= 4 and max(sizes) > 1 and hard_chunk)
    for c in chunks:
        ctx.cls("chunk:1" if c == 1 else "chunk:>=total" if c >= total else "chunk:divides" if total % c == 0 else "chunk:ragged")

    # ---- reference: nested loops over index tuples
    tuples = _odometer(sizes)
    terms = []
    wref = []
    for t in tuples:
        w = 1.0
        for i, j in enumerate(t):
            w *= float(doms[i].weights[j])
        wref.append(w)
        terms.append(w * float(fun(*[doms[i].points[j] for i, j in enumerate(t)])))
    ref = math.fsum(terms)
    scale = math.fsum(abs(x) for x in terms)
    tol = 20.0 * EPS * (total + 20) * scale + 1e-300

    # ---- size / num_domains / points / weights
    ctx.check(int(mg.num_domains) == k, "num_domains", f"num_domains={mg.num_domains}, expected {k}")
    ctx.check(int(mg.size) == total, "size", f"size={mg.size}, expected {total} for sizes {sizes}")
    pts_list = list(mg.points)
    w_list = [float(x) for x in mg.weights]
    if len(pts_list) != total:
        ctx.fail("points-count", f"{len(pts_list)} combined points, expected {total} for sizes {sizes}")
    else:
        for t, combo in zip(tuples, pts_list):
            if len(combo) != k or not all(np.array_equal(np.asarray(combo[i]), np.asarray(doms[i].points[j])) for i, j in enumerate(t)):
                ctx.fail("points-order", f"combined point for index tuple {t} is {[np.asarray(c).tolist() for c in combo]} (sizes {sizes})")
                break
    if len(w_list) != total:
        ctx.fail("weights-count", f"{len(w_list)} combined weights, expected {total} for sizes {sizes}")
    else:
        wr = np.array(wref)
        ctx.close(np.array(w_list), wr, 8 * EPS * np.abs(wr), "weights-order", f"combined weights vs product of weights per index tuple (sizes {sizes})")

    # ---- the three routes
    def compare(val, label, what):
        try:
            v = float(val)
        except (TypeError, ValueError):
            ctx.fail(label + ":type", f"{what}: result {val!r} is not a number")
            return
        r = abs(v - ref) / tol
        _WORST[label] = max(_WORST.get(label, 0.0), r)
        if not r <= 1.0:
            ctx.fail(label, f"{what}: got {v!r}, nested-loop product quadrature {ref!r} (|diff|={abs(v - ref):.3e}, tol {tol:.3e}); sizes {sizes}")

    compare(mg.integrate(fun), "vectorised", "integrate(f)")
    compare(mg.integrate(fun, non_vectorized=True), "non-vectorised-default-chunk", "integrate(f, non_vectorized=True)")
    for c in chunks:
        compare(mg.integrate(fun, non_vectorized=True, integration_chunk_size=c), "non-vectorised-chunked", f"integrate(f, non_vectorized=True, integration_chunk_size={c}) total={total}")
    compare(mg.integrate(fun, integration_chunk_size=chunks[0]), "vectorised", f"integrate(f, integration_chunk_size={chunks[0]})")

    # ---- point-by-point route with a guarded integrand (the Coulomb-kernel idiom `if coincident: return 0`): a Python int
    # wherever the last argument is the first node of the last grid, i.e. at the first combination and at every stride
    # start, floats elsewhere.  Same nested-loop reference built from the same guarded function.
    first_last = np.array(doms[-1].points[0], dtype=float, copy=True)

    def fun_guarded(*args):
        if np.array_equal(np.asarray(args[-1], dtype=float), first_last):
            return 3
        return fun(*args)

    gterms = [w * float(fun_guarded(*[doms[i].points[j] for i, j in enumerate(t)])) for t, w in zip(tuples, wref)]
    ref_plain, tol_plain = ref, tol
    ref = math.fsum(gterms)
    tol = 20.0 * EPS * (total + 20) * math.fsum(abs(x) for x in gterms) + 1e-300
    compare(mg.integrate(fun_guarded, non_vectorized=True), "non-vectorised-int-guard", "integrate(guarded f returning a Python int at some nodes, non_vectorized=True)")
    for c in chunks:
        compare(mg.integrate(fun_guarded, non_vectorized=True, integration_chunk_size=c), "non-vectorised-int-guard", f"integrate(guarded f returning a Python int at some nodes, non_vectorized=True, integration_chunk_size={c}) total={total}")
    ref, tol = ref_plain, tol_plain

    # ---- separable integrands: product of the single-grid integrals
    if g1 is not None:
        prod, pscale = 1.0, 1.0
        for i, g in enumerate(doms):
            vals = [float(g.weights[j]) * float(g1(i, g.points[j])) for j in range(sizes[i])]
            prod *= math.fsum(vals)
            pscale *= math.fsum(abs(v) for v in vals)
        tol2 = 20.0 * EPS * (total + 20) * pscale + 1e-300
        v = float(mg.integrate(fun))
        if not abs(v - prod) <= tol2:
            ctx.fail("separable-product", f"integrate(f)={v!r}, product of single-grid integrals {prod!r} (tol {tol2:.3e}); sizes {sizes}")
        if not abs(ref - prod) <= tol2:
            raise AssertionError("oracle self-inconsistency: nested loops vs product of 1-D sums")


    # ---- the same MultiDomainGrid after the weights of its first domain grid were reassigned (x1.5 through the setter):
    # the integral follows the current grids by the corresponding factor on every route (nothing remembered from before)
    count = sum(1 for g in doms if g is doms[0])
    fac = 1.5**count
    doms[0].weights = np.asarray(doms[0].weights, dtype=float) * 1.5
    for label, kw in (("vectorised", {}), ("non-vectorised-default-chunk", {"non_vectorized": True})):
        try:
            v = float(mg.integrate(fun, **kw))
        except (TypeError, ValueError):
            ctx.fail(label + ":type", "result after a weights reassignment is not a number")
            continue
        if not abs(v - fac * ref) <= fac * tol:
            ctx.fail(label + "-after-weights-reassignment", f"integrate after domain-0 weights were scaled by 1.5: got {v!r}, expected {fac * ref!r} (tol {fac * tol:.3e}); sizes {sizes}")


# ---------------------------------------------------------------------------
def _strategy():
    coef = st.tuples(
        st.sampled_from([1.0, 0.5, -1.0, 2.0, 0.0]), st.floats(-2.0, 2.0), st.floats(-1.0, 1.0)
    ).map(list)

    def dom(i):
        fresh = st.fixed_dictionaries(
            {
                "n": st.integers(1, 7),
                "pd": st.sampled_from([0, 0, 1, 2, 3, 3]),
                "seed": st.integers(0, 2**31 - 1),
                "cls": st.sampled_from(["Grid", "Grid", "OneDGrid"]),
            }
        )
        if i == 0:
            return fresh
        return st.one_of(fresh, fresh, fresh, st.integers(0, 3).map(lambda r: {"ref": r, "n": 0, "pd": 0, "seed": 0}))

    def with_chunks(c):
        grids_sizes = []
        for d in c["doms"]:
            if "ref" in d and grids_sizes:
                grids_sizes.append(grids_sizes[d["ref"] % len(grids_sizes)])
            else:
                grids_sizes.append(d["n"])
        if c["mode"] == "repeat":
            total = grids_sizes[0] ** c["repeat"]
        else:
            total = int(np.prod(grids_sizes))
        pool = st.one_of(st.sampled_from(sorted({1, 2, 3, max(1, total - 1), total, total + 1})), st.integers(1, total + 1))
        return st.lists(pool, min_size=2, max_size=6).map(lambda ch: {**c, "chunks": ch})

    fdesc = st.fixed_dictionaries(
        {
            "kind": st.sampled_from(["separable", "nonsep", "nonsep"]),
            "coef": st.lists(coef, min_size=4, max_size=4),
            "c": st.floats(-1.0, 1.0),
        }
    )
    list_mode = st.integers(1, 4).flatmap(
        lambda k: st.fixed_dictionaries(
            {"mode": st.just("list"), "doms": st.tuples(*[dom(i) for i in range(k)]).map(list), "repeat": st.just(0), "f": fdesc}
        )
    )
    rep_mode = st.fixed_dictionaries({"mode": st.just("repeat"), "doms": st.tuples(dom(0)).map(list), "repeat": st.integers(1, 4), "f": fdesc})
    return st.one_of(list_mode, list_mode, rep_mode).flatmap(with_chunks)


def _pinned():
    f_sep = {"kind": "separable", "coef": [[1.0, 0.5, 0.25], [0.5, -1.0, 0.3], [2.0, 0.7, -0.2], [1.0, 1.0, 1.0]], "c": 0.0}
    f_non = {"kind": "nonsep", "coef": [[1.0, 0.5, 0.0], [0.5, -1.0, 0.0], [2.0, 0.7, 0.0], [-1.0, 1.0, 0.0]], "c": 0.7}
    d = lambda n, pd, seed, cls="Grid": {"n": n, "pd": pd, "seed": seed, "cls": cls}  # noqa: E731
    return [
        {"mode": "list", "doms": [d(3, 0, 1, "OneDGrid"), d(4, 3, 2), d(5, 0, 3)], "repeat": 0, "f": f_non, "chunks": [1, 2, 7, 59, 60, 61]},
        {"mode": "list", "doms": [d(3, 0, 1), d(4, 3, 2), d(5, 2, 3)], "repeat": 0, "f": f_sep, "chunks": [1, 7, 11, 60]},
        {"mode": "repeat", "doms": [d(3, 0, 4)], "repeat": 3, "f": f_non, "chunks": [1, 2, 4, 5, 26, 27, 28]},
        {"mode": "repeat", "doms": [d(5, 3, 5)], "repeat": 2, "f": f_sep, "chunks": [1, 2, 3, 4, 24, 25, 26]},
        {"mode": "repeat", "doms": [d(6, 1, 6)], "repeat": 1, "f": f_non, "chunks": [1, 4, 6, 7]},
        {"mode": "list", "doms": [d(7, 2, 7)], "repeat": 0, "f": f_sep, "chunks": [1, 3, 7, 8]},
        {"mode": "list", "doms": [d(2, 3, 8), {"ref": 0, "n": 0, "pd": 0, "seed": 0}, d(3, 0, 9), d(2, 1, 10)], "repeat": 0, "f": f_non, "chunks": [1, 5, 23, 24, 25]},
        {"mode": "list", "doms": [d(1, 0, 11), d(1, 3, 12)], "repeat": 0, "f": f_non, "chunks": [1, 2]},
    ]


def selftest():
    assert _odometer([2, 3]) == [(0, 0), (0, 1), (0, 2), (1, 0), (1, 1), (1, 2)]
    assert _odometer([1]) == [(0,)] and len(_odometer([3, 1, 4, 2])) == 24
    # the integrand families evaluate identically row-wise and array-wise
    case = _pinned()[0]
    fun, _ = _make_integrand(case, [0, 3, 0])
    rng = np.random.default_rng(0)
    p3 = rng.normal(size=(4, 3))
    xs = rng.normal(size=5)
    vec = fun(0.3, p3[1], xs)
    for j in range(5):
        assert abs(vec[j] - fun(0.3, p3[1], xs[j])) < 1e-14


def subchecks(tier, seed):
    q = tier == "quick"
    return [SubCheck("integrate", body_integrate, strategy=_strategy(), examples=10000 if q else 300000, cases=_pinned(), shards=16 if q else 64)]
