"""C01 - every 1D quadrature rule is exact on its polynomial class, for every size.

Oracles (none shares code with grid/onedgrid.py):
  * exactness in orthogonal bases (SciPy eval_* three-term recurrences): int P_k = 2 d_k0 for the
    interpolatory rules on [-1,1]; weight-function x T_k / U_k / generalised Laguerre identities for the
    weight-divided Gauss rules; every k up to the nominal degree, plus one random combination;
  * closed-form rules: node map x(t) retyped from the class docstring in mpmath (40 digits), weights =
    step x mp.diff(x)(t_k); Trefethen maps: g from the arcsin Taylor series / the Hale-Trefethen strip map
    normalised by g(1)=1, weights = base weight x mp.diff(g);
  * shape: exactly n nodes, ascending, inside the declared domain.
"""
import math

import numpy as np
from hypothesis import strategies as st

from ..core import SubCheck

PROPERTY = "C01"
RULE = (
    "all-sizes-default-parameters: complete enumeration of (rule class, n) with default parameters for n = 2..40 (quick) / "
    "2..257 (thorough, exhaustive up to the class caps). rules: Hypothesis draws (rule class out of all 26 in onedgrid.py, n from the class's admissible set mixing 2..12 / 13..64 / "
    "65..257 and both parities, extra parameters alpha, delta, h, d, rho, inner quadrature); inadmissible (n, parameter) "
    "values form a separate class that must raise ValueError/TypeError. Inside a case EVERY basis degree k up to the nominal "
    "one is integrated. non-trivial = n odd, or n >= 20, or a non-default extra parameter; distinct = distinct (class, n, params)"
)
RULE = RULE + " " + 'Every case also destroys the arrays of the grid it was handed and constructs the same rule again (must be identical).'

ASSUMPTIONS = [
    "SciPy eval_legendre/eval_chebyt/eval_chebyu/eval_genlaguerre and mpmath are the trusted reference implementations",
    "double-exponential rules are generated inside their float64 envelope (pi/2*sinh(m h) < 690 for exp-sinh/log-exp-sinh; the "
    "documented formula has no finite double value outside it); Gauss-Legendre n <= 100 (documented accuracy limit), "
    "Gauss-Laguerre n <= 150 (SciPy returns non-finite weights from n~181)",
    "comparison tolerance: |sum - ref| <= 1e-11 * (sum|w f| + ||w omega||_1 + |ref|) with basis polynomials of O(1) magnitude; healthy rules measured <= 3e-13",
]

import os as _os

TOL = float(_os.environ.get("C01_CALIBRATION_TOL", "1e-11"))  # the env override exists for calibration runs only

INTERP = {  # rule -> nominal degree as a function of n
    "GaussLegendre": lambda n: 2 * n - 1,
    "ClenshawCurtis": lambda n: n - 1,
    "FejerFirst": lambda n: n - 1,
    "FejerSecond": lambda n: n - 1,
    "Simpson": lambda n: 3,
    "Trapezoidal": lambda n: 1,
    "MidPoint": lambda n: 1,
}
ODD_ONLY = {"TanhSinh", "Simpson", "ExpSinh", "LogExpSinh", "ExpExp", "SingleTanh", "SingleExp", "SingleArcSinhExp"}
DE_RULES = ["TanhSinh", "ExpSinh", "LogExpSinh", "ExpExp", "SingleTanh", "SingleExp", "SingleArcSinhExp"]
INNER = ["ClenshawCurtis", "GaussChebyshevType2", "GaussLegendre", "FejerFirst", "Trapezoidal", "MidPoint", "GaussChebyshev"]
DEFAULTS = {"alpha": 0, "delta": 0.1, "d": 9, "rho": 1.1}
DEFAULT_H = {"ExpSinh": 1.0}


# ---------------------------------------------------------------------------
# strategies
# ---------------------------------------------------------------------------
def _n(lo=2, hi=257):
    parts = [st.integers(lo, min(12, hi))]
    if hi > 12:
        parts.append(st.integers(13, min(64, hi)))
    if hi > 64:
        parts.append(st.integers(65, hi))
    return st.one_of(*parts)


def _odd(lo=3, hi=257):
    return _n((lo - 1) // 2, (hi - 1) // 2).map(lambda m: 2 * m + 1)


def _h_for(rule):
    """(n, h) inside the float64 envelope of the rule (see ASSUMPTIONS)."""

    def build(n):
        m = (n - 1) // 2
        if rule in ("ExpSinh", "LogExpSinh"):
            hmax = min(1.0, math.asinh(690.0 * 2 / math.pi) / max(m, 1))
        elif rule == "SingleArcSinhExp":
            hmax = min(1.0, 340.0 / max(m, 1))
        else:
            hmax = 1.0
        hs = st.one_of(st.floats(0.01, hmax), st.sampled_from([min(0.1, hmax), min(1.0, hmax), hmax]))
        return hs.map(lambda h: {"rule": rule, "n": n, "h": h})

    return _odd(3, 257).flatmap(build)


def _case_strategy():
    s = []
    for r in ["ClenshawCurtis", "FejerFirst", "FejerSecond", "Trapezoidal", "MidPoint", "GaussChebyshev", "GaussChebyshevLobatto",
              "UniformInteger"]:
        s.append(_n().map(lambda n, r=r: {"rule": r, "n": n}))
    s.append(_n(2, 129).map(lambda n: {"rule": "RectangleRuleSineEndPoints", "n": n}))
    s.append(_n(2, 100).map(lambda n: {"rule": "GaussLegendre", "n": n}))
    s.append(_n(1, 257).map(lambda n: {"rule": "GaussChebyshevType2", "n": n}))
    s.append(_odd().map(lambda n: {"rule": "Simpson", "n": n}))
    s.append(st.builds(lambda n, a: {"rule": "GaussLaguerre", "n": n, "alpha": a}, _n(2, 150),
                       st.one_of(st.floats(-0.99, 10.0), st.sampled_from([0, -0.5, 0.5, 1, 2, 10, -0.99]))))
    s.append(st.builds(lambda n, d: {"rule": "TanhSinh", "n": n, "delta": d}, _odd(),
                       st.one_of(st.floats(0.01, 1.0), st.sampled_from([0.1, 0.05, 1.0]))))
    for r in DE_RULES[1:]:
        s.append(_h_for(r))
    for r in ["TrefethenCC", "TrefethenGC2"]:
        s.append(st.builds(lambda n, d, r=r: {"rule": r, "n": n, "d": d}, _n(2, 129), st.sampled_from([1, 5, 9])))
    s.append(st.builds(lambda n, d, q: {"rule": "TrefethenGeneral", "n": n, "d": d, "quadrature": q}, _n(2, 100),
                       st.sampled_from([1, 5, 9]), st.sampled_from(INNER)))
    rho = st.one_of(st.floats(1.02, 3.0), st.sampled_from([1.1, 1.4, 2.0]))
    for r in ["TrefethenStripCC", "TrefethenStripGC2"]:
        s.append(st.builds(lambda n, rh, r=r: {"rule": r, "n": n, "rho": rh}, _n(2, 65), rho))
    s.append(st.builds(lambda n, rh, q: {"rule": "TrefethenStripGeneral", "n": n, "rho": rh, "quadrature": q}, _n(2, 65), rho,
                       st.sampled_from(INNER)))
    return st.one_of(*s).flatmap(lambda c: st.integers(0, 2**31 - 1).map(lambda sd: dict(c, dseed=sd)))


def _invalid_strategy():
    all_rules = list(INTERP) + ["GaussChebyshev", "GaussChebyshevType2", "GaussChebyshevLobatto", "UniformInteger", "GaussLaguerre",
                                "RectangleRuleSineEndPoints", "TrefethenCC", "TrefethenGC2", "TrefethenStripCC", "TrefethenStripGC2"] + DE_RULES
    bad_n = st.builds(lambda r, n: {"rule": r, "n": n, "why": "n<=0"}, st.sampled_from(all_rules), st.sampled_from([0, -1, -7]))
    bad_n1 = st.builds(lambda r: {"rule": r, "n": 1, "why": "n=1"}, st.sampled_from(
        ["GaussLegendre", "ClenshawCurtis", "FejerFirst", "FejerSecond", "Simpson", "Trapezoidal", "MidPoint", "GaussChebyshev",
         "GaussChebyshevLobatto", "UniformInteger", "GaussLaguerre", "RectangleRuleSineEndPoints", "TanhSinh", "TrefethenCC",
         "TrefethenStripCC"]))
    even = st.builds(lambda r, m: {"rule": r, "n": 2 * m, "why": "even n"}, st.sampled_from(sorted(ODD_ONLY)), st.integers(1, 60))
    alpha = st.builds(lambda n, a: {"rule": "GaussLaguerre", "n": n, "alpha": a, "why": "alpha<=-1"}, st.integers(2, 30),
                      st.one_of(st.floats(-50, -1.0), st.just(-1)))
    hneg = st.builds(lambda r, m, h: {"rule": r, "n": 2 * m + 1, "h": h, "why": "h<=0"}, st.sampled_from(DE_RULES[1:]), st.integers(1, 20),
                     st.one_of(st.floats(-5, 0.0), st.just(0)))
    dbad = st.builds(lambda r, n, d: {"rule": r, "n": n, "d": d, "why": "d not in 1,5,9"}, st.sampled_from(["TrefethenCC", "TrefethenGC2"]),
                     st.integers(2, 30), st.sampled_from([0, 2, 3, 7, 11]))
    return st.one_of(bad_n, bad_n1, even, alpha, hneg, dbad)


# ---------------------------------------------------------------------------
# construction
# ---------------------------------------------------------------------------
def _build(case):
    import grid.onedgrid as og

    cls = getattr(og, case["rule"])
    n = case["n"]
    args = []
    if "quadrature" in case:
        args.append(getattr(og, case["quadrature"]))
    for key in ("alpha", "delta", "h", "d", "rho"):
        if key in case:
            args.append(case[key])
    return cls(n, *args)


def _scaled_ok(ctx, w, basis, ref, label, what):
    """basis: (K, n) values p_k(x_i) of polynomials of O(1) magnitude (sup norm or weighted rms equal to 1);
    w: the rule's weights times the weight function at the nodes; ref: (K,) exact integrals.
    Condition-scaled comparison for every k: scale = sum|w p_k| + ||w||_1 + |ref|.  The ||w||_1 floor does not
    depend on the node values, so the scale cannot collapse when p_k vanishes at every node (P_n at the Gauss nodes)."""
    terms = basis * w[None, :]
    v = terms.sum(axis=1)
    scale = np.abs(terms).sum(axis=1) + np.abs(w).sum() + np.abs(ref)
    with np.errstate(invalid="ignore"):
        ratio = np.abs(v - ref) / scale
    bad = ~(ratio <= TOL)
    if np.any(bad):
        k = int(np.argmax(np.where(np.isnan(ratio), np.inf, ratio)))
        return False, (f"{what}: basis degree k={k} (first failing k={int(np.argmax(bad))}, {int(bad.sum())} failing of {len(ref)}) "
                       f"sum={v[k]!r} exact={ref[k]!r} condition-scaled error {ratio[k]:.3e} > {TOL:g}")
    return True, float(np.max(ratio)) if len(ratio) else 0.0


def _legendre_basis(kmax, x):
    from scipy.special import eval_legendre

    k = np.arange(kmax + 1)
    return eval_legendre(k[:, None], x[None, :]), np.where(k == 0, 2.0, 0.0)


# ---------------------------------------------------------------------------
# mpmath closed forms
# ---------------------------------------------------------------------------
def _mp():
    import mpmath as mp

    return mp


def _de_map(rule, mp):
    pi = mp.pi
    return {
        "TanhSinh": lambda t: mp.tanh(pi / 2 * mp.sinh(t)),
        "ExpSinh": lambda t: mp.exp(pi / 2 * mp.sinh(t)),
        "LogExpSinh": lambda t: mp.log(mp.exp(pi / 2 * mp.sinh(t)) + 1),
        "ExpExp": lambda t: mp.exp(t) * mp.exp(-mp.exp(-t)),
        "SingleTanh": lambda t: mp.tanh(t),
        "SingleExp": lambda t: mp.exp(t),
        "SingleArcSinhExp": lambda t: mp.asinh(mp.exp(t)),
    }[rule]


def _arcsin_taylor_g(d, mp):
    """g_d(x) = (truncated Taylor series of arcsin up to x^d) / (its value at 1)."""
    coef = []
    for j in range(0, (d - 1) // 2 + 1):  # term x^(2j+1): (2j)! / (4^j (j!)^2 (2j+1))
        coef.append(mp.factorial(2 * j) / (mp.mpf(4) ** j * mp.factorial(j) ** 2 * (2 * j + 1)))
    tot = sum(coef)
    return lambda x: sum(c * x ** (2 * j + 1) for j, c in enumerate(coef)) / tot


def _strip_g(rho, mp):
    """Hale & Trefethen strip map, normalised by g(1) = 1 (the constant is not retyped)."""
    tau = mp.pi / mp.log(rho)
    d = mp.mpf(1) / 2 + 1 / (mp.exp(tau * mp.pi) + 1)

    def raw(s):
        u = mp.asin(s)
        return mp.log(1 + mp.exp(-tau * (mp.pi / 2 + u))) - mp.log(1 + mp.exp(-tau * (mp.pi / 2 - u))) + d * tau * u

    c = raw(mp.mpf(1))
    return lambda s: raw(s) / c


def _check_shape(case, g, ctx):
    n = case["n"]
    p, w = np.asarray(g.points), np.asarray(g.weights)
    ok = ctx.check(p.shape == (n,) and w.shape == (n,) and g.size == n, "wrong-number-of-nodes", f"{case}: points {p.shape} weights {w.shape}")
    if not ok:
        return False
    fin = ctx.check(bool(np.all(np.isfinite(p)) and np.all(np.isfinite(w))), "non-finite-nodes-or-weights", f"{case}")
    ctx.check(bool(np.all(np.diff(p) >= 0)), "nodes-not-ascending", f"{case}: {int(np.sum(np.diff(p) < 0))} descents")
    lo, hi = g.domain
    slack = 4 * np.finfo(float).eps  # the end points themselves are admissible nodes; allow their rounding
    ctx.check(bool(np.all(p >= lo - slack * max(1.0, abs(lo))) and np.all(p <= (hi + slack * max(1.0, abs(hi)) if np.isfinite(hi) else hi))), "nodes-outside-domain", f"{case}: domain {g.domain}, min {p.min()}, max {p.max()}")
    rule = case["rule"]
    if rule in ("ExpSinh", "LogExpSinh", "ExpExp", "SingleExp", "SingleArcSinhExp", "GaussLaguerre", "UniformInteger"):
        want = (0.0, np.inf)
    else:
        want = (-1.0, 1.0)
    ctx.check(tuple(map(float, g.domain)) == want, "declared-domain", f"{case}: domain {g.domain}, expected {want}")
    return fin


def _strict_where_distinct(ctx, p, ref_nodes, case, abs_res=0.0):
    """strictly increasing wherever the exact nodes differ by more than 4 ulp (plus the absolute resolution of the formula)"""
    ref = np.array([float(v) for v in ref_nodes])
    gap = np.diff(ref)
    need = gap > 4 * np.spacing(np.maximum(np.abs(ref[1:]), np.abs(ref[:-1]))) + abs_res
    ctx.check(bool(np.all(np.diff(p)[need] > 0)), "nodes-not-strictly-ascending", f"{case}")


# ---------------------------------------------------------------------------
# body
# ---------------------------------------------------------------------------
def body(case, ctx):
    rule, n = case["rule"], case["n"]
    nondefault = any(k in case and case[k] != DEFAULTS.get(k) for k in ("alpha", "delta", "d", "rho")) or (
        "h" in case and case["h"] != DEFAULT_H.get(rule, 0.1)) or "quadrature" in case
    ctx.cls(rule, "n<=12" if n <= 12 else ("n<=64" if n <= 64 else "n>64"), "odd" if n % 2 else "even")
    ctx.nt(n % 2 == 1 or n >= 20 or nondefault)
    with np.errstate(all="ignore"):
        g = _build(case)
        if not _check_shape(case, g, ctx):
            return
        p, w = np.array(g.points, dtype=float), np.array(g.weights, dtype=float)
        rng = np.random.default_rng(case.get("dseed", 0))
        # the rule is a function of (class, n, parameters) only: destroy the arrays of the grid just handed out and
        # construct it again - nothing the caller did to the first object may show up in the second
        try:
            g.points[...] = 0.0
            g.weights[...] = -1.0
        except (ValueError, TypeError):
            pass
        g2 = _build(case)
        same = np.array_equal(np.asarray(g2.points, dtype=float), p, equal_nan=True) and np.array_equal(np.asarray(g2.weights, dtype=float), w, equal_nan=True)
        ctx.check(same, "second-construction-differs", f"{case}: constructing the same rule again after the first grid's arrays were edited gives different nodes/weights")
        g = g2

        if rule in INTERP or (rule in ("TrefethenCC",) and case.get("d") == 1):
            deg = INTERP["ClenshawCurtis" if rule == "TrefethenCC" else rule](n)
            _interp_exactness(case, ctx, g, p, w, deg, rng)
        if rule == "GaussChebyshev":
            _cheb1(case, ctx, p, w, rng)
        if rule == "GaussChebyshevType2" or (rule == "TrefethenGC2" and case.get("d") == 1):
            _cheb2(case, ctx, p, w, rng)
        if rule == "GaussLaguerre":
            _laguerre(case, ctx, p, w, rng)
        if rule in DE_RULES:
            _double_exponential(case, ctx, p, w)
        if rule == "GaussChebyshevLobatto":
            _lobatto(case, ctx, p, w)
        if rule == "RectangleRuleSineEndPoints":
            _sine_rectangle(case, ctx, p, w)
        if rule == "UniformInteger":
            ctx.equal(p, np.arange(n, dtype=float), "uniform-integer-nodes", str(case))
            ctx.equal(w, np.ones(n), "uniform-integer-weights", str(case))
        if rule in ("Trapezoidal", "Simpson", "MidPoint"):
            _newton_cotes_nodes(case, ctx, p, w)
        if rule.startswith("Trefethen"):
            _trefethen(case, ctx, p, w)


def _interp_exactness(case, ctx, g, p, w, deg, rng):
    rule, n = case["rule"], case["n"]
    basis, ref = _legendre_basis(deg, p)
    ok, info = _scaled_ok(ctx, w, basis, ref, "exactness", f"{rule}(n={n}) nominal degree {deg}")
    if not ok:
        if rule == "FejerSecond" and _fejer2_buggy_model(n, p, w):
            ctx.known("KF-C01-fejer2", "not-exact-to-nominal-degree", info)
        else:
            ctx.fail("not-exact-to-nominal-degree", info)
        return
    # one random combination, through OneDGrid.integrate
    c = rng.uniform(-1, 1, deg + 1)
    vals = c @ basis
    got = g.integrate(vals)
    scale = np.abs(w) @ np.abs(vals) + np.abs(w).sum() * np.sqrt(np.sum(c**2)) + abs(2 * c[0])
    ctx.check(abs(got - 2 * c[0]) <= TOL * scale, "integrate-random-polynomial", f"{rule}(n={n}): {got!r} vs {2 * c[0]!r}")


def _fejer2_buggy_model(n, p, w):
    """The present FejerSecond: the docstring series truncated one term early (j = 1 .. floor((n+1)/2) - 1)."""
    theta = np.pi * (np.arange(n) + 1) / (n + 1)
    nsum = (n + 1) // 2
    acc = np.zeros(n)
    for j in range(1, nsum):  # one term short of floor((n+1)/2)
        acc += np.sin((2 * j - 1) * theta) / (2 * j - 1)
    model = (4 * np.sin(theta) * acc / (n + 1))[::-1]
    full = acc + np.sin((2 * nsum - 1) * theta) / (2 * nsum - 1)
    right = (4 * np.sin(theta) * full / (n + 1))[::-1]
    scale = max(1e-300, np.max(np.abs(right)))
    return bool(np.max(np.abs(w - model)) <= 1e-13 * scale and np.allclose(p, np.cos(theta)[::-1], rtol=0, atol=1e-14))


def _cheb1(case, ctx, p, w, rng):
    from scipy.special import eval_chebyt

    n = case["n"]
    k = np.arange(2 * n)
    basis = eval_chebyt(k[:, None], p[None, :])
    ref = np.where(k == 0, np.pi, 0.0)
    ok, info = _scaled_ok(ctx, w / np.sqrt(1 - p**2), basis, ref, "x", f"GaussChebyshev(n={n}) weight-function x T_k, k<=2n-1")
    if not ok:
        ctx.fail("chebyshev1-not-exact", info)
    # documented nodes cos((2i-1)pi/2n), ascending
    refp = np.sort(np.cos((2 * np.arange(1, n + 1) - 1) * np.pi / (2 * n)))
    ctx.close(p, refp, 4e-16 * 4, "chebyshev1-nodes", f"GaussChebyshev(n={n})")


def _cheb2(case, ctx, p, w, rng):
    from scipy.special import eval_chebyu

    n = case["n"]
    k = np.arange(2 * n)
    basis = eval_chebyu(k[:, None], p[None, :])
    ref = np.where(k == 0, np.pi / 2, 0.0)
    ok, info = _scaled_ok(ctx, w * np.sqrt(1 - p**2), basis, ref, "x", f"{case['rule']}(n={n}) weight-function x U_k, k<=2n-1")
    if not ok:
        ctx.fail("chebyshev2-not-exact", info)
    refp = np.sort(np.cos(np.arange(1, n + 1) * np.pi / (n + 1)))
    ctx.close(p, refp, 1e-14, "chebyshev2-nodes", f"{case['rule']}(n={n})")


def _laguerre(case, ctx, p, w, rng):
    from scipy.special import eval_genlaguerre, gammaln

    n, alpha = case["n"], float(case["alpha"])
    k = np.arange(2 * n)
    # orthonormalised basis: L_k^alpha / sqrt(Gamma(k+alpha+1)/k!) so the scale is not inflated by the growth of L_k
    lognorm = 0.5 * (gammaln(k + alpha + 1) - gammaln(k + 1))
    L = eval_genlaguerre(k[:, None], alpha, p[None, :]) * np.exp(-lognorm)[:, None]
    wf = np.exp(alpha * np.log(p) - p)  # x^alpha e^-x
    basis = L
    g0 = math.exp(0.5 * math.lgamma(alpha + 1))  # int x^a e^-x Lbar_0 = Gamma(a+1)/sqrt(Gamma(a+1))
    ref = np.where(k == 0, g0, 0.0)
    if not np.all(np.isfinite(basis)):
        ctx.skip("laguerre basis overflows float64")
        return
    ok, info = _scaled_ok(ctx, w * wf, basis, ref, "x", f"GaussLaguerre(n={n}, alpha={alpha}) x^a e^-x L_k, k<=2n-1")
    if not ok:
        ctx.fail("laguerre-not-exact", info)


def _double_exponential(case, ctx, p, w):
    mp = _mp()
    rule, n = case["rule"], case["n"]
    h = case["delta"] if rule == "TanhSinh" else case["h"]
    m = (n - 1) // 2
    # maps that approach a constant (tanh -> 1, log(1+e^y) -> 0) need enough digits to resolve offsets down to the
    # smallest double (1e-324) before differentiating numerically; the others are resolved relatively at 40 digits
    with mp.workdps(420 if rule in ("TanhSinh", "SingleTanh", "LogExpSinh") else 40):
        f = _de_map(rule, mp)
        hh = mp.mpf(h)
        xs, ws = [], []
        for k in range(-m, m + 1):
            t = hh * k
            xs.append(f(t))
            ws.append(hh * mp.diff(f, t))
        refx = np.array([float(v) for v in xs])
        refw = np.array([float(v) for v in ws])
    # log(e^y + 1) carries the absolute rounding of its O(1) intermediate: nodes below ~1e-16 are resolved only
    # absolutely (error model C*eps*(1+|x|)); every other map is resolved relatively down to underflow
    abs_res = 8 * np.finfo(float).eps if rule == "LogExpSinh" else 0.0
    _strict_where_distinct(ctx, p, xs, case, abs_res)
    ctx.close(p, refx, 1e-12 * np.abs(refx) + 1e-300 + abs_res, "closed-form-nodes", f"{rule}(n={n}, h={h})")
    ctx.close(w, refw, 1e-11 * np.abs(refw) + 1e-300, "closed-form-weights-not-step-times-derivative", f"{rule}(n={n}, h={h})")


def _lobatto(case, ctx, p, w):
    mp = _mp()
    n = case["n"]
    with mp.workdps(30):
        xs = [mp.cos(mp.pi * (n - 1 - i) / (n - 1)) for i in range(n)]  # ascending
        ws = [(mp.pi / (n - 1)) * mp.sin(mp.pi * (n - 1 - i) / (n - 1)) * (mp.mpf(1) / 2 if i in (0, n - 1) else 1) for i in range(n)]
    refx = np.array([float(v) for v in xs])
    refw = np.array([float(v) for v in ws])
    ctx.close(p, refx, 1e-14, "lobatto-nodes", f"GaussChebyshevLobatto(n={n})")
    ctx.close(w, refw, 1e-12 * np.pi / (n - 1), "lobatto-weights", f"GaussChebyshevLobatto(n={n})")
    # the weight-divided rule integrates T_k/sqrt(1-x^2) exactly for k <= 2n-3 (interior nodes only carry weight)
    from scipy.special import eval_chebyt

    k = np.arange(0, 2 * n - 2)
    inner = slice(1, n - 1)
    wl = np.full(n, np.pi / (n - 1))
    wl[0] = wl[-1] = np.pi / (2 * (n - 1))
    v = (eval_chebyt(k[:, None], p[None, :]) * wl[None, :]).sum(axis=1)
    ref = np.where(k == 0, np.pi, 0.0)
    ctx.close(v, ref, 1e-11 * np.pi, "lobatto-definition-selfcheck", "oracle self-check of the documented Lobatto weights")
    del inner


def _sine_rectangle(case, ctx, p, w):
    n = case["n"]
    if n <= 24:
        mp = _mp()
        with mp.workdps(30):
            xs = [mp.mpf(i) / (n + 1) for i in range(1, n + 1)]
            ws = []
            for x in xs:
                s = mp.mpf(0)
                for m in range(1, n + 1):
                    s += mp.sin(m * mp.pi * x) * (1 - mp.cos(m * mp.pi)) / (m * mp.pi)
                ws.append(2 * s * 2 / (n + 1))
            refx = np.array([float(2 * x - 1) for x in xs])
            refw = np.array([float(v) for v in ws])
    else:
        x = np.arange(1, n + 1) / (n + 1.0)
        refw = np.zeros(n)
        for i in range(n):
            terms = [math.sin(m * math.pi * x[i]) * (1 - math.cos(m * math.pi)) / (m * math.pi) for m in range(1, n + 1)]
            refw[i] = 2 * (2.0 / (n + 1)) * math.fsum(terms)
        refx = 2 * x - 1
    ctx.close(p, refx, 1e-14, "sine-rectangle-nodes", f"n={n}")
    ctx.close(w, refw, 1e-12 * max(1.0, np.max(np.abs(refw))), "sine-rectangle-weights", f"n={n}")


def _newton_cotes_nodes(case, ctx, p, w):
    rule, n = case["rule"], case["n"]
    i = np.arange(n)
    if rule == "MidPoint":
        refx = -1 + (2 * i + 1) / n
        refw = np.full(n, 2.0 / n)
    else:
        refx = -1 + 2 * i / (n - 1)
        if rule == "Trapezoidal":
            refw = np.full(n, 2.0 / (n - 1))
            refw[0] = refw[-1] = 1.0 / (n - 1)
        else:  # composite Simpson 1-4-2-4-...-1 times h/3, h = 2/(n-1)
            refw = np.full(n, 2.0)
            refw[1::2] = 4.0
            refw[0] = refw[-1] = 1.0
            refw *= 2.0 / (3 * (n - 1))
    ctx.close(p, refx, 1e-14, "equispaced-nodes", f"{rule}(n={n})")
    ctx.close(w, refw, 1e-14, "newton-cotes-weights", f"{rule}(n={n})")


def _trefethen(case, ctx, p, w):
    import grid.onedgrid as og

    mp = _mp()
    rule, n = case["rule"], case["n"]
    base_name = {"TrefethenCC": "ClenshawCurtis", "TrefethenGC2": "GaussChebyshevType2", "TrefethenStripCC": "ClenshawCurtis",
                 "TrefethenStripGC2": "GaussChebyshevType2"}.get(rule) or case["quadrature"]
    base = getattr(og, base_name)(n)  # the base rule is checked on its own; here only the change of variables
    bx, bw = np.asarray(base.points, float), np.asarray(base.weights, float)
    with mp.workdps(50):
        if "Strip" in rule:
            gm = _strip_g(mp.mpf(case["rho"]), mp)
        else:
            d = case["d"]
            gm = (lambda x: x) if d == 1 else _arcsin_taylor_g(d, mp)
        assert abs(gm(mp.mpf(1)) - 1) < mp.mpf(10) ** -40 and abs(gm(mp.mpf(-1)) + 1) < mp.mpf(10) ** -40
        refx, refd = [], []
        for x in bx:
            xm = mp.mpf(float(x))
            refx.append(float(gm(xm)))
            if "Strip" in rule and abs(abs(x) - 1.0) < 1e-8:
                # one-sided limit of g' at the end points of the strip map
                eps_ = mp.mpf(10) ** -20
                xe = (1 - eps_) * (1 if x > 0 else -1)
                refd.append(float(mp.diff(gm, xe)))
            else:
                refd.append(float(mp.diff(gm, xm)))
    refx, refd = np.array(refx), np.array(refd)
    ctx.check(bool(np.all(refd > 0)), "oracle-map-not-monotone", "reference map g is not increasing (oracle error)")
    ctx.close(p, refx, 1e-13, "trefethen-nodes-not-g-of-base", f"{case}")
    ctx.close(w, refd * bw, 1e-11 * np.abs(refd * bw) + 1e-15 * np.max(np.abs(refd * bw)), "trefethen-weights-not-gprime-times-base", f"{case}")


def body_invalid(case, ctx):
    ctx.cls("invalid:" + case["why"])
    ctx.nt()
    try:
        with np.errstate(all="ignore"):
            g = _build(case)
    except (ValueError, TypeError):
        return
    ctx.fail("inadmissible-argument-accepted", f"{case} constructed a grid of size {g.size} instead of raising ValueError/TypeError")


# pinned: regression cases of the Fejer-1 repair, a probe for the Fejer-2 finding, edge sizes
PINNED = (
    [{"rule": "FejerFirst", "n": n, "dseed": 0} for n in (3, 5, 7, 11, 101, 257)]
    + [{"rule": "FejerSecond", "n": n, "dseed": 0} for n in (2, 3, 10, 11)]
    + [{"rule": "GaussChebyshevType2", "n": 1, "dseed": 0}]
    + [{"rule": r, "n": 3, "h": 0.1, "dseed": 0} for r in DE_RULES[1:]]
    + [{"rule": "TanhSinh", "n": 101, "delta": 0.1, "dseed": 0}, {"rule": "ExpSinh", "n": 13, "h": 1.0, "dseed": 0}]
)


def selftest():
    mp = _mp()
    with mp.workdps(40):
        g5, g9 = _arcsin_taylor_g(5, mp), _arcsin_taylor_g(9, mp)
        x = mp.mpf("0.3")
        assert abs(g5(x) - (120 * x + 20 * x**3 + 9 * x**5) / 149) < mp.mpf(10) ** -35
        assert abs(g9(x) - (40320 * x + 6720 * x**3 + 3024 * x**5 + 1800 * x**7 + 1225 * x**9) / 53089) < mp.mpf(10) ** -35
        gs = _strip_g(mp.mpf("1.4"), mp)
        assert abs(gs(mp.mpf(1)) - 1) < mp.mpf(10) ** -35 and abs(gs(mp.mpf(0))) < mp.mpf(10) ** -35
    # the condition-scaled test sees a one-degree loss: 3-point Gauss-Legendre is not exact for degree 6
    x, w = np.polynomial.legendre.leggauss(3)
    b, r = _legendre_basis(6, x)
    from ..core import Ctx

    ok, _ = _scaled_ok(Ctx(), w, b, r, "x", "selftest")
    assert not ok
    b, r = _legendre_basis(5, x)
    ok, _ = _scaled_ok(Ctx(), w, b, r, "x", "selftest")
    assert ok


def _enumerated(nmax):
    """Every (rule class, n) with default parameters, n = 2..nmax (class caps and parity respected): no 'magic n' can
    hide from a random draw."""
    caps = {"GaussLegendre": 100, "GaussLaguerre": 150, "RectangleRuleSineEndPoints": 129, "TrefethenCC": 129, "TrefethenGC2": 129,
            "TrefethenStripCC": 65, "TrefethenStripGC2": 65, "ExpSinh": 13, "LogExpSinh": 135}  # exp-sinh rules: float64 envelope pi/2*sinh(m h) < 690 at the default h
    rules = list(INTERP) + ["GaussChebyshev", "GaussChebyshevType2", "GaussChebyshevLobatto", "UniformInteger", "GaussLaguerre",
                            "RectangleRuleSineEndPoints", "TrefethenCC", "TrefethenGC2", "TrefethenStripCC", "TrefethenStripGC2"] + DE_RULES
    out = []
    for r in rules:
        for n in range(2, min(nmax, caps.get(r, nmax)) + 1):
            if r in ODD_ONLY and n % 2 == 0:
                continue
            c = {"rule": r, "n": n, "dseed": n}
            if r == "GaussLaguerre":
                c["alpha"] = 0
            if r == "TanhSinh":
                c["delta"] = 0.1
            if r in DE_RULES[1:]:
                c["h"] = DEFAULT_H.get(r, 0.1)
            if r in ("TrefethenCC", "TrefethenGC2"):
                c["d"] = 9
            if r in ("TrefethenStripCC", "TrefethenStripGC2"):
                c["rho"] = 1.1
            out.append(c)
    return out


def subchecks(tier, seed):
    quick = tier == "quick"
    return [
        SubCheck("all-sizes-default-parameters", body, cases=_enumerated(40 if quick else 257), exhaustive=not quick, shards=32),
        SubCheck("rules", body, strategy=_case_strategy(), examples=2500 if quick else 120000, cases=PINNED, shards=16 if quick else 64,
                 shrink=True),
        SubCheck("inadmissible", body_invalid, strategy=_invalid_strategy(), examples=400 if quick else 3000, shards=4),
    ]
