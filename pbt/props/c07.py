"""C07 - a molecular grid is the weighted concatenation of its atomic grids.

Sub-checks
  structure     MolGrid(atnums, atgrids, aim, store) against the concatenation built here from the AtomGrid objects,
                Becke factor against pbt/oracles/becke_ref.py, integrals against per-atom integrals, store on/off,
                get_atomic_grid / __getitem__.
  constructors  from_size / from_preset / from_pruned against MolGrid(...) of atomic grids built by hand from the same
                arguments (exact array equality); default radial grids rebuilt here from the documented table.
  onepercent    end-to-end clause: |integral - Q| / Q < 1 % for sums of normalised Gaussians (region calibrated, see
                REGION_* below).
"""
import math

import json

import numpy as np
from hypothesis import strategies as st

from ..core import EPS, SubCheck
from ..oracles import becke_ref
from ..oracles import data_loader as dl

PROPERTY = "C07"
RULE = (
    "structure: Hypothesis molecules of 1..5 atoms (pushed >= 0.5 bohr apart), per-atom radial grids of 1..5 generated "
    "nodes/weights, per-atom Lebedev degree (single or per shell), rotate seed, aim = Becke callable (order 1..4) | "
    "generated weight array | plain Python callable; every case is built with store=False and store=True. "
    "constructors: from_size (table sizes and in-between sizes, custom or default radial grid), from_preset (preset as "
    "str | per-atom list | dict by element; rgrid as OneDGrid | list | dict | None) and from_pruned (radius float | list, "
    "d_sectors int | lists | omitted, s_sectors None | int | lists; rgrid OneDGrid | list | dict), each compared with the "
    "hand-built grid. onepercent: preset x 1..5 elements with a default radial grid (weight on the largest and smallest "
    "atoms) x chain geometries built by construction with nearest distances 1.2-1.6 / 1.2-3.5 / 3-8 bohr x 1..6 "
    "Gaussians, exponent log-uniform in 0.3..30 (and the two ends), positive coefficients, default or generated rotate. "
    "non-trivial = >= 2 atoms with different radial grids, or an aim factor different from 1 somewhere, or a classmethod "
    "path with >= 2 atoms, or (onepercent) >= 2 atoms. distinct = distinct descriptor"
)
RULE = RULE + " " + 'constructors: a third of the list/dict-style cases contain two atoms of the same element (and preset/sector tables) with different radial grids of equal size.'

ASSUMPTIONS = [
    "AtomGrid (C05), OneDGrid/UniformInteger/PowerRTransform (C01, C03, C04) and the Lebedev tables (C02, C12) are the trusted base: the hand-built side uses them",
    "the table _DEFAULT_POWER_RTRANSFORM_PARAMS (rmin, rmax in angstrom, npt) is data; angstrom->bohr is scipy.constants' CODATA value (cross-checked against 1.8897261 to 1e-7)",
    "Becke factor: pbt/oracles/becke_ref.py with the error model of C06",
    "quadrature sums may differ by 512*eps*sum|w f| between summation orders",
    "1 % clause: positive coefficients (the relative error is taken against the total charge); atoms >= 1.2 bohr apart; default radial grids and default Becke order 3; elements = those with preset data and a default radial grid (sg_1: Z <= 18)",
    "1 % clause, known finding KF-C07-onepercent-region: molecules with a pair closer than 0.7 x (sum of its Bragg-Slater radii), or a pair with radius ratio > 1.8 closer than 3.5 bohr, are held to < 20 % only; all others to the stated 1 % (calibration: worst 0.42 % outside over 26 083 molecules / 962 830 single-Gaussian integrals)",
    "warnings emitted by the library are ignored",
]

# ---------------------------------------------------------------------------
# end-to-end 1 % clause: generator shared by the check and by the calibration run
# ---------------------------------------------------------------------------
PRESETS_1PCT = ("coarse", "medium", "fine", "veryfine", "ultrafine", "insane", "sg_1")
MIN_DIST = 1.2
ALPHA_MIN, ALPHA_MAX = 0.3, 30.0


def _bragg_table():
    from grid.utils import get_cov_radii

    lib = get_cov_radii(np.arange(1, 87), "bragg")
    return becke_ref.effective_table([float("nan")] + [float(v) for v in lib])


def bragg_radius(z, _cache={}):
    if not _cache:
        _cache["tab"] = _bragg_table()
    return becke_ref.radius_of(z, _cache["tab"])


def allowed_elements(preset, _cache={}):
    """Elements for which the preset ships data and a default radial grid exists (read from the data)."""
    if preset not in _cache:
        import os

        import grid
        from grid.utils import _DEFAULT_POWER_RTRANSFORM_PARAMS as defaults

        path = os.path.join(os.path.dirname(os.path.abspath(grid.__file__)), "data", "prune_grid", f"prune_grid_{preset}.npz")
        with np.load(path) as z:
            have = {int(k.split("_")[0]) for k in z.keys() if k[0].isdigit() and k.endswith("_npt")}
        zs = sorted(have & set(int(k) for k in defaults))
        if preset == "sg_1":
            zs = [z for z in zs if z <= 18]  # beyond argon sg_1 prescribes the number of radial shells
        _cache[preset] = zs
    return _cache[preset]


def onepercent_strategy():
    def for_preset(preset):
        elems = allowed_elements(preset)
        big = [z for z in elems if bragg_radius(z) >= 3.3] or elems
        small = [z for z in elems if bragg_radius(z) <= 1.35] or elems
        elem = st.one_of(st.sampled_from(elems), st.sampled_from(big), st.sampled_from(small))
        dist = st.one_of(st.floats(1.2, 1.6), st.floats(1.2, 3.5), st.floats(3.0, 8.0))
        link = st.fixed_dictionaries(
            {
                "parent": st.integers(0, 4),
                "dir": st.lists(st.floats(-1.0, 1.0), min_size=3, max_size=3),
                "dist": dist,
                # None: "dist" is the distance in bohr; a number: distance = rel * (sum of the two Bragg-Slater radii)
                "rel": st.one_of(st.none(), st.none(), st.floats(0.55, 1.1), st.floats(0.9, 1.8)),
            }
        )
        alpha = st.one_of(
            st.floats(math.log(ALPHA_MIN), math.log(ALPHA_MAX)).map(lambda t: min(ALPHA_MAX, max(ALPHA_MIN, math.exp(t)))),
            st.sampled_from([ALPHA_MIN, ALPHA_MAX]),
        )
        gauss = st.fixed_dictionaries({"atom": st.integers(0, 4), "alpha": alpha, "c": st.floats(0.2, 2.0)})
        return st.integers(1, 5).flatmap(
            lambda m: st.fixed_dictionaries(
                {
                    "preset": st.just(preset),
                    "atnums": st.lists(elem, min_size=m, max_size=m),
                    "links": st.lists(link, min_size=m - 1, max_size=m - 1),
                    "gauss": st.lists(gauss, min_size=1, max_size=6),
                    "rotate": st.one_of(st.just(37), st.integers(0, 1000)),
                }
            )
        )

    return st.sampled_from(PRESETS_1PCT).flatmap(for_preset)


def build_chain(links, atnums):
    """Atom positions by construction: atom k+1 sits on a ray from an earlier atom, pushed outwards until it is
    at least MIN_DIST from every atom placed so far."""
    pos = [np.zeros(3)]
    for k, lk in enumerate(links):
        ip = lk["parent"] % len(pos)
        parent = pos[ip]
        u = np.array(lk["dir"], dtype=float)
        nrm = float(np.linalg.norm(u))
        u = u / nrm if nrm > 1e-3 else np.array([0.0, 0.0, 1.0])
        d = float(lk["dist"])
        if lk.get("rel") is not None:
            d = max(MIN_DIST, float(lk["rel"]) * (bragg_radius(atnums[ip]) + bragg_radius(atnums[k + 1])))
        for _ in range(400):
            p = parent + d * u
            if min(float(np.linalg.norm(p - q)) for q in pos) >= MIN_DIST:
                break
            d += 0.125
        else:  # cannot happen: the ray leaves every ball eventually
            raise RuntimeError("build_chain failed")
        pos.append(p)
    return np.array(pos)


def pair_table(atnums, atcoords):
    """[(radius ratio >= 1, distance, distance / sum of the two radii)] over all atom pairs (Bragg-Slater radii)."""
    out = []
    for i in range(len(atnums)):
        for j in range(i):
            ra, rb = bragg_radius(atnums[i]), bragg_radius(atnums[j])
            d = float(np.linalg.norm(atcoords[i] - atcoords[j]))
            out.append((max(ra, rb) / min(ra, rb), d, d / (ra + rb)))
    return out


def gaussian_sum(points, atcoords, gauss):
    f = np.zeros(len(points))
    q = 0.0
    for g in gauss:
        a = g["atom"] % len(atcoords)
        al, c = float(g["alpha"]), float(g["c"])
        d = points - atcoords[a]
        f += c * (al / math.pi) ** 1.5 * np.exp(-al * (d[:, 0] ** 2 + d[:, 1] ** 2 + d[:, 2] ** 2))
        q += c
    return f, q


# ---------------------------------------------------------------------------
# Region of the known finding KF-C07-onepercent-region, re-derived by calibration on the unchanged tree with
# onepercent_strategy() itself (Hypothesis, fresh seeds, 10 processes, 2 x 16 min): 26 083 molecules; on every grid each
# atom was given a single normalised Gaussian at 10 log-spaced exponents 0.3..30 plus the generated ones (962 830
# single-Gaussian integrals - the worst case of any positive combination).  Findings: the 1 % bound is exceeded far
# outside the region the design phase had guessed (ratio > 1.8, d < 3.0): whenever a pair is squeezed well below the sum
# of its Bragg-Slater radii (Cs-Sr at 1.2 bohr, coarse: 1.9 %; Rb-He-Na at 1.2 bohr, coarse: 10.0 %), for every preset
# (worst inside: coarse 10.0, fine 6.3, medium 4.7, sg_1 3.3, veryfine 3.2, ultrafine 2.3, insane 1.2 %).
# With the region below the worst error OUTSIDE is 0.42 % (8 514 molecules, 2 691 of them polyatomic): margin 2.4x to
# the stated 1 %.  (ratio 1.8 / d 3.0 / no compression term: 2.1 % outside; 0.6 / 1.8 / 3.0: 0.69 %.)  Inside the region
# only a gross loss of accuracy is a violation: GROSS = 2 x the worst value seen inside.
REGION_RATIO = 1.8
REGION_DIST = 3.5
REGION_COMPRESSION = 0.7
GROSS = 0.20


def in_region(pairs):
    """Some pair is compressed below REGION_COMPRESSION x (sum of its Bragg-Slater radii), or has radii differing by more
    than REGION_RATIO x while closer than REGION_DIST bohr."""
    return any(q < REGION_COMPRESSION or (ratio > REGION_RATIO and d < REGION_DIST) for ratio, d, q in pairs)


def body_onepercent(case, ctx):
    from grid.molgrid import MolGrid

    atnums = np.array(case["atnums"], dtype=int)
    m = len(atnums)
    at = build_chain(case["links"], case["atnums"])
    mg = MolGrid.from_preset(atnums, at, case["preset"], rotate=case["rotate"])
    f, q = gaussian_sum(mg.points, at, case["gauss"])
    err = abs(float(mg.integrate(f)) - q) / q
    pairs = pair_table(case["atnums"], at)
    inside = in_region(pairs)
    dmin = min((d for _, d, _ in pairs), default=float("inf"))
    ctx.cls(
        f"preset:{case['preset']}",
        f"atoms:{m}",
        "region:inside" if inside else "region:outside",
        "nearest:<1.6" if dmin < 1.6 else "nearest:1.6-3" if dmin < 3.0 else "nearest:>=3",
        f"gaussians:{'1' if len(case['gauss']) == 1 else '2+'}",
        "err:<1e-4" if err < 1e-4 else "err:1e-4..2.5e-3" if err < 2.5e-3 else "err:2.5e-3..1e-2" if err <= 1e-2 else "err:>1e-2",
    )
    ctx.nt(m >= 2)
    what = (
        f"preset={case['preset']} atnums={case['atnums']} coords={np.round(at, 4).tolist()} rotate={case['rotate']} "
        f"gauss={[(g['atom'] % m, round(g['alpha'], 4), round(g['c'], 3)) for g in case['gauss']]}: relative charge error {err:.4%}"
    )
    if not math.isfinite(err):
        ctx.fail("charge-error-not-finite", what)
    elif inside:
        if err >= GROSS:
            ctx.fail("charge-error-gross-inside-region", what)
        elif err > 0.01:
            ctx.known("KF-C07-onepercent-region", "charge-error-above-1-percent", what)
    elif err > 0.01:
        ctx.fail("charge-error-above-1-percent", what)


def pinned_onepercent():
    z = [0.0, 0.0, 1.0]
    return [
        # probes of the known finding (inside the region, 1 % < error < 20 %)
        {"preset": "coarse", "atnums": [11, 8], "links": [{"parent": 0, "dir": z, "dist": 2.0}], "gauss": [{"atom": 1, "alpha": 3.0, "c": 1.0}], "rotate": 37},
        {"preset": "medium", "atnums": [6, 11], "links": [{"parent": 0, "dir": z, "dist": 1.3}], "gauss": [{"atom": 0, "alpha": 10.78, "c": 1.0}], "rotate": 37},
        {"preset": "coarse", "atnums": [55, 38], "links": [{"parent": 0, "dir": z, "dist": 1.2}], "gauss": [{"atom": 1, "alpha": 1.913183095466858, "c": 1.0}], "rotate": 0},
        {
            "preset": "coarse",
            "atnums": [37, 2, 11, 41],
            "links": [{"parent": 0, "dir": z, "dist": 1.2}, {"parent": 1, "dir": z, "dist": 1.2}, {"parent": 2, "dir": z, "dist": 1.25}],
            "gauss": [{"atom": 1, "alpha": 6.463304070095652, "c": 1.0}],
            "rotate": 0,
        },
        # worst case seen outside the region during calibration (0.42 %): must stay below 1 %
        {
            "preset": "coarse",
            "atnums": [7, 2, 7, 2],
            "links": [{"parent": 0, "dir": z, "dist": 3.89}, {"parent": 1, "dir": [1.0, 0.0, 0.0], "dist": 6.18}, {"parent": 2, "dir": [0.0, 1.0, 0.0], "dist": 7.3}],
            "gauss": [{"atom": 3, "alpha": 0.5004301611600176, "c": 1.0}],
            "rotate": 37,
        },
        # ordinary molecules, every preset: water-like
        *[
            {
                "preset": p,
                "atnums": [8, 1, 1],
                "links": [{"parent": 0, "dir": [0.0, 0.757, 0.587], "dist": 1.81}, {"parent": 0, "dir": [0.0, -0.757, 0.587], "dist": 1.81}],
                "gauss": [{"atom": 0, "alpha": 30.0, "c": 2.0}, {"atom": 0, "alpha": 0.8, "c": 1.5}, {"atom": 1, "alpha": 1.2, "c": 0.5}, {"atom": 2, "alpha": 0.3, "c": 0.5}],
                "rotate": 37,
            }
            for p in PRESETS_1PCT
        ],
    ]


# ---------------------------------------------------------------------------
# structure
# ---------------------------------------------------------------------------
def _push_apart(raw, dmin):
    pos = []
    for p in raw:
        p = np.array(p, dtype=float)
        for _ in range(2000):
            if all(float(np.linalg.norm(p - q)) >= dmin for q in pos):
                break
            p = p + np.array([0.0, 0.37, 0.0])
        pos.append(p)
    return np.array(pos)


def _radial(spec):
    from grid.basegrid import OneDGrid

    r = spec["r0"] + np.concatenate([[0.0], np.cumsum(spec["gaps"])])
    w = np.array(spec["w"][: len(r)], dtype=float)
    return OneDGrid(r, w, (0, np.inf))


def _radial_strategy(max_n=5):
    return st.integers(1, max_n).flatmap(
        lambda n: st.fixed_dictionaries(
            {
                "r0": st.floats(0.05, 1.0),
                "gaps": st.lists(st.floats(0.05, 1.5), min_size=n - 1, max_size=n - 1),
                "w": st.lists(st.floats(0.05, 2.0), min_size=n, max_size=n),
            }
        )
    )


def pick(options):
    options = list(options)
    return st.integers(0, 2**31 - 1).map(lambda v: options[v % len(options)])


_Z_STRUCT = [1, 6, 8, 2, 3, 9, 11, 17, 18, 26, 35, 36, 55, 86, 7, 15]
_coord = st.floats(-3.0, 3.0)
_xyz = st.lists(_coord, min_size=3, max_size=3)


def structure_strategy():
    atom = st.fixed_dictionaries(
        {
            "z": pick(_Z_STRUCT),
            "xyz": _xyz,
            "rad": _radial_strategy(),
            "deg": st.one_of(st.integers(1, 15), st.lists(st.integers(1, 15), min_size=5, max_size=5)),
            "rot": pick([0, 37, 1, 2**31, 12345]),
        }
    )
    aim = pick(["becke", "array", "becke", "pycallable"]).flatmap(
        lambda k: st.fixed_dictionaries({"kind": st.just(k), "order": pick([3, 1, 2, 4])})
    )
    return pick([2, 1, 3, 4, 5, 2, 3]).flatmap(
        lambda m: st.fixed_dictionaries(
            {
                "atoms": st.lists(atom, min_size=m, max_size=m),
                "aim": aim,
                "dseed": st.integers(0, 2**31 - 1),
            }
        )
    )


def _test_function(points, dseed):
    rng = np.random.default_rng(dseed)
    f = np.zeros(len(points))
    for _ in range(3):
        q = rng.uniform(-3, 3, 3)
        d = points - q
        f += rng.uniform(-1, 2) * np.exp(-rng.uniform(0.05, 1.5) * (d[:, 0] ** 2 + d[:, 1] ** 2 + d[:, 2] ** 2))
    return f + rng.uniform(-0.5, 0.5) * points[:, 0] + 0.3


def body_structure(case, ctx):
    from grid.atomgrid import AtomGrid
    from grid.basegrid import LocalGrid
    from grid.becke import BeckeWeights
    from grid.molgrid import MolGrid

    atoms = case["atoms"]
    m = len(atoms)
    atnums = np.array([a["z"] for a in atoms], dtype=int)
    at = _push_apart([a["xyz"] for a in atoms], 0.5)
    atgrids = []
    for a, c in zip(atoms, at):
        rg = _radial(a["rad"])
        deg = [a["deg"]] if isinstance(a["deg"], int) else list(a["deg"][: rg.size])
        if len(deg) != 1 and len(deg) != rg.size:
            deg = deg[:1]
        atgrids.append(AtomGrid(rg, degrees=deg, center=c, rotate=a["rot"]))
    # ---- the concatenation, built here ------------------------------------------
    sizes = [int(g.size) for g in atgrids]
    idx = np.concatenate([[0], np.cumsum(sizes)]).astype(int)
    n = int(idx[-1])
    pts = np.vstack([g.points for g in atgrids])
    atw = np.concatenate([g.weights for g in atgrids])
    owner = np.repeat(np.arange(m), sizes)
    kind = case["aim"]["kind"]
    order = case["aim"]["order"]
    rng = np.random.default_rng(case["dseed"])
    seen = {}
    if kind == "becke":
        aim_arg = BeckeWeights(order=order)
        tab = becke_ref.effective_table([float("nan")] + [float(v) for v in _lib_bragg()])
        radii = [becke_ref.radius_of(z, tab) for z in atnums]
        aim_ref = becke_ref.weights(pts, at, radii, order)[np.arange(n), owner]
        aim_tol = 64.0 * EPS * becke_ref.condition(pts, at, order)
    elif kind == "array":
        aim_arg = rng.uniform(0.0, 1.0, n)
        aim_ref, aim_tol = aim_arg.copy(), 0.0
    else:
        values = rng.uniform(0.0, 1.0, n)

        def aim_arg(points, atcoords, nums, indices):
            seen["args"] = (np.array(points), np.array(atcoords), np.array(nums), np.array(indices))
            return values

        aim_ref, aim_tol = values.copy(), 0.0
    fvals = _test_function(pts, case["dseed"])
    diff_rad = len({(tuple(a["rad"]["gaps"]), a["rad"]["r0"]) for a in atoms}) > 1
    ctx.cls(f"atoms:{m}", f"aim:{kind}", "radial:per-atom-different" if diff_rad else "radial:same", f"points:{'<500' if n < 500 else '500+'}")
    ctx.nt((m >= 2 and diff_rad) or bool(np.any(aim_ref != 1.0)))

    grids = {}
    for store in (False, True):
        mg = MolGrid(atnums, atgrids, aim_arg, store=store)
        grids[store] = mg
        tag = f"store={store}"
        ctx.equal(mg.points, pts, "points-not-concatenation", tag)
        ctx.equal(mg.indices, idx, "indices-not-cumulative-sizes", f"{tag} got {np.asarray(mg.indices).tolist()} want {idx.tolist()}")
        ctx.equal(mg.atweights, atw, "atweights-not-concatenation", tag)
        ctx.equal(mg.atcoords, at, "atcoords-not-centres", tag)
        ctx.check(mg.size == n, "size", f"{tag} size {mg.size} != {n}")
        if np.shape(mg.aim_weights) == (n,):
            ctx.close(mg.aim_weights, aim_ref, aim_tol, "aim-weights", f"{tag} aim={kind} order={order}")
            ctx.close(mg.weights, atw * np.asarray(mg.aim_weights), 2 * EPS * np.abs(atw), "weights-not-atweights-times-aim", tag)
        else:
            ctx.fail("aim-weights", f"{tag} shape {np.shape(mg.aim_weights)}")
        ctx.close(mg.weights, atw * aim_ref, np.abs(atw) * (aim_tol + 2 * EPS), "weights-not-atweights-times-reference-aim", f"{tag} aim={kind}")
        if kind == "pycallable" and "args" in seen:
            p_, c_, z_, i_ = seen["args"]
            ctx.check(
                np.array_equal(p_, pts) and np.array_equal(c_, at) and np.array_equal(z_, atnums) and np.array_equal(i_, idx),
                "callable-arguments",
                f"{tag}: the aim callable was not handed (points, centres, atnums, indices) of the concatenated grid",
            )
        # integral = sum of atomic integrals of w_A f
        scale = float(np.sum(np.abs(atw * aim_ref * fvals)))
        tol_i = 512.0 * EPS * scale + float(np.sum(np.abs(atw * fvals) * aim_tol))
        total = 0.0
        for a in range(m):
            sl = slice(idx[a], idx[a + 1])
            total += float(atgrids[a].integrate((aim_ref * fvals)[sl]))
        got = float(mg.integrate(fvals))
        ctx.close(got, total, tol_i, "integral-not-sum-of-atomic-integrals", tag)
        ctx.close(got, math.fsum((atw * aim_ref * fvals).tolist()), tol_i, "integral-not-weighted-sum", tag)
        ctx.check((mg.atgrids is None) == (not store), "atgrids-attribute", f"{tag}: atgrids is {'None' if mg.atgrids is None else 'a list'}")
        if store and mg.atgrids is not None:
            ctx.check(len(mg.atgrids) == m and all(x is y for x, y in zip(mg.atgrids, atgrids)), "atgrids-attribute", "stored grids are not the grids passed in")
        for a in range(m):
            sl = slice(idx[a], idx[a + 1])
            ia = [a, np.int64(a)][(a + case["dseed"]) % 2]
            g = mg.get_atomic_grid(ia)
            ctx.equal(g.points, atgrids[a].points, "get_atomic_grid-points", f"{tag} atom {a}")
            ctx.equal(g.weights, atgrids[a].weights, "get_atomic_grid-weights", f"{tag} atom {a}: not the bare atomic weights")
            ctx.equal(np.asarray(g.center, dtype=float), at[a], "get_atomic_grid-center", f"{tag} atom {a}")
            if store:
                ctx.check(isinstance(g, AtomGrid), "get_atomic_grid-type", f"{tag}: {type(g).__name__}")
            else:
                ctx.check(isinstance(g, LocalGrid), "get_atomic_grid-type", f"{tag}: {type(g).__name__}")
            # molgrid[i]: documented "AtomGrid of desired atom with aim weights integrated"
            h = mg[ia]
            ctx.equal(h.points, pts[sl], "getitem-points", f"{tag} atom {a}")
            ctx.equal(np.asarray(h.center, dtype=float), at[a], "getitem-center", f"{tag} atom {a}")
            want = np.asarray(grids[store].weights)[sl]
            if np.shape(h.weights) == want.shape and np.array_equal(h.weights, want):
                continue
            bare = atgrids[a].weights
            if store and np.shape(h.weights) == bare.shape and np.array_equal(h.weights, bare):
                ctx.known(
                    "KF-C07-getitem-store",
                    "getitem-weights",
                    f"molgrid[{a}] with store=True returns the bare atomic weights (max |aim-1| on the segment {float(np.max(np.abs(aim_ref[sl] - 1))):.2e})",
                )
            else:
                ctx.fail("getitem-weights", f"{tag} molgrid[{a}].weights are neither atweights*aim nor (store=True) the bare atomic weights")
    a_, b_ = grids[False], grids[True]
    for name in ("points", "weights", "indices", "aim_weights", "atweights", "atcoords"):
        ctx.equal(getattr(a_, name), getattr(b_, name), "store-dependence", f"attribute {name} differs between store=False and store=True")
    ctx.check(float(a_.integrate(fvals)) == float(b_.integrate(fvals)), "store-dependence", "integral differs between store=False and store=True")


def _lib_bragg():
    from grid.utils import get_cov_radii

    return get_cov_radii(np.arange(1, 87), "bragg")


def pinned_structure():
    rad = {"r0": 0.3, "gaps": [0.5, 0.9], "w": [0.7, 1.1, 0.4]}
    return [
        # probe of KF-C07-getitem-store: two atoms, Becke factor
        {
            "atoms": [
                {"z": 8, "xyz": [0.0, 0.0, 0.0], "rad": rad, "deg": 7, "rot": 37},
                {"z": 1, "xyz": [0.0, 0.0, 1.8], "rad": {"r0": 0.2, "gaps": [0.6], "w": [0.5, 0.9]}, "deg": [3, 9, 9, 9, 9], "rot": 0},
            ],
            "aim": {"kind": "becke", "order": 3},
            "dseed": 5,
        },
        {
            "atoms": [{"z": 6, "xyz": [0.5, 0.5, 0.5], "rad": rad, "deg": 5, "rot": 1}],
            "aim": {"kind": "array", "order": 3},
            "dseed": 6,
        },
    ]


# ---------------------------------------------------------------------------
# constructors
# ---------------------------------------------------------------------------
_PRESETS_FREE = ("coarse", "medium", "fine", "veryfine", "ultrafine", "insane", "sg_1")  # accept any radial grid (sg_1: Z <= 18)
_Z_CTOR = [1, 6, 8, 7, 3, 9, 11, 16, 17, 2, 10, 18]  # Z <= 18 so that every free preset applies


def default_rgrid_by_hand(z):
    """Default radial grid as documented: PowerRTransform(rmin, rmax) of UniformInteger(npt), table in angstrom."""
    import scipy.constants
    from grid.onedgrid import UniformInteger
    from grid.rtransform import PowerRTransform
    from grid.utils import _DEFAULT_POWER_RTRANSFORM_PARAMS as table

    rmin, rmax, npt = table[int(z)]
    # (x * angstrom) / bohr in this order: MolGrid's conversion; AtomGrid.from_preset(rgrid=None) multiplies by the
    # quotient instead, which moves rmin/rmax by one ulp - that route is therefore compared with a tolerance
    ang, bohr = scipy.constants.angstrom, scipy.constants.value("atomic unit of length")
    grid1d = PowerRTransform(rmin * ang / bohr, rmax * ang / bohr).transform_1d_grid(UniformInteger(npt))
    return grid1d, rmax * 1.8897261246, npt


def constructors_strategy():
    lebedev_sizes = [s for s in dl.sizes("lebedev") if s <= 110]
    atoms = lambda m: st.lists(st.fixed_dictionaries({"z": pick(_Z_CTOR), "xyz": _xyz}), min_size=m, max_size=m)  # noqa: E731
    common = lambda m: {  # noqa: E731
        "atoms": atoms(m),
        "rotate": pick([37, 0, 1, 99, 2**31, True, False]),  # documented as "bool or int"
        "store": pick([False, True]),
        "aim": pick(["default", "becke2", "array", "default"]),
        "dseed": st.integers(0, 2**31 - 1),
    }

    def rgrid_spec(m, allow_none):
        kinds = ["single", "list", "dict"] + (["none"] if allow_none else [])
        return pick(kinds).flatmap(
            lambda k: st.fixed_dictionaries({"kind": st.just(k), "grids": st.lists(_radial_strategy(4), min_size=m, max_size=m)})
        )

    def from_size(m):
        return st.fixed_dictionaries(
            dict(
                common(m),
                ctor=st.just("from_size"),
                size=st.one_of(st.sampled_from(lebedev_sizes), st.integers(1, 110)),
                rgrid=pick(["single", "single", "none"]).flatmap(
                    lambda k: st.fixed_dictionaries({"kind": st.just(k), "grids": st.lists(_radial_strategy(4), min_size=1, max_size=1)})
                ),
            )
        )

    def from_preset(m):
        return st.fixed_dictionaries(
            dict(
                common(m),
                ctor=st.just("from_preset"),
                preset=pick(["list", "str", "dict"]).flatmap(
                    lambda k: st.fixed_dictionaries({"kind": st.just(k), "names": st.lists(pick(_PRESETS_FREE), min_size=m, max_size=m)})
                ),
                rgrid=rgrid_spec(m, True),
            )
        )

    def from_pruned(m):
        sect = st.integers(0, 3).flatmap(
            lambda k: st.fixed_dictionaries(
                {
                    "r": st.lists(st.floats(0.1, 3.0), min_size=k, max_size=k),
                    "d": st.lists(st.integers(1, 25), min_size=k + 1, max_size=k + 1),
                    "s": st.lists(st.integers(1, 200), min_size=k + 1, max_size=k + 1),
                }
            )
        )
        return st.fixed_dictionaries(
            dict(
                common(m),
                ctor=st.just("from_pruned"),
                radius=st.one_of(st.floats(0.5, 2.5), st.lists(st.floats(0.5, 2.5), min_size=m, max_size=m)),
                sectors=st.lists(sect, min_size=m, max_size=m),
                dmode=pick(["lists", "int", "lists", "omitted"]),
                dint=st.integers(1, 25),
                smode=pick(["none", "lists", "int", "none"]),
                sint=st.integers(1, 200),
                rgrid=rgrid_spec(m, False),
            )
        )

    def twins(case):
        """A third of the list/dict-style cases get two atoms of the SAME element (and preset / sector tables) whose
        radial grids differ but have the same number of shells: per-atom arguments must be resolved per atom, not per
        (element, preset)."""
        if len(case["atoms"]) < 2 or case["dseed"] % 3 or case["ctor"] == "from_size":
            return case
        case = json.loads(json.dumps(case))
        case["atoms"][1]["z"] = case["atoms"][0]["z"]
        g0 = case["rgrid"]["grids"][0]
        case["rgrid"]["kind"] = "list"
        case["rgrid"]["grids"][1] = {"r0": g0["r0"] * 1.37, "gaps": [g * 1.21 for g in g0["gaps"]], "w": [w * 0.9 for w in g0["w"]]}
        if case["ctor"] == "from_preset" and case["preset"]["kind"] == "list":
            case["preset"]["names"][1] = case["preset"]["names"][0]
        if case["ctor"] == "from_pruned":
            case["sectors"][1] = case["sectors"][0]
        case["twin"] = True
        return case

    return pick([2, 1, 3, 4, 2, 3]).flatmap(lambda m: pick(["from_preset", "from_size", "from_pruned"]).flatmap(lambda c: {"from_size": from_size, "from_preset": from_preset, "from_pruned": from_pruned}[c](m))).map(twins)


def body_constructors(case, ctx):
    from grid.atomgrid import AtomGrid
    from grid.becke import BeckeWeights
    from grid.molgrid import MolGrid

    atoms = case["atoms"]
    m = len(atoms)
    atnums = np.array([a["z"] for a in atoms], dtype=int)
    at = _push_apart([a["xyz"] for a in atoms], 0.8)
    rotate, store, ctor = case["rotate"], case["store"], case["ctor"]
    distinct_z = sorted(set(int(z) for z in atnums))
    if case.get("twin"):
        ctx.cls("twin-atoms-same-element-different-rgrid")

    # ---- radial grids: the argument handed to the classmethod and the per-atom grid it must resolve to ------------
    spec = case["rgrid"]
    rk = spec["kind"]
    if rk == "single":
        g0 = _radial(spec["grids"][0])
        rg_arg, rg_atom = g0, [g0] * m
    elif rk == "list":
        gl = [_radial(g) for g in spec["grids"]]
        rg_arg, rg_atom = gl, gl
    elif rk == "dict":
        gd = {z: _radial(spec["grids"][i]) for i, z in enumerate(distinct_z)}
        rg_arg, rg_atom = gd, [gd[int(z)] for z in atnums]
    else:
        rg_arg, rg_atom = None, []
        for z in atnums:
            g, rmax_bohr, npt = default_rgrid_by_hand(z)
            ctx.check(g.size == npt and abs(float(np.max(g.points)) / rmax_bohr - 1) < 1e-6, "default-rgrid-units", f"Z={z}: hand-built default grid ends at {float(np.max(g.points))}, table says {rmax_bohr} bohr")
            rg_atom.append(g)

    # ---- atomic grids by hand -------------------------------------------------------------------------------------
    hand = []
    kwargs = {}
    if ctor == "from_size":
        size = case["size"]
        for i in range(m):
            hand.append(AtomGrid(rg_atom[i], degrees=None, sizes=[size], center=at[i], rotate=rotate))
            want = dl.resolve_size("lebedev", size) * rg_atom[i].size
            ctx.check(hand[-1].size == want, "hand-built-size", f"AtomGrid(sizes=[{size}]) has {hand[-1].size} points, own table says {want}")
        build = lambda aim: MolGrid.from_size(atnums, at, size, rgrid=rg_arg, aim_weights=aim, rotate=rotate, store=store)  # noqa: E731
        sub = f"size={size}"
    elif ctor == "from_preset":
        ps = case["preset"]
        if ps["kind"] == "str":
            p_arg, p_atom = ps["names"][0], [ps["names"][0]] * m
        elif ps["kind"] == "list":
            p_arg, p_atom = list(ps["names"]), list(ps["names"])
        else:
            pd = {z: ps["names"][i] for i, z in enumerate(distinct_z)}
            p_arg, p_atom = pd, [pd[int(z)] for z in atnums]
        if rk == "none":  # cost: default radial grids have 34..85 shells; keep the three cheaper presets
            cheap = {"fine": "coarse", "veryfine": "medium", "ultrafine": "coarse", "insane": "sg_1"}
            remap = lambda p: cheap.get(p, p)  # noqa: E731
            p_atom = [remap(p) for p in p_atom]
            p_arg = remap(p_arg) if isinstance(p_arg, str) else [remap(p) for p in p_arg] if isinstance(p_arg, list) else {k: remap(v) for k, v in p_arg.items()}
        for i in range(m):
            hand.append(AtomGrid.from_preset(atnum=int(atnums[i]), preset=p_atom[i], rgrid=rg_atom[i], center=at[i], rotate=rotate))
        if rk == "none":  # AtomGrid's own default-radial-grid route must give the same atom grid
            g2 = AtomGrid.from_preset(atnum=int(atnums[0]), preset=p_atom[0], rgrid=None, center=at[0], rotate=rotate)
            same = g2.rgrid.size == rg_atom[0].size and g2.size == hand[0].size and np.array_equal(g2.degrees, hand[0].degrees)
            if same:
                ctx.close(g2.rgrid.points, rg_atom[0].points, 256 * EPS * np.abs(rg_atom[0].points), "default-rgrid-atomgrid-route", f"radial nodes Z={atnums[0]}")
                ctx.close(g2.rgrid.weights, rg_atom[0].weights, 256 * EPS * np.abs(rg_atom[0].weights), "default-rgrid-atomgrid-route", f"radial weights Z={atnums[0]}")
            else:
                ctx.fail("default-rgrid-atomgrid-route", f"AtomGrid.from_preset(Z={atnums[0]}, {p_atom[0]}, rgrid=None) has another layout than the grid on the hand-built default radial grid")
        build = lambda aim: MolGrid.from_preset(atnums, at, p_arg, rgrid=rg_arg, aim_weights=aim, rotate=rotate, store=store)  # noqa: E731
        sub = f"preset={p_arg!r}"
        ctx.cls(f"preset-arg:{ps['kind']}")
        if len(set(p_atom)) > 1:
            ctx.cls("presets-differ-per-atom")
    else:
        secs = case["sectors"]
        r_sectors = [sorted(s["r"]) for s in secs]
        radius = case["radius"]
        radius_atom = [radius] * m if isinstance(radius, float) else list(radius)
        if case["smode"] == "none":
            s_arg, s_atom = None, [None] * m
            if case["dmode"] == "lists":
                d_arg = [list(s["d"]) for s in secs]
                d_atom = d_arg
                kwargs["d_sectors"] = d_arg
            elif case["dmode"] == "int":
                d_atom = [[case["dint"]] * (len(r) + 1) for r in r_sectors]
                kwargs["d_sectors"] = case["dint"]
            else:
                d_atom = [[50] * (len(r) + 1) for r in r_sectors]  # documented default: degree 50 everywhere
        else:
            d_atom = [None] * m
            if case["dmode"] == "lists":
                kwargs["d_sectors"] = [list(s["d"]) for s in secs]  # documented: ignored when s_sectors is given
            elif case["dmode"] == "int":
                kwargs["d_sectors"] = case["dint"]
            if case["smode"] == "lists":
                s_arg = [list(s["s"]) for s in secs]
                s_atom = s_arg
            else:
                s_arg = case["sint"]
                s_atom = [[case["sint"]] * (len(r) + 1) for r in r_sectors]
            kwargs["s_sectors"] = s_arg
        for i in range(m):
            hand.append(
                AtomGrid.from_pruned(rg_atom[i], radius_atom[i], r_sectors=r_sectors[i], d_sectors=d_atom[i], s_sectors=s_atom[i], center=at[i], rotate=rotate)
            )
        build = lambda aim: MolGrid.from_pruned(atnums, at, radius, r_sectors, rgrid=rg_arg, aim_weights=aim, rotate=rotate, store=store, **kwargs)  # noqa: E731
        sub = f"radius={radius!r} r_sectors={r_sectors} {kwargs}"
        ctx.cls(f"d_sectors:{case['dmode']}", f"s_sectors:{case['smode']}", f"radius:{'float' if isinstance(radius, float) else 'list'}")

    n = int(sum(g.size for g in hand))
    if case["aim"] == "default":
        aim_hand, aim_arg = BeckeWeights(order=3), None  # documented default
    elif case["aim"] == "becke2":
        aim_hand = aim_arg = BeckeWeights(order=2)
    else:
        aim_hand = aim_arg = np.random.default_rng(case["dseed"]).uniform(0, 1, n)
    ref = MolGrid(atnums, hand, aim_hand, store=store)
    got = build(aim_arg)
    ctx.cls(f"ctor:{ctor}", f"rgrid:{rk}", f"atoms:{m}", f"aim:{case['aim']}", f"store:{store}", f"rotate:{'0' if rotate == 0 else 'seed'}")
    ctx.nt(m >= 2)
    what = f"{ctor} Z={atnums.tolist()} {sub} rgrid={rk} rotate={rotate} store={store} aim={case['aim']}"
    for name in ("indices", "points", "atweights", "aim_weights", "weights", "atcoords"):
        ctx.equal(getattr(got, name), getattr(ref, name), f"{ctor}-{name}-differ-from-hand-built", what)
    ctx.check((got.atgrids is None) == (not store), f"{ctor}-store-flag", what)
    for a in range(m):
        g, h = got.get_atomic_grid(a), ref.get_atomic_grid(a)
        ctx.check(np.array_equal(g.points, h.points) and np.array_equal(g.weights, h.weights), f"{ctor}-atomic-grid-differs-from-hand-built", f"{what} atom {a}")
        if store:
            ctx.check(np.array_equal(g.degrees, h.degrees) and g.rotate == h.rotate and np.array_equal(g.rgrid.points, h.rgrid.points), f"{ctor}-atomic-grid-differs-from-hand-built", f"{what} atom {a}: degrees/rotate/rgrid")


def pinned_constructors():
    rad = {"r0": 0.2, "gaps": [0.4, 0.7, 1.1], "w": [0.3, 0.6, 0.9, 0.5]}
    base = {
        "atoms": [{"z": 8, "xyz": [0.0, 0.0, 0.0]}, {"z": 1, "xyz": [0.0, 1.4, 1.1]}, {"z": 1, "xyz": [0.0, -1.4, 1.1]}],
        "rotate": 37,
        "store": True,
        "aim": "default",
        "dseed": 3,
        "ctor": "from_pruned",
        "radius": 1.3,
        "sectors": [{"r": [0.5, 1.5], "d": [3, 11, 7], "s": [6, 50, 26]}, {"r": [], "d": [9], "s": [38]}, {"r": [1.0], "d": [5, 13], "s": [14, 74]}],
        "dint": 17,
        "sint": 26,
        "rgrid": {"kind": "single", "grids": [rad, rad, rad]},
    }
    out = [
        # regression of the repaired defect (fix: b88dd3f): integer d_sectors, the default d_sectors, integer s_sectors
        dict(base, dmode="int", smode="none"),
        dict(base, dmode="omitted", smode="none"),
        dict(base, dmode="omitted", smode="int"),
        dict(base, dmode="int", smode="int", store=False, radius=[1.0, 0.6, 2.0], rgrid={"kind": "dict", "grids": [rad, dict(rad, r0=0.4), rad]}),
        dict(base, dmode="lists", smode="lists", rgrid={"kind": "list", "grids": [rad, dict(rad, r0=0.5), dict(rad, gaps=[0.2, 0.2, 0.2])]}),
    ]
    # default radial grids through every classmethod that accepts None
    out.append({"atoms": base["atoms"], "rotate": 37, "store": False, "aim": "default", "dseed": 4, "ctor": "from_size", "size": 26, "rgrid": {"kind": "none", "grids": [rad]}})
    out.append(
        {
            "atoms": base["atoms"],
            "rotate": 37,
            "store": True,
            "aim": "default",
            "dseed": 4,
            "ctor": "from_preset",
            "preset": {"kind": "dict", "names": ["sg_1", "medium", "coarse"]},
            "rgrid": {"kind": "none", "grids": [rad, rad, rad]},
        }
    )
    return out


# ---------------------------------------------------------------------------
def selftest():
    becke_ref.selftest()
    assert len(dl.sizes("lebedev")) > 20
    # chain builder honours the minimum distance; region predicate
    links = [{"parent": 0, "dir": [0, 0, 1], "dist": 1.2}, {"parent": 1, "dir": [0, 0, -1], "dist": 1.2}, {"parent": 7, "dir": [0, 0, 0], "dist": 5.0}]
    pos = build_chain(links, [1, 8, 55, 3])
    d = [np.linalg.norm(pos[i] - pos[j]) for i in range(len(pos)) for j in range(i)]
    assert min(d) >= MIN_DIST, d
    assert in_region([(2.5, 2.0, 0.9)]) and not in_region([(2.5, 3.5, 0.9)]) and not in_region([(1.2, 1.3, 0.7)]) and in_region([(1.2, 1.3, 0.5)])
    assert (REGION_COMPRESSION, REGION_RATIO, REGION_DIST, GROSS) == (0.7, 1.8, 3.5, 0.20)  # calibrated together; see above
    pos = build_chain([{"parent": 0, "dir": [1, 0, 0], "dist": 5.0, "rel": 1.0}], [11, 8])
    assert abs(np.linalg.norm(pos[1]) - (bragg_radius(11) + bragg_radius(8))) < 1e-12
    # Gaussians are normalised: a fine radial sum of 4 pi r^2 g(r)
    r = np.linspace(0, 12, 200001)
    for al in (0.3, 3.0, 30.0):
        g = (al / math.pi) ** 1.5 * np.exp(-al * r * r) * 4 * math.pi * r * r
        tot = float(np.sum(0.5 * (g[1:] + g[:-1]) * np.diff(r)))
        assert abs(tot - 1) < 1e-7, tot


def subchecks(tier, seed):
    quick = tier == "quick"
    return [
        SubCheck("structure", body_structure, strategy=structure_strategy(), examples=800 if quick else 20000, cases=pinned_structure(), shards=16),
        SubCheck("constructors", body_constructors, strategy=constructors_strategy(), examples=700 if quick else 16000, cases=pinned_constructors(), shards=16),
        SubCheck("onepercent", body_onepercent, strategy=onepercent_strategy(), examples=1000 if quick else 40000, cases=pinned_onepercent(), shards=16),
    ]
