"""C16 - Poisson solvers reproduce Coulomb potentials of Gaussian charges and are linear; robust solver.

Densities are sums of normalised Gaussians c (a/pi)^{3/2} exp(-a|r-A|^2); the reference potential is the closed form
sum c erf(sqrt(a)|r-A|)/|r-A| (scipy.special.erf; value 2 sqrt(a/pi) at the centre).  Nothing from grid/poisson.py,
grid/robust_poisson.py or grid/coulomb.py is used on the reference side; the fitted core model of the robust solver is
read from the shipped JSON by the harness itself.
"""
import json
import math
import os

import numpy as np
from hypothesis import strategies as st

from ..core import SubCheck

PROPERTY = "C16"
RULE = (
    "one case = a grid descriptor (Becke-transformed GaussLegendre/Trapezoidal radial grid, 60-120 nodes, rmin in "
    "{0,1e-6,1e-4,1e-3}, R in [1,2], angular degree 7..15, random centre; or a 2-centre MolGrid with Becke weights, "
    "Becke order 3, distance 2-4 bohr, degree 13..21) + a density (1-3 normalised Gaussians, |c| in [0.2,1.5], exponent log-uniform in [0.3,4], on the "
    "atom(s) or displaced <= 0.1 bohr) + solver options (include_origin, remove_large_pts, boundary given/inferred, ode "
    "tolerance, AtomGrid vs one-atom MolGrid; IVP: r_interval, method, tolerances; robust: element H/C/N/O/Cl, split2, "
    "density = core model / smooth / core+smooth) + a seed for 200 evaluation points within 4 bohr. non-trivial = more "
    "than one Gaussian, or a displaced/2-centre density, or a non-default option; distinct = distinct descriptor"
)
ASSUMPTIONS = [
    "accuracy envelope: atol 1e-2 * sum|c| (the project's own 1e-2 for a unit charge, scaled by linearity) at points within "
    "4 bohr; with include_origin=False the solver imposes u(r_1)=0 at the first radial node instead of u(0)=0 (documented), "
    "which adds exactly |r_1 V(r_1)|/r to the error model, and points inside the first node are not compared",
    "initial-value solver: compared for r in [0.25,4] only (inward integration carries the mismatch between the quadrature "
    "charge used for the start values and the charge of the splined density as dQ/r; documented difficulty near the origin); "
    "degree 7 and r_start = largest radial node <= 30/50/100 (rounding-level l>0 components grow like (r_start/r)^(l+1); "
    "beyond its last nodes the splined density carries spurious charge); linearity only with rtol=atol=1e-10",
    "linearity: 1e-5 * (|a| sum|c1| + |b| sum|c2|) with the solver's default tolerances (each solve has its own adaptive mesh)",
    "robust solver: exact-core clause 1e-8*(1 + core charge); recombination identity robust = analytic core + "
    "solve_poisson_bvp(rho - rho_core) to 1e-6*scale (split2=False; the harness recomputes the residual, which differs from the "
    "library's by rounding, and the adaptive BVP mesh reacts to that at the level of its own tolerance); smooth densities vs "
    "plain solver/analytic within 1e-2*(sum|c| + core charge)",
    "interpolate_laplacian(analytic potential on the grid) = -4 pi rho for r in [0.3,3.5] within 1e-2 * sum |c| max(1, 4 pi (a/pi)^{3/2})",
    "'didn't converge' ValueError/RuntimeError = inconclusive",
]

TWO_PI = 6.283185307179586
Y00 = 0.5 / math.sqrt(math.pi)
ATOL = 1e-2
LIN_TOL = 1e-5

# ---------------------------------------------------------------------------------------------
# gene-based composite strategies (see c15.py for why: common ranges keep Hypothesis' span mutator from
# collapsing categories to their first alternative)
_U = st.floats(0.0, 1.0, allow_nan=False, width=64)
_I = st.integers(0, 2**31 - 1)


class Genes:
    def __init__(self, draw):
        self.draw = draw

    def f(self, lo, hi):
        return float(lo + (hi - lo) * self.draw(_U))

    def logf(self, lo, hi):
        return float(math.exp(math.log(lo) + (math.log(hi) - math.log(lo)) * self.draw(_U)))

    def n(self, k):
        return int(self.draw(_I) % k)

    def pick(self, seq):
        return seq[self.n(len(seq))]

    def flag(self):
        return bool(self.n(2))


def _g_grid(g, degrees=(7, 9, 11, 13, 15), nmin=60, nmax=120):
    return {
        "oned": g.pick(["GL", "Trap"]),
        "nrad": nmin + g.n(nmax - nmin + 1),
        "rmin": g.pick([0.0, 1e-6, 1e-4, 1e-3]),
        "R": g.f(1.0, 2.0),
        "degree": g.pick(list(degrees)),
        "center": [g.f(-1, 1), g.f(-1, 1), g.f(-1, 1)],
    }


def _g_gauss(g, kmax=3, disp=0.0):
    k = 1 + g.n(kmax)
    out = []
    for _ in range(k):
        d = {"c": g.f(0.2, 1.5) * (1 if g.n(4) else -1), "a": g.logf(0.3, 4.0)}
        if disp > 0:
            v = np.array([g.f(-1, 1), g.f(-1, 1), g.f(-1, 1)])
            nv = float(np.linalg.norm(v)) or 1.0
            d["shift"] = [float(x) for x in v / max(nv, 1.0) * disp]
        out.append(d)
    return out


@st.composite
def _centred_strategy(draw):
    g = Genes(draw)
    grid = _g_grid(g)
    rl = g.pick([10.0, 50.0, 1e6, None]) if grid["oned"] == "GL" else g.pick([10.0, 50.0, 1e6])
    return {
        "grid": grid,
        "gauss": _g_gauss(g),
        "include_origin": g.n(3) > 0,
        "remove_large_pts": rl,
        "boundary_given": g.flag(),
        # a boundary value other than the natural one (incl. exactly 0.0): used when the grid is cut at 10 or 50 bohr and
        # the origin is included, where it shifts the potential by the resolvable amount (B*Y00 - Q)/r_c
        "boundary_other": g.pick([None, None, 0.0, 0.5, -0.25]),
        "ode_tol": g.pick([None, None, 1e-4, 1e-8]),
        "as_molgrid": g.n(4) == 0,
        "pseed": g.n(10**6),
    }


@st.composite
def _ivp_strategy(draw):
    g = Genes(draw)
    # degree 7 (l <= 3) and a start radius <= 100: the inward integration multiplies the rounding-level l > 0 components
    # of a spherical density by (r_start / r)^(l+1); (100/0.1)^4 * 1e-16 stays far below the tolerance, l = 4 from 1000 does not
    grid = _g_grid(g, degrees=(7,))
    lo = g.pick([2e-3, 1e-2, 5e-2])
    return {
        "grid": grid,
        "gauss": _g_gauss(g),
        "r_interval": [g.pick([30.0, 50.0, 100.0]), max(lo, 2 * grid["rmin"])],
        "ode": g.pick([None, None, None, {"method": "RK45"}, {"method": "RK45"}, {"rtol": 1e-10, "atol": 1e-10}, {"rtol": 1e-10, "atol": 1e-10}, {"method": "Radau"}]),
        "as_molgrid": g.n(4) == 0,
        "linear": g.n(3) == 0,
        "ab": [g.f(-2, 2), g.f(-2, 2)],
        "pseed": g.n(10**6),
    }


@st.composite
def _linearity_strategy(draw):
    g = Genes(draw)
    return {
        "grid": _g_grid(g, degrees=(7, 9, 11)),
        "gauss1": _g_gauss(g, kmax=2),
        "gauss2": _g_gauss(g, kmax=2),
        "ab": [g.f(-2, 2), g.f(-2, 2)],
        "include_origin": g.n(3) > 0,
        "remove_large_pts": g.pick([10.0, 1e6]),
        "pseed": g.n(10**6),
    }


def _g_mol(g):
    u = np.array([g.f(-1, 1), g.f(-1, 1), g.f(-1, 1)])
    n = float(np.linalg.norm(u))
    u = u / n if n > 1e-3 else np.array([0.0, 0.0, 1.0])
    return {"dist": g.f(2.0, 4.0), "dir": [float(x) for x in u], "becke_order": 3}


@st.composite
def _displaced_strategy(draw):
    g = Genes(draw)
    mol = g.n(5) < 2
    grid = _g_grid(g, degrees=(13, 15, 17, 21), nmin=70) if mol else _g_grid(g)
    case = {
        "grid": grid,
        "remove_large_pts": g.pick([10.0, 50.0, 1e6]),
        "include_origin": True,
        "ode_tol": g.pick([1e-4, 1e-4, 1e-3]),
        "pseed": g.n(10**6),
    }
    if mol:
        case["mol"] = _g_mol(g)
        case["gaussA"] = _g_gauss(g, kmax=2, disp=0.05 if g.n(3) == 0 else 0.0)
        case["gaussB"] = _g_gauss(g, kmax=2)
    else:
        case["gauss"] = _g_gauss(g, disp=g.pick([0.02, 0.05, 0.1]))
    return case


@st.composite
def _robust_strategy(draw):
    g = Genes(draw)
    mol = g.n(6) == 0
    grid = _g_grid(g, degrees=(11, 13) if mol else (7, 9, 11, 15))
    case = {
        "grid": grid,
        "mode": g.pick(["core", "core", "smooth", "core+smooth"]),
        "z": [g.pick([1, 6, 7, 8, 17])],
        "split2": g.flag(),
        "gauss": _g_gauss(g, kmax=2),
        "remove_large_pts": g.pick([10.0, 1e6]),
        "custom_basis": g.n(4) == 0,
        "pseed": g.n(10**6),
    }
    if mol:
        case["mol"] = _g_mol(g)
        case["z"].append(g.pick([1, 6, 7, 8, 17]))
        case["ode_tol"] = 1e-4
    return case


@st.composite
def _laplacian_strategy(draw):
    g = Genes(draw)
    # >= 80 radial nodes: the second derivative of the radial spline is the least resolved quantity here (measured 0.09 of
    # the bound with 63 nodes and exponent 3.8, 0.03 with >= 80)
    return {"grid": _g_grid(g, nmin=80), "gauss": _g_gauss(g), "as_molgrid": g.n(4) == 0, "pseed": g.n(10**6)}


# ---------------------------------------------------------------------------------------------
# reference side
def _erf(x):
    from scipy.special import erf

    return erf(x)


def rho_ref(points, gauss, centers):
    out = np.zeros(len(points))
    for gs, cen in zip(gauss, centers):
        r2 = np.sum((points - cen) ** 2, axis=1)
        out += gs["c"] * (gs["a"] / math.pi) ** 1.5 * np.exp(-gs["a"] * r2)
    return out


def pot_ref(points, gauss, centers):
    out = np.zeros(len(points))
    for gs, cen in zip(gauss, centers):
        r = np.linalg.norm(points - cen, axis=1)
        safe = np.where(r > 1e-12, r, 1.0)
        out += gs["c"] * np.where(r > 1e-12, _erf(math.sqrt(gs["a"]) * safe) / safe, 2.0 * math.sqrt(gs["a"] / math.pi))
    return out


def _centers(gauss, atom_center):
    return [np.asarray(atom_center, dtype=float) + np.asarray(gs.get("shift", [0.0, 0.0, 0.0])) for gs in gauss]


def _sumabs(gauss):
    return float(sum(abs(gs["c"]) for gs in gauss))


_CORE_CACHE = {}
_SYM = {1: "H", 6: "C", 7: "N", 8: "O", 17: "Cl"}


def core_model(z):
    """Fitted s-Gaussian core model of element z as a gauss list, read from the shipped JSON by the harness."""
    if z not in _CORE_CACHE:
        import grid

        path = os.path.join(os.path.dirname(os.path.abspath(grid.__file__)), "data", "atomic_gauss_params.json")
        with open(path) as fh:
            data = json.load(fh)[_SYM[z]]
        _CORE_CACHE[z] = [{"c": float(c), "a": float(a)} for c, a in zip(data["coeffs_s"], data["alphas_s"])]
    return _CORE_CACHE[z]


def sample_points(center, pseed, n=200, rmax=4.0):
    rng = np.random.default_rng(pseed)
    v = rng.normal(size=(n, 3))
    v /= np.linalg.norm(v, axis=1)[:, None]
    return np.asarray(center, dtype=float) + v * rng.uniform(0.0, rmax, n)[:, None]


# ---------------------------------------------------------------------------------------------
# library objects from descriptors
def build_atomgrid(gd, center=None):
    from grid.atomgrid import AtomGrid
    from grid.onedgrid import GaussLegendre, Trapezoidal
    from grid.rtransform import BeckeRTransform, InverseRTransform

    tf = BeckeRTransform(gd["rmin"], gd["R"])
    oned = GaussLegendre(gd["nrad"]) if gd["oned"] == "GL" else Trapezoidal(gd["nrad"])
    rg = tf.transform_1d_grid(oned)
    cen = np.asarray(gd["center"] if center is None else center, dtype=float)
    return AtomGrid(rg, degrees=[gd["degree"]], center=cen), InverseRTransform(tf)


def one_atom_molgrid(ag):
    from grid.molgrid import MolGrid

    return MolGrid(atnums=np.array([1]), atgrids=[ag], aim_weights=np.ones(ag.size), store=True)


def build_molgrid(gd, mol, atnums=(1, 1)):
    from grid.becke import BeckeWeights
    from grid.molgrid import MolGrid

    c0 = np.asarray(gd["center"], dtype=float)
    c1 = c0 + mol["dist"] * np.asarray(mol["dir"], dtype=float)
    ag0, itf = build_atomgrid(gd, c0)
    ag1, _ = build_atomgrid(gd, c1)
    mg = MolGrid(np.array(list(atnums)), [ag0, ag1], BeckeWeights(order=mol["becke_order"]), store=True)
    return mg, itf, [c0, c1]


def _not_converged(exc):
    return isinstance(exc, (ValueError, RuntimeError)) and "converge" in str(exc)


def _grid_cls(ctx, gd):
    ctx.cls(gd["oned"], f"deg{gd['degree']}", "rmin0" if gd["rmin"] == 0 else "rmin>0")


def _call(ctx, fn):
    """Run a library call; a reported non-convergence is inconclusive."""
    try:
        return fn()
    except Exception as exc:  # noqa: BLE001
        if _not_converged(exc):
            ctx.skip("no convergence")
            return None
        if isinstance(exc, RuntimeError) and "Maximum number of iterations" in str(exc):
            # scipy.optimize.nnls gave up inside the split2 fit (observed for core(O) + two broad Gaussians, GL 103 nodes,
            # default 20-exponent basis): an iteration limit of the fit, reported to the lead, counted separately
            ctx.skip("nnls-no-convergence")
            return None
        raise


# ---------------------------------------------------------------------------------------------
def body_centred(case, ctx):
    from grid.poisson import solve_poisson_bvp

    gd, gauss = case["grid"], case["gauss"]
    ag, itf = build_atomgrid(gd)
    cens = _centers(gauss, ag.center)
    grid = one_atom_molgrid(ag) if case["as_molgrid"] else ag
    q = float(sum(gs["c"] for gs in gauss))
    kw = {"include_origin": bool(case["include_origin"]), "remove_large_pts": case["remove_large_pts"]}
    if case["boundary_given"]:
        kw["boundary"] = q / Y00  # limit of u_00 = r V_00: total charge over Y_00 (what the solver infers otherwise)
    shift = 0.0
    other = case.get("boundary_other")
    if other is not None and kw["include_origin"] and case["remove_large_pts"] in (10.0, 50.0):
        # u_00 = r V_00 solves a two-point problem with u(0) = 0 and u(r_c) = B at the outermost radial node kept; the
        # density has decayed there, so a boundary value B instead of Q/Y00 adds the linear term (B - Q/Y00) r / r_c to
        # u_00, i.e. the constant (B*Y00 - Q)/r_c to the potential.  B = 0.0 is a value like any other.
        nodes = np.asarray(ag.rgrid.points, dtype=float)
        r_c = float(np.max(nodes[nodes <= case["remove_large_pts"]]))
        amin = min(float(gs["a"]) for gs in gauss)
        if r_c > 4.0 and math.erfc(math.sqrt(amin) * (r_c - 0.2)) < 1e-6:
            b_val = float(other) * q / Y00
            kw["boundary"] = b_val
            shift = (b_val * Y00 - q) / r_c
            ctx.cls("boundary-other:" + ("zero" if b_val == 0.0 else "scaled"))
    if case["ode_tol"] is not None:
        kw["ode_params"] = {"tol": case["ode_tol"]}
    _grid_cls(ctx, gd)
    ctx.cls(
        "origin" if kw["include_origin"] else "no-origin",
        f"rl={case['remove_large_pts']}",
        "boundary-given" if case["boundary_given"] else "boundary-inferred",
        f"odetol={case['ode_tol']}",
        "molgrid1" if case["as_molgrid"] else "atomgrid",
        f"K{len(gauss)}",
    )
    ctx.nt(len(gauss) > 1 or not kw["include_origin"] or case["boundary_given"] or case["ode_tol"] is not None or case["as_molgrid"])
    v = _call(ctx, lambda: solve_poisson_bvp(grid, rho_ref(grid.points, gauss, cens), itf, **kw))
    if v is None:
        return
    pts = sample_points(ag.center, case["pseed"])
    r = np.linalg.norm(pts - ag.center, axis=1)
    tol = np.full(len(pts), ATOL * _sumabs(gauss))
    r1 = float(np.min(ag.rgrid.points))
    if not kw["include_origin"] and r1 > 0:
        keep = r >= r1
        pts, r, tol = pts[keep], r[keep], tol[keep]
        u1 = abs(r1 * float(pot_ref(ag.center[None, :] + np.array([[r1, 0.0, 0.0]]), gauss, cens)[0]))
        tol = tol + u1 / r
    got = v(pts)
    ref = pot_ref(pts, gauss, cens) + shift
    base = ATOL * _sumabs(gauss)
    ctx.info["ratio"] = float(np.max(np.maximum(np.abs(got - ref) - (tol - base), 0.0)) / base)
    ctx.close(got, ref, tol, "bvp-potential", f"atomic grid, centred density, {kw}")


def body_ivp(case, ctx):
    from grid.poisson import solve_poisson_ivp

    gd, gauss = case["grid"], case["gauss"]
    ag, itf = build_atomgrid(gd)
    cens = _centers(gauss, ag.center)
    grid = one_atom_molgrid(ag) if case["as_molgrid"] else ag
    # start radius: the largest radial node below the drawn cap.  Beyond its last nodes the radial spline of the density is
    # an extrapolation over a huge interval (Trapezoid grids end in ..., 28, 58, 1e16) and carries spurious charge (measured
    # -9e-3 between 58 and 100), so the start must lie on the resolved part of the grid - as in the project's own tests,
    # which start at the largest radial node.
    nodes = np.asarray(ag.rgrid.points)
    inside = nodes[nodes <= case["r_interval"][0]]
    if inside.size == 0 or float(inside.max()) < 8.0:
        ctx.skip("radial grid has no node in [8, cap] to start from")
        return
    ri = (float(inside.max()), float(case["r_interval"][1]))
    ode = dict(case["ode"]) if case["ode"] else None
    _grid_cls(ctx, gd)
    ctx.cls(f"cap={case['r_interval'][0]:g}", f"rend={ri[1]:g}", f"ode={ode}", "molgrid1" if case["as_molgrid"] else "atomgrid", f"K{len(gauss)}", "linear" if case["linear"] else "single")
    ctx.nt(len(gauss) > 1 or ode is not None or case["as_molgrid"])
    pts = sample_points(ag.center, case["pseed"])
    r = np.linalg.norm(pts - ag.center, axis=1)
    pts = pts[r >= max(0.25, 2 * ri[1])]
    v = _call(ctx, lambda: solve_poisson_ivp(grid, rho_ref(grid.points, gauss, cens), itf, r_interval=ri, ode_params=ode))
    if v is None:
        return
    got = v(pts)
    ref = pot_ref(pts, gauss, cens)
    tol = ATOL * _sumabs(gauss)
    ctx.info["ratio"] = float(np.max(np.abs(got - ref)) / tol)
    ctx.close(got, ref, tol, "ivp-potential", f"atomic grid, centred density, r_interval={ri}, ode={ode}")
    tight = bool(ode) and ode.get("rtol", 1.0) <= 1e-10
    if case["linear"] and len(gauss) > 1 and tight:
        a, b = case["ab"]
        g1, g2 = gauss[:1], gauss[1:]
        v1 = _call(ctx, lambda: solve_poisson_ivp(grid, rho_ref(grid.points, g1, cens[:1]), itf, r_interval=ri, ode_params=ode))
        v2 = _call(ctx, lambda: solve_poisson_ivp(grid, rho_ref(grid.points, g2, cens[1:]), itf, r_interval=ri, ode_params=ode))
        vc = _call(ctx, lambda: solve_poisson_ivp(grid, a * rho_ref(grid.points, g1, cens[:1]) + b * rho_ref(grid.points, g2, cens[1:]), itf, r_interval=ri, ode_params=ode))
        if v1 is None or v2 is None or vc is None:
            return
        scale = abs(a) * _sumabs(g1) + abs(b) * _sumabs(g2) + 1e-300
        # only with tight solver tolerances: the step-size control is nonlinear in the data and its default atol=1e-6,
        # amplified by the 1/r mode (r_start/r), is already 1e-4
        lt = LIN_TOL * scale
        d = vc(pts) - (a * v1(pts) + b * v2(pts))
        ctx.info["lin"] = float(np.max(np.abs(d)) / lt)
        ctx.close(vc(pts), a * v1(pts) + b * v2(pts), lt, "ivp-linearity", "V[a rho1 + b rho2] vs a V[rho1] + b V[rho2]")


def body_linearity(case, ctx):
    from grid.poisson import solve_poisson_bvp

    gd = case["grid"]
    ag, itf = build_atomgrid(gd)
    g1, g2 = case["gauss1"], case["gauss2"]
    c1, c2 = _centers(g1, ag.center), _centers(g2, ag.center)
    a, b = case["ab"]
    kw = {"include_origin": bool(case["include_origin"]), "remove_large_pts": case["remove_large_pts"]}
    displaced = any("shift" in gs for gs in g1 + g2)
    _grid_cls(ctx, gd)
    ctx.cls("displaced" if displaced else "centred", "origin" if kw["include_origin"] else "no-origin")
    ctx.nt()
    r1 = rho_ref(ag.points, g1, c1)
    r2 = rho_ref(ag.points, g2, c2)
    v1 = _call(ctx, lambda: solve_poisson_bvp(ag, r1, itf, **kw))
    v2 = _call(ctx, lambda: solve_poisson_bvp(ag, r2, itf, **kw))
    vc = _call(ctx, lambda: solve_poisson_bvp(ag, a * r1 + b * r2, itf, **kw))
    if v1 is None or v2 is None or vc is None:
        return
    pts = sample_points(ag.center, case["pseed"])
    r = np.linalg.norm(pts - ag.center, axis=1)
    rmin_cmp = float(np.min(ag.rgrid.points)) if not kw["include_origin"] else 0.0
    pts = pts[r >= max(rmin_cmp, 1e-3)]
    scale = abs(a) * _sumabs(g1) + abs(b) * _sumabs(g2) + 1e-300
    got, ref = vc(pts), a * v1(pts) + b * v2(pts)
    ctx.info["ratio"] = float(np.max(np.abs(got - ref)) / (LIN_TOL * scale))
    ctx.close(got, ref, LIN_TOL * scale, "bvp-linearity", f"V[a rho1 + b rho2] vs a V[rho1] + b V[rho2], a={a}, b={b}")


def body_displaced(case, ctx):
    from grid.poisson import solve_poisson_bvp

    gd = case["grid"]
    kw = {"include_origin": True, "remove_large_pts": case["remove_large_pts"]}
    if case["ode_tol"] is not None:
        kw["ode_params"] = {"tol": case["ode_tol"]}
    _grid_cls(ctx, gd)
    ctx.cls(f"odetol={case['ode_tol']}")
    ctx.nt()
    if "mol" in case:
        mg, itf, atoms = build_molgrid(gd, case["mol"])
        gauss = case["gaussA"] + case["gaussB"]
        cens = _centers(case["gaussA"], atoms[0]) + _centers(case["gaussB"], atoms[1])
        ctx.cls("2-centre", "dist<2.5" if case["mol"]["dist"] < 2.5 else "dist>=2.5", f"becke{case['mol']['becke_order']}")
        grid, origin = mg, 0.5 * (atoms[0] + atoms[1])
        what = f"2-centre MolGrid dist={case['mol']['dist']:.2f}"
    else:
        ag, itf = build_atomgrid(gd)
        gauss = case["gauss"]
        cens = _centers(gauss, ag.center)
        grid, origin = ag, ag.center
        d = max(float(np.linalg.norm(gs["shift"])) for gs in gauss)
        ctx.cls("1-centre", "shift<=0.05" if d <= 0.05 else "shift>0.05")
        what = f"atomic grid, charges displaced <= {d:.3f}"
    v = _call(ctx, lambda: solve_poisson_bvp(grid, rho_ref(grid.points, gauss, cens), itf, **kw))
    if v is None:
        return
    pts = sample_points(origin, case["pseed"])
    got, ref = v(pts), pot_ref(pts, gauss, cens)
    tol = ATOL * _sumabs(gauss)
    ctx.info["ratio"] = float(np.max(np.abs(got - ref)) / tol)
    ctx.close(got, ref, tol, "bvp-potential-anisotropic", what)
    # the returned potential is a function of the points: asked again for the very same points it gives the very same
    # numbers, and the array it handed out the first time has not changed meanwhile
    first = np.array(got, dtype=float)
    again = np.asarray(v(pts), dtype=float)
    ctx.check(np.array_equal(again, first), "potential-evaluation-depends-on-history", f"{what}: second evaluation at the same points differs by up to {float(np.max(np.abs(again - first))):.3e}")
    ctx.check(np.array_equal(np.asarray(got, dtype=float), first), "potential-evaluation-depends-on-history", f"{what}: the array returned by the first evaluation changed after the second evaluation")


def body_robust(case, ctx):
    from grid.poisson import solve_poisson_bvp
    from grid.robust_poisson import solve_poisson_robust

    gd, zs, mode, split2 = case["grid"], case["z"], case["mode"], bool(case["split2"])
    bkw = {"remove_large_pts": case["remove_large_pts"]}
    if case.get("ode_tol"):
        bkw["ode_params"] = {"tol": case["ode_tol"]}
    if "mol" in case:
        grid, itf, atoms = build_molgrid(gd, case["mol"], atnums=zs)
        ctx.cls("2-centre")
    else:
        grid, itf = build_atomgrid(gd)
        atoms = [grid.center]
        ctx.cls("1-centre")
    _grid_cls(ctx, gd)
    ctx.cls(mode, "split2" if split2 else "split1", *[f"Z{z}" for z in zs])
    ctx.nt()
    core_g, core_c = [], []
    for z, at in zip(zs, atoms):
        cm = core_model(z)
        core_g += cm
        core_c += [np.asarray(at, dtype=float)] * len(cm)
    smooth_g = case["gauss"]
    smooth_c = _centers(smooth_g, atoms[0])
    dens = np.zeros(grid.size)
    ref_g, ref_c = [], []
    if mode in ("core", "core+smooth"):
        dens += rho_ref(grid.points, core_g, core_c)
        ref_g, ref_c = ref_g + core_g, ref_c + core_c
    if mode in ("smooth", "core+smooth"):
        dens += rho_ref(grid.points, smooth_g, smooth_c)
        ref_g, ref_c = ref_g + smooth_g, ref_c + smooth_c
    rkw = dict(bkw)
    if split2 and case["custom_basis"]:
        rkw["alphas_basis"] = np.geomspace(0.1, 100.0, 8)
        ctx.cls("custom-basis")
    atnums, atcoords = np.array(zs), np.array(atoms)
    vr = _call(ctx, lambda: solve_poisson_robust(grid, dens, itf, atnums, atcoords, split2=split2, **rkw))
    if vr is None:
        return
    origin = np.mean(np.array(atoms), axis=0)
    pts = sample_points(origin, case["pseed"], rmax=3.0)
    got, ref = vr(pts), pot_ref(pts, ref_g, ref_c)
    core_charge = _sumabs(core_g)
    if mode == "core":
        # the density IS the fitted core model: the residual is zero and the answer is the closed form
        tol = 1e-8 * (1.0 + core_charge)
        ctx.info["ratio"] = float(np.max(np.abs(got - ref)) / tol)
        ctx.close(got, ref, tol, "robust-exact-core", f"Z={zs} split2={split2}")
        return
    tol = ATOL * (_sumabs(smooth_g) + core_charge)
    ctx.info["ratio"] = float(np.max(np.abs(got - ref)) / tol)
    ctx.close(got, ref, tol, "robust-vs-analytic", f"{mode} Z={zs} split2={split2}")
    if mode == "smooth":
        vp = _call(ctx, lambda: solve_poisson_bvp(grid, dens, itf, **bkw))
        if vp is None:
            return
        ctx.close(got, vp(pts), tol, "robust-vs-plain", f"smooth density, Z={zs} split2={split2}")
    if not split2:
        # statement: robust = analytic core potential + numerical potential of the residual
        resid = dens - rho_ref(grid.points, core_g, core_c)
        vres = _call(ctx, lambda: solve_poisson_bvp(grid, resid, itf, **bkw))
        if vres is None:
            return
        want = pot_ref(pts, core_g, core_c) + vres(pts)
        rtol = 1e-6 * (1.0 + core_charge + _sumabs(smooth_g))
        ctx.info["decomp"] = float(np.max(np.abs(got - want)) / rtol)
        ctx.close(got, want, rtol, "robust-recombination", f"{mode} Z={zs}")


def body_laplacian(case, ctx):
    from grid.poisson import interpolate_laplacian

    gd, gauss = case["grid"], case["gauss"]
    ag, _ = build_atomgrid(gd)
    cens = _centers(gauss, ag.center)
    grid = one_atom_molgrid(ag) if case["as_molgrid"] else ag
    _grid_cls(ctx, gd)
    ctx.cls(f"K{len(gauss)}", "molgrid1" if case["as_molgrid"] else "atomgrid")
    ctx.nt(len(gauss) > 1 or case["as_molgrid"])
    lap = interpolate_laplacian(grid, pot_ref(grid.points, gauss, cens))
    pts = sample_points(ag.center, case["pseed"], rmax=3.5)
    r = np.linalg.norm(pts - ag.center, axis=1)
    pts = pts[r >= 0.3]
    tol = ATOL * sum(abs(gs["c"]) * max(1.0, 4 * math.pi * (gs["a"] / math.pi) ** 1.5) for gs in gauss)
    got, ref = lap(pts), -4 * math.pi * rho_ref(pts, gauss, cens)
    ctx.info["ratio"] = float(np.max(np.abs(got - ref)) / tol)
    ctx.close(got, ref, tol, "laplacian-of-potential", "interpolate_laplacian(analytic V) vs -4 pi rho")


# ---------------------------------------------------------------------------------------------
def _pinned_linearity():
    """Displaced charges with the default ODE tolerance (10-30 s per solve): a few in every tier."""
    out = []
    for i, (deg, nrad, oned) in enumerate([(7, 70, "GL"), (9, 90, "Trap"), (7, 110, "GL"), (11, 64, "GL")]):
        out.append(
            {
                "grid": {"oned": oned, "nrad": nrad, "rmin": [1e-4, 0.0, 1e-6, 1e-3][i], "R": 1.2 + 0.2 * i, "degree": deg, "center": [0.3, -0.2 * i, 0.1]},
                "gauss1": [{"c": 1.0, "a": 0.8 + 0.4 * i, "shift": [0.05, 0.0, -0.03]}],
                "gauss2": [{"c": -0.6, "a": 2.5 - 0.5 * i, "shift": [0.0, -0.06, 0.04]}, {"c": 0.9, "a": 0.5, "shift": [0.0, 0.0, 0.0]}],
                "ab": [1.3, -0.7 + 0.5 * i],
                "include_origin": True,
                "remove_large_pts": 10.0,
                "pseed": 100 + i,
            }
        )
    return out


def _pinned_displaced():
    """Default ODE tolerance (1e-6), the configuration of the project's own tests; expensive."""
    out = []
    for i in range(4):
        out.append(
            {
                "grid": {"oned": "GL", "nrad": 80 + 10 * i, "rmin": 1e-5, "R": 1.5, "degree": [7, 11, 9, 15][i], "center": [0.1 * i, 0.2, -0.3]},
                "remove_large_pts": 10.0,
                "include_origin": True,
                "ode_tol": None,
                "pseed": 7 + i,
                "gauss": [{"c": 1.0, "a": 0.7 + i, "shift": [0.06, -0.02, 0.03]}, {"c": 0.5, "a": 2.0, "shift": [-0.03, 0.05, 0.0]}],
            }
        )
    out.append(
        {
            "grid": {"oned": "GL", "nrad": 100, "rmin": 1e-5, "R": 1.5, "degree": 11, "center": [0.0, 0.0, 0.0]},
            "remove_large_pts": 10.0,
            "include_origin": True,
            "ode_tol": None,
            "pseed": 3,
            "mol": {"dist": 2.6, "dir": [0.6, 0.0, 0.8], "becke_order": 3},
            "gaussA": [{"c": 1.0, "a": 1.1}],
            "gaussB": [{"c": 0.7, "a": 0.6}],
        }
    )
    return out


def _pinned_robust():
    """Observation kept on record: scipy.optimize.nnls hits its iteration limit inside the split2 fit for this ordinary
    density (core model of O + two broad Gaussians); the library does not catch the RuntimeError.  Counted as
    'nnls-no-convergence' (inconclusive) on every run; if the library starts handling it the case is simply compared."""
    return [
        {
            "grid": {"oned": "GL", "nrad": 103, "rmin": 0.001, "R": 1.1366565141130205, "degree": 11,
                     "center": [0.2935721539531715, -0.45319237938616996, -0.21033159567334825]},
            "mode": "core+smooth",
            "z": [8],
            "split2": True,
            "gauss": [{"c": 0.2, "a": 0.5732656753226201}, {"c": 0.2, "a": 0.3}],
            "remove_large_pts": 1000000.0,
            "custom_basis": False,
            "pseed": 502,
        }
    ]


def selftest():
    # the closed forms: -laplace(erf(sqrt(a) r)/r) = 4 pi (a/pi)^{3/2} exp(-a r^2), by 30-digit differentiation
    import mpmath

    mpmath.mp.dps = 30
    a, r0 = mpmath.mpf("1.7"), mpmath.mpf("0.9")
    u = lambda r: mpmath.erf(mpmath.sqrt(a) * r)  # noqa: E731  (u = r V)
    lap = mpmath.diff(u, r0, 2) / r0
    rho = (a / mpmath.pi) ** 1.5 * mpmath.exp(-a * r0**2)
    assert abs(lap + 4 * mpmath.pi * rho) < 1e-20
    g = [{"c": 1.0, "a": 1.7}]
    p = np.array([[0.9, 0.0, 0.0], [0.0, 0.0, 0.0]])
    assert abs(pot_ref(p, g, [np.zeros(3)])[0] - float(mpmath.erf(mpmath.sqrt(a) * r0) / r0)) < 1e-14
    assert abs(pot_ref(p, g, [np.zeros(3)])[1] - 2 * math.sqrt(1.7 / math.pi)) < 1e-14
    assert abs(rho_ref(p, g, [np.zeros(3)])[0] - float(rho)) < 1e-15
    pts = sample_points([0.0, 0.0, 0.0], 1)
    assert pts.shape == (200, 3) and np.max(np.linalg.norm(pts, axis=1)) <= 4.0


def subchecks(tier, seed):
    q = tier == "quick"
    return [
        SubCheck("bvp_centred", body_centred, strategy=_centred_strategy(), examples=600 if q else 6000, shards=16, budget_s=200 if q else 1500),
        SubCheck("ivp_centred", body_ivp, strategy=_ivp_strategy(), examples=200 if q else 2000, shards=16, shrink=False, budget_s=200 if q else 1500),
        SubCheck("linearity", body_linearity, strategy=_linearity_strategy(), examples=160 if q else 1600, cases=_pinned_linearity()[: 2 if q else 4],
                 shards=16, shrink=False, budget_s=200 if q else 1500),
        SubCheck("bvp_displaced", body_displaced, strategy=_displaced_strategy(), examples=96 if q else 960, cases=[c for i, c in enumerate(_pinned_displaced()) if (not q) or i in (0, 1, 4)],
                 shards=16, shrink=False, budget_s=200 if q else 1500),
        SubCheck("robust", body_robust, strategy=_robust_strategy(), examples=160 if q else 1600, cases=_pinned_robust(), shards=16, shrink=False, budget_s=200 if q else 1500),
        SubCheck("laplacian", body_laplacian, strategy=_laplacian_strategy(), examples=320 if q else 3200, shards=16, budget_s=100 if q else 600),
    ]
