"""C09 - harmonic decomposition / interpolation on atomic grids is exact when band-limited.

Oracle: the band-limited function f = sum_k g_k(r) Y_k is built with the independent harmonics of
pbt.oracles.sph (documented convention and Horton-2 order) on the directions (p-c)/|p-c| of the grid
points, so every "exact" clause has a closed-form right-hand side (sqrt(4 pi) g_00(r_i), g_k(r_i), 0,
f itself).  The self-consistency clauses compare the interpolant with sum_k spline_k(r) Y_k (splines
as returned by radial_component_splines, my harmonics, my spherical coordinates) and its reported
derivatives with central differences of the interpolant itself (first order) and with the SciPy
derivatives of the returned splines (radial orders 1-3).
"""
import math

import numpy as np
from hypothesis import strategies as st

from .. import gen_atom as ga
from ..core import EPS, SubCheck
from ..oracles import data_loader as dl
from ..oracles import sph

PROPERTY = "C09"
RULE = (
    "bandlimited: Hypothesis atomic-grid descriptors (4..8 ascending radial nodes, first node exactly 0 / below 1e-8 / "
    "small / ordinary, 4 methods, one degree / per-shell degrees / sizes / pruned sectors, centre None or in [-5,5]^3, "
    "rotate 0 or a seed up to 2^32-n-1) x a coefficient seed that fixes a random band-limited f = sum g_lm(r) Y_lm, "
    "l <= min_i d_i // 2, g_lm = cubic x exponential, random subset of active (l,m), g_lm(0) = 0 for l > 0 when a node "
    "sits at r = 0, x evaluation points (random offsets, the centre, exact +z/-z axis, 1e-11 rad off the axis (inside the "
    "library's pole test), 1e-9/1e-6/1e-3 rad off the axis, grid points, points on a shell radius, outside the last node); arbitrary: the same grids "
    "with seeded normal data instead of a band-limited f (self-consistency clauses only); molecule: 1..3 such atoms, "
    "random positive or Becke atom-in-molecule weights, seeded data. non-trivial = mixed per-shell degrees or rotate != 0 "
    "or centre != 0 or (bandlimited) active content with l >= 2; distinct = distinct descriptor"
)
RULE = RULE + " " + 'Values are evaluated through a work array that held other points in an earlier call and was re-filled in place.'

ASSUMPTIONS = [
    "pbt.oracles.sph implements the documented real harmonics (self-tested against mpmath); the shipped angular grids are exact to ~3e-12 (C02)",
    "SciPy CubicSpline objects returned by the library are evaluated (values and derivatives) with SciPy itself",
    "at r = 0 the documented canonical angles theta = phi = 0 are used for the value and radial-derivative clauses; Cartesian/spherical first derivatives are not compared at the centre (the interpolant is not differentiable there)",
    "within 1e-10 rad of the z-axis through the centre (the library's pole test) the Cartesian / d-dphi first derivative is the recorded finding KF-C09-axis-gradient (matched by input predicate AND observed-value signature)",
    "pruned descriptors with a node within 1e-9 of a sector boundary are skipped as ambiguous",
    "third radial derivatives are not compared within 1e-9 of a spline knot (discontinuous there)",
]

EXACT = 1e-9  # "exact" clauses: limited by the accuracy of the shipped angular data (C02: <= 3.3e-12)
ARITH = 1e3  # pure re-arrangements: 1e3*eps*condition scale
FD_REL = 1e-6
AXIS_SIN = 1.001e-10  # rho/r below this: the library's own pole tests (|phi| < 1e-10, |tan phi| < 1e-10) may fire


# ---------------------------------------------------------------------------------------------
def _lm_rows(lmax):
    ls = []
    for l in range(lmax + 1):
        ls += [l] * (2 * l + 1)
    return np.array(ls, dtype=int)


def _norms(lmax):
    ls = _lm_rows(lmax)
    return ls, np.sqrt((2.0 * ls + 1.0) / (4.0 * math.pi))


def _dirs(d):
    """(r, unit vectors) of offsets d; the zero vector gets the canonical north-pole direction."""
    rad = np.sqrt(np.sum(d * d, axis=1))
    unit = np.zeros_like(d)
    nz = rad > 0
    unit[nz] = d[nz] / rad[nz, None]
    unit[~nz] = np.array([0.0, 0.0, 1.0])
    return rad, unit


def _atom_strategy(tier):
    nmax = 8 if tier == "quick" else 10
    return ga.atom(nmin=4, nmax=nmax, small=True, routes=["const", "const", "list", "list", "sizes", "pruned-d", "pruned-s"], min_gap=0.1)


def _points_strategy():
    one = st.one_of(
        st.fixed_dictionaries({"kind": st.just("random"), "v": st.lists(st.floats(-1.0, 1.0), min_size=3, max_size=3), "rho": st.floats(0.02, 1.2)}),
        st.fixed_dictionaries({"kind": st.just("random"), "v": st.lists(st.floats(-1.0, 1.0), min_size=3, max_size=3), "rho": st.floats(0.02, 1.2)}),
        st.fixed_dictionaries({"kind": st.just("centre")}),
        st.fixed_dictionaries({"kind": st.sampled_from(["axis+", "axis-"]), "rho": st.floats(0.02, 1.2)}),
        st.fixed_dictionaries({"kind": st.sampled_from(["near-axis+", "near-axis-"]), "rho": st.floats(0.02, 1.2), "az": st.floats(-3.1, 3.1)}),
        st.fixed_dictionaries({"kind": st.sampled_from(["close-axis+", "close-axis-"]), "rho": st.floats(0.02, 1.2), "az": st.floats(-3.1, 3.1), "t": st.sampled_from([1e-9, 1e-6, 1e-3])}),
        st.fixed_dictionaries({"kind": st.just("grid"), "i": st.integers(0, 10**6)}),
        st.fixed_dictionaries({"kind": st.just("knot"), "i": st.integers(0, 20), "v": st.lists(st.floats(-1.0, 1.0), min_size=3, max_size=3)}),
    )
    return st.lists(one, min_size=4, max_size=10)


def _make_points(pdesc, ag, desc):
    """Evaluation points (M,3) and their kinds; rho is a fraction of the largest radial node."""
    c = np.zeros(3) if desc["center"] is None else np.array(desc["center"], dtype=float)
    rmax = float(desc["r"][-1])
    P = np.asarray(ag.points)
    pts, kinds = [], []
    for p in pdesc:
        k = p["kind"]
        if k == "random":
            v = np.array(p["v"], dtype=float)
            nv = float(np.linalg.norm(v))
            if nv < 1e-3:
                v, nv = np.array([0.6, -0.3, 0.5]), float(np.linalg.norm([0.6, -0.3, 0.5]))
            off = v / nv * p["rho"] * rmax
        elif k == "centre":
            off = np.zeros(3)
        elif k in ("axis+", "axis-"):
            off = np.array([0.0, 0.0, (1.0 if k == "axis+" else -1.0) * p["rho"] * rmax])
        elif k.startswith("near-axis") or k.startswith("close-axis"):
            z = (1.0 if k.endswith("+") else -1.0) * p["rho"] * rmax
            t = 1e-11 if k.startswith("near") else p.get("t", 1e-6)
            off = np.array([abs(z) * t * math.cos(p["az"]), abs(z) * t * math.sin(p["az"]), z])
        elif k == "grid":
            off = P[p["i"] % len(P)] - c
        elif k == "knot":
            v = np.array(p["v"], dtype=float)
            nv = float(np.linalg.norm(v))
            if nv < 1e-3:
                v, nv = np.array([0.1, 0.7, -0.5]), float(np.linalg.norm([0.1, 0.7, -0.5]))
            off = v / nv * float(desc["r"][p["i"] % len(desc["r"])])
        else:
            raise ValueError(k)
        pts.append(c + off)
        kinds.append(k)
    return np.array(pts, dtype=float), kinds


# ---------------------------------------------------------------------------------------------
class _Interp:
    """Everything the self-consistency clauses need about one interpolant."""

    def __init__(self, ag, desc, fv):
        self.ag = ag
        self.c = np.zeros(3) if desc["center"] is None else np.array(desc["center"], dtype=float)
        self.cn = float(np.linalg.norm(self.c))
        self.knots = np.array(desc["r"], dtype=float)
        self.lh = int(max(int(d) for d in ag.degrees) // 2)
        self.splines = ag.radial_component_splines(fv)
        # the interpolant is built from a work array that held OTHER data in an earlier interpolate() call on the same
        # grid and was re-filled in place: it must depend on the values, not on the array object
        buf = np.array(fv[::-1], dtype=float) * 0.5 + 0.25
        ag.interpolate(buf)
        buf[...] = fv
        self.func = ag.interpolate(buf)
        self.ls, self.nk = _norms(self.lh)
        # largest third derivative of every spline (piecewise constant: 6 * leading coefficient)
        self.s3max = np.array([6.0 * float(np.max(np.abs(s.c[0]))) for s in self.splines]) if self.splines else np.zeros(0)

    def sval(self, rad, nu=0):
        return np.array([s(rad, nu) for s in self.splines])  # (K, M)

    def model(self, pts, nu=0):
        rad, unit = _dirs(pts - self.c)
        Y = sph.real_sph_harm_xyz(self.lh, unit)
        return np.einsum("km,km->m", self.sval(rad, nu), Y), rad, unit


def _check_count(ctx, it, ag):
    lmax = int(max(int(d) for d in ag.degrees))
    want = (lmax // 2 + 1) ** 2
    if len(it.splines) != want:
        ctx.fail("spline-count", f"{len(it.splines)} radial-component splines, expected (l_max//2+1)^2 = {want} for l_max={lmax}")
        return False
    return True


def check_selfconsistency(ctx, it, pts, kinds, tag=""):
    """Clauses that hold for any data: value = sum spline*Y, derivative modes, at arbitrary points."""
    ag, c, cn, lh = it.ag, it.c, it.cn, it.lh
    M = len(pts)
    d = pts - c
    rad, unit = _dirs(d)
    rho = np.sqrt(d[:, 0] ** 2 + d[:, 1] ** 2)
    at_centre = rad == 0.0
    with np.errstate(divide="ignore", invalid="ignore"):
        on_axis = (~at_centre) & (rho <= AXIS_SIN * rad)
    Y = sph.real_sph_harm_xyz(lh, unit)
    ls, nk = it.ls, it.nk
    s0, s1, s2, s3 = (np.abs(it.sval(rad, nu)) for nu in range(4))
    S0, S1, S2 = it.sval(rad, 0), it.sval(rad, 1), it.sval(rad, 2)
    F0 = np.einsum("k,km->m", nk, s0)
    with np.errstate(divide="ignore", invalid="ignore"):
        dirnoise = np.where(at_centre, 0.0, (lh + 1) * cn / np.where(at_centre, 1.0, rad))
    for k in set(kinds):
        ctx.cls("pt:" + k)

    # -- value -------------------------------------------------------------------------------------
    # evaluated through a work array that held OTHER points in an earlier call and was re-filled in place: the
    # interpolant is a function of the coordinates it is given, not of the array object
    buf = np.array(pts[::-1], dtype=float) * 0.97 + 0.013
    it.func(buf)
    buf[...] = pts
    val = np.asarray(it.func(buf), dtype=float)
    ctx.check(np.array_equal(buf, pts), tag + "evaluation-points-modified", "the interpolant changed the array of evaluation points")
    if val.shape != (M,):
        ctx.fail(tag + "value-shape", f"interpolant returned shape {val.shape} for {M} points")
        return
    ref = np.einsum("km,km->m", S0, Y)
    ctx.close(val, ref, ARITH * EPS * F0 * (1.0 + dirnoise) + 1e-300, tag + "value-not-sum-of-spline-times-harmonic", f"kinds {kinds}")

    # -- radial-only derivatives, orders 1..3 ---------------------------------------------------------
    knot_dist = np.min(np.abs(rad[:, None] - it.knots[None, :]), axis=1)
    for nu, Snu in ((1, S1), (2, S2), (3, it.sval(rad, 3))):
        got = np.asarray(it.func(pts, deriv=nu, only_radial_deriv=True), dtype=float)
        if got.shape != (M,):
            ctx.fail(tag + "radial-deriv-shape", f"order {nu}: shape {got.shape}")
            continue
        refn = np.einsum("km,km->m", Snu, Y)
        Fn = np.einsum("k,km->m", nk, np.abs(Snu))
        tol = ARITH * EPS * Fn * (1.0 + dirnoise) + 1e-300
        # a change of r by one ulp moves the derivative by the next derivative times ulp(r)
        nxt = (s2, s3, np.zeros_like(s3))[nu - 1]
        tol = tol + 8 * EPS * (rad + cn) * np.einsum("k,km->m", nk, nxt)
        sel = np.ones(M, dtype=bool) if nu < 3 else knot_dist > 1e-9
        if np.any(sel):
            ctx.close(got[sel], refn[sel], tol[sel], tag + f"radial-deriv-order-{nu}", f"only_radial_deriv, kinds {[k for k, s in zip(kinds, sel) if s]}")

    # -- first derivatives: Cartesian and spherical vs central differences of the interpolant itself ----
    cart = np.asarray(it.func(pts, deriv=1), dtype=float)
    sphd = np.asarray(it.func(pts, deriv=1, deriv_spherical=True), dtype=float)
    if cart.shape != (M, 3):
        ctx.fail(tag + "cartesian-deriv-shape", f"shape {cart.shape} for {M} points")
        return
    if sphd.shape != (3 * M,):
        ctx.fail(tag + "spherical-deriv-shape", f"shape {sphd.shape} for {M} points")
        return
    sphd = sphd.reshape(3, M).T  # columns d/dr, d/dtheta, d/dphi
    theta = np.arctan2(d[:, 1], d[:, 0])
    phi = np.arctan2(rho, d[:, 2])

    def at(rr, th, ph):
        return c + np.stack([rr * np.sin(ph) * np.cos(th), rr * np.sin(ph) * np.sin(th), rr * np.cos(ph)], axis=1)

    for j in range(M):
        if at_centre[j]:
            ctx.cls("centre:first-derivatives-not-compared")
            continue
        r_j = rad[j]
        lp = ls + 1.0
        f0 = float(F0[j])
        G = float(np.sum(nk * (s1[:, j] + lp / r_j * s0[:, j])))
        F3 = float(np.sum(nk * (it.s3max + 6 * lp / r_j * s2[:, j] + 6 * (lp / r_j) ** 2 * s1[:, j] + 2 * (lp / r_j) ** 3 * s0[:, j])))
        h = min(1e-5, 1e-4 * r_j / (lh + 1))
        noise = 1.0 + (lh + 1) * cn / r_j
        tol_c = FD_REL * G * noise + h * h * F3 + 1e2 * EPS * f0 * (1 + cn / r_j) / h + 1e-300
        pj = pts[j]
        fd = np.zeros(3)
        for a in range(3):
            e = np.zeros(3)
            e[a] = h
            fd[a] = (float(it.func((pj + e)[None, :])[0]) - float(it.func((pj - e)[None, :])[0])) / (2 * h)
        errc = np.abs(cart[j] - fd)
        if on_axis[j]:
            ctx.cls("axis:first-derivative-compared")
            if np.all(errc <= tol_c):
                ctx.cls("axis:cartesian-agrees")
            else:
                # buggy model of KF-C09-axis-gradient: z component right; the tangential part t = (d/dx, d/dy) is
                # returned as 0 (phi == 0: d/dtheta column zeroed and the |m| = 1 pole limit of d/dphi dropped) or as
                # its projection on e_theta = (-sin theta, cos theta) (phi == pi: only the d/dphi limit dropped)
                zero_tol = 1e-9 * G + 1e-300
                e_th = np.array([-math.sin(theta[j]), math.cos(theta[j])])
                model_b = e_th * float(e_th @ fd[:2])
                sig = errc[2] <= tol_c and (
                    bool(np.all(np.abs(cart[j, :2]) <= zero_tol)) or bool(np.all(np.abs(cart[j, :2] - model_b) <= tol_c + zero_tol))
                )
                msg = f"point {pj.tolist()} (offset {d[j].tolist()}): gradient {cart[j].tolist()}, central differences {fd.tolist()}, tol {tol_c:.2e}"
                if sig:
                    ctx.known("KF-C09-axis-gradient", tag + "cartesian-gradient-on-axis", msg)
                else:
                    ctx.fail(tag + "cartesian-gradient-on-axis-other-signature", msg)
        elif not np.all(errc <= tol_c):
            ctx.fail(tag + "cartesian-gradient-not-derivative-of-interpolant", f"kind {kinds[j]} point {pj.tolist()} centre {c.tolist()}: gradient {cart[j].tolist()}, central differences {fd.tolist()}, tol {tol_c:.2e}")
        ctx.info["cart_err_over_tol"] = max(ctx.info.get("cart_err_over_tol", 0.0), 0.0 if on_axis[j] else float(np.max(errc / tol_c)))

        # spherical: move the point along r, theta, phi
        hr = min(1e-5, 1e-4 * r_j)
        ha = 1e-4 / (lh + 1)
        A1 = float(np.sum(nk * lp * s0[:, j]))
        A3 = float(np.sum(nk * lp**3 * s0[:, j]))
        R1 = float(np.sum(nk * s1[:, j]))
        R3 = float(np.sum(nk * it.s3max))
        one = np.ones(1)
        th, ph = theta[j] * one, phi[j] * one
        rr = r_j * one
        fdr = (float(it.func(at(rr + hr, th, ph))[0]) - float(it.func(at(rr - hr, th, ph))[0])) / (2 * hr)
        fdt = (float(it.func(at(rr, th + ha, ph))[0]) - float(it.func(at(rr, th - ha, ph))[0])) / (2 * ha)
        fdp = (float(it.func(at(rr, th, ph + ha))[0]) - float(it.func(at(rr, th, ph - ha))[0])) / (2 * ha)
        rnd = 1e2 * EPS * f0 * (1 + cn / r_j)
        tol_r = FD_REL * (R1 + f0 * 0.0) * noise + hr * hr * R3 + rnd / hr + 1e-300
        tol_a = FD_REL * A1 * noise + ha * ha * A3 + rnd / ha * max(1.0, cn / r_j) + 1e-300
        err_s = np.abs(sphd[j] - np.array([fdr, fdt, fdp]))
        tols = np.array([tol_r, tol_a, tol_a])
        if on_axis[j]:
            if np.all(err_s <= tols):
                ctx.cls("axis:spherical-agrees")
            else:
                sig = err_s[0] <= tol_r and err_s[1] <= tol_a and abs(sphd[j, 2]) <= 1e-9 * A1 + 1e-300
                msg = f"point {pj.tolist()} (offset {d[j].tolist()}): (d/dr, d/dtheta, d/dphi) = {sphd[j].tolist()}, central differences {[fdr, fdt, fdp]}"
                if sig:
                    ctx.known("KF-C09-axis-gradient", tag + "spherical-derivative-on-axis", msg)
                else:
                    ctx.fail(tag + "spherical-derivative-on-axis-other-signature", msg)
        elif not np.all(err_s <= tols):
            ctx.fail(tag + "spherical-derivative-not-derivative-of-interpolant", f"kind {kinds[j]} point {pj.tolist()} centre {c.tolist()}: (d/dr, d/dtheta, d/dphi) = {sphd[j].tolist()}, central differences {[fdr, fdt, fdp]}, tol {tols.tolist()}")
        if not on_axis[j]:
            ctx.info["sph_err_over_tol"] = max(ctx.info.get("sph_err_over_tol", 0.0), float(np.max(err_s / tols)))


def check_average_and_reweighting(ctx, ag, desc, fv, tag=""):
    """sum_i (angular integral)_i r_i^2 w_i = integrate(f); spherical average integrates back (any data)."""
    r = np.array(desc["r"], dtype=float)
    w = np.array(desc["w"], dtype=float)
    W = np.asarray(ag.weights)
    ia = np.asarray(ag.integrate_angular_coordinates(fv), dtype=float)
    if ia.shape != r.shape:
        ctx.fail(tag + "angular-integral-shape", f"{ia.shape} for {len(r)} shells")
        return None
    total = float(ag.integrate(fv))
    cond = float(np.sum(np.abs(W * fv)))
    ctx.close(float(np.sum(ia * r * r * w)), total, ARITH * EPS * cond + 1e-300, tag + "reweighted-angular-integrals-vs-integrate", "sum_i I_i r_i^2 w_i vs integrate(f)")
    avg = ag.spherical_average(fv)
    back = float(np.sum(4.0 * math.pi * np.asarray(avg(r), dtype=float) * r * r * w))
    ctx.close(back, total, ARITH * EPS * cond + 1e-300, tag + "spherical-average-does-not-integrate-back", "sum_i 4 pi avg(r_i) r_i^2 w_i vs integrate(f)")
    return ia


# ---------------------------------------------------------------------------------------------
def _classify(ctx, desc, degs):
    r0 = desc["r"][0]
    c = desc["center"]
    ctx.cls(desc["method"], "route:" + desc["route"])
    ctx.cls("r0:" + ("zero" if r0 == 0.0 else "tiny" if r0 < 1e-8 else "small" if r0 < 0.05 else "ordinary"))
    ctx.cls("centre:" + ("origin" if (c is None or not any(c)) else "off-origin"))
    ctx.cls("rotate:" + ("0" if desc["rotate"] == 0 else "seeded"))
    ctx.cls("degrees:" + ("mixed" if len(set(degs)) > 1 else "uniform"))


def body_bandlimited(case, ctx):
    desc = case["atom"]
    degs, amb = ga.expected_degrees(desc)
    _classify(ctx, desc, degs)
    if amb:
        ctx.skip("radial node within 1e-9 of a sector boundary")
        return
    ag = ga.build(desc)
    degs = [int(d) for d in ag.degrees]  # the statement is in terms of the degrees the shells have
    method = desc["method"]
    r = np.array(desc["r"], dtype=float)
    w = np.array(desc["w"], dtype=float)
    n = len(r)
    c = np.zeros(3) if desc["center"] is None else np.array(desc["center"], dtype=float)
    cn = float(np.linalg.norm(c))
    ind = np.asarray(ag.indices)
    L = min(degs) // 2
    lh = max(degs) // 2
    ctx.cls(f"L:{'0' if L == 0 else '1' if L == 1 else '2-4' if L <= 4 else '5+'}")

    # ---- the band-limited function ------------------------------------------------------------------
    rng = np.random.default_rng(int(case["dseed"]))
    K = (L + 1) ** 2
    lsL = _lm_rows(L)
    coef = rng.normal(size=(K, 4)) * np.array([1.0, 1.0, 0.5, 0.2])
    coef *= (rng.uniform(size=(K, 1)) < case["density"]) | (np.arange(K)[:, None] == int(rng.integers(0, K)))
    coef *= 10.0 ** rng.uniform(-1, 1, size=(K, 1))
    bexp = rng.uniform(0.2, 1.5, size=K)
    if r[0] == 0.0:
        coef[lsL > 0, 0] = 0.0  # single-valued at the centre
    active = np.any(coef != 0.0, axis=1)
    ctx.cls("content:" + ("l>=2" if np.any(active & (lsL >= 2)) else "l<=1"))
    ctx.nt(bool(ga.is_nontrivial(desc, degs) and (len(set(degs)) > 1 or desc["rotate"] != 0 or cn > 0)) or bool(np.any(active & (lsL >= 2))))

    def g(x):  # (K, len(x))
        x = np.asarray(x, dtype=float)
        return (coef[:, 0:1] + coef[:, 1:2] * x + coef[:, 2:3] * x**2 + coef[:, 3:4] * x**3) * np.exp(-bexp[:, None] * x)

    P = np.asarray(ag.points)
    rad_p, unit_p = _dirs(P - c)
    shell_of = np.repeat(np.arange(n), np.diff(ind))
    Yp = sph.real_sph_harm_xyz(L, unit_p)
    gr = g(r)  # (K, n)
    fv = np.einsum("kn,kn->n", gr[:, shell_of], Yp)

    # per-shell condition scale of an angular quadrature sum: ||angular weights||_1 * max |f| on the shell
    S = np.zeros(n)
    for i in range(n):
        uw = dl.load(method, degs[i])[1]
        S[i] = float(np.sum(np.abs(uw))) * (float(np.max(np.abs(fv[ind[i] : ind[i + 1]]))) + float(np.sum(np.abs(gr[:, i]))) / math.sqrt(4 * math.pi))
    with np.errstate(divide="ignore"):
        dirn = np.where(r > 0, 1e2 * EPS * (lh + L + 1) * cn / np.where(r > 0, r, 1.0), 0.0)
    rel = EXACT + dirn  # per shell

    # ---- angular integration, re-weighting, spherical average ---------------------------------------------
    ia = check_average_and_reweighting(ctx, ag, desc, fv)
    if ia is None:
        return
    ctx.close(ia, math.sqrt(4 * math.pi) * gr[0], rel * S + 1e-300, "angular-integral-not-sqrt4pi-g00", f"{method} degrees {degs} r={r.tolist()}")
    analytic_total = math.sqrt(4 * math.pi) * float(np.sum(w * r * r * gr[0]))
    ctx.close(float(ag.integrate(fv)), analytic_total, float(np.sum(w * r * r * rel * S)) + 1e-300, "grid-integral-not-radial-sum", "integrate(f) vs sqrt(4 pi) sum w r^2 g00")

    # ---- radial component splines ----------------------------------------------------------------------------
    it = _Interp(ag, desc, fv)
    if not _check_count(ctx, it, ag):
        return
    ls_h, nk_h = it.ls, it.nk
    sv = it.sval(r)  # (Kh, n)
    want = np.zeros_like(sv)
    want[:K] = gr
    tol = nk_h[:, None] * (rel * S)[None, :] + 1e-300
    ctx.close(sv[:K], want[:K], tol[:K], "spline-misses-g_lm", f"{method} degrees {degs} L={L}: splines at the radial nodes vs g_lm(r_i)")
    if sv.shape[0] > K:
        ctx.close(sv[K:], want[K:], tol[K:], "absent-component-does-not-vanish", f"{method} degrees {degs} L={L} l_max//2={lh}: components above the band limit")
    ctx.info["spline_err_over_tol"] = float(np.max(np.abs(sv - want) / tol))

    # ---- interpolant reproduces f at every grid point ------------------------------------------------------------
    got = np.asarray(it.func(P), dtype=float)
    ptol = (rel * S)[shell_of] * max(1.0, (lh + 1) ** 2 / (4 * math.pi)) + 1e-300
    ctx.close(got, fv, ptol, "interpolant-misses-f-at-grid-points", f"{method} degrees {degs} L={L}")
    ctx.info["gridpoint_err_over_tol"] = float(np.max(np.abs(got - fv) / ptol)) if got.shape == fv.shape else float("nan")

    # ---- self-consistency at arbitrary points ----------------------------------------------------------------------
    pts, kinds = _make_points(case["pts"], ag, desc)
    check_selfconsistency(ctx, it, pts, kinds)


def body_arbitrary(case, ctx):
    desc = case["atom"]
    degs, amb = ga.expected_degrees(desc)
    _classify(ctx, desc, degs)
    if amb:
        ctx.skip("radial node within 1e-9 of a sector boundary")
        return
    ag = ga.build(desc)
    degs = [int(d) for d in ag.degrees]
    c = desc["center"]
    ctx.nt(len(set(degs)) > 1 or desc["rotate"] != 0 or (c is not None and any(c)))
    rng = np.random.default_rng(int(case["dseed"]))
    fv = rng.normal(size=ag.size) * 10.0 ** rng.uniform(-1, 1)
    check_average_and_reweighting(ctx, ag, desc, fv)
    it = _Interp(ag, desc, fv)
    if not _check_count(ctx, it, ag):
        return
    pts, kinds = _make_points(case["pts"], ag, desc)
    check_selfconsistency(ctx, it, pts, kinds)


# ---------------------------------------------------------------------------------------------
def _mol_strategy():
    at = ga.atom(nmin=4, nmax=6, small=True, routes=["const", "list", "sizes", "pruned-d"], allow_tiny=False, min_gap=0.1)
    return st.fixed_dictionaries(
        {
            "atoms": st.one_of(st.lists(at, min_size=1, max_size=1), st.lists(at, min_size=2, max_size=2), st.lists(at, min_size=3, max_size=3), st.lists(at, min_size=2, max_size=3)),
            "centres": st.lists(st.lists(st.floats(-3.0, 3.0), min_size=3, max_size=3), min_size=3, max_size=3),
            "aim": st.sampled_from(["array", "array", "becke"]),
            "store": st.just(True),
            "dseed": st.integers(0, 2**32 - 1),
            "pts": st.lists(st.lists(st.floats(-4.0, 4.0), min_size=3, max_size=3), min_size=2, max_size=6),
            "special": st.lists(st.integers(0, 10**6), min_size=0, max_size=3),
        }
    )


def body_molecule(case, ctx):
    from grid.becke import BeckeWeights
    from grid.molgrid import MolGrid

    descs = [dict(a) for a in case["atoms"]]
    nat = len(descs)
    centres = [list(map(float, case["centres"][i])) for i in range(nat)]
    # keep the nuclei apart (Becke weights are undefined for coincident centres)
    for i in range(nat):
        for j in range(i):
            if np.linalg.norm(np.array(centres[i]) - np.array(centres[j])) < 0.3:
                centres[i][0] += 0.7 * (i + 1)
    ctx.cls(f"atoms:{nat}", "aim:" + case["aim"])
    ags = []
    for dsc, cc in zip(descs, centres):
        dsc["center"] = cc
        _, amb = ga.expected_degrees(dsc)
        if amb:
            ctx.skip("radial node within 1e-9 of a sector boundary")
            return
        ags.append(ga.build(dsc))
    ctx.cls("methods:" + ("mixed" if len({d['method'] for d in descs}) > 1 else "single"))
    ctx.nt(nat >= 2)
    rng = np.random.default_rng(int(case["dseed"]))
    size = sum(a.size for a in ags)
    atnums = np.array([1, 8, 6][:nat])
    if case["aim"] == "array":
        aim = rng.uniform(0.05, 1.0, size=size)
        mg = MolGrid(atnums, ags, aim.copy(), store=True)
    else:
        mg = MolGrid(atnums, ags, BeckeWeights(order=3), store=True)
        aim = np.asarray(mg.aim_weights, dtype=float).copy()
    fv = rng.normal(size=size)
    fv_copy = fv.copy()
    func = mg.interpolate(fv)
    if not np.array_equal(fv, fv_copy):
        ctx.fail("molecular-interpolate-modified-input", "func_vals changed by MolGrid.interpolate")
    idx = [0]
    for a in ags:
        idx.append(idx[-1] + a.size)
    if [int(v) for v in mg.indices] != idx:
        ctx.fail("molecular-index-table", f"{list(mg.indices)} vs {idx}")
        return
    parts = [ags[a].interpolate((fv_copy * aim)[idx[a] : idx[a + 1]]) for a in range(nat)]
    pts = [np.array(p, dtype=float) for p in case["pts"]]
    allP = np.asarray(mg.points)
    for k, s in enumerate(case["special"]):
        pts.append(np.array(centres[s % nat]) if k == 0 else allP[s % len(allP)])
    pts = np.array(pts)
    modes = [
        ("value", (0, False, False)),
        ("cartesian", (1, False, False)),
        ("spherical", (1, True, False)),
        ("radial-1", (1, False, True)),
        ("radial-2", (2, False, True)),
        ("radial-3", (3, False, True)),
    ]
    for name, args in modes:
        got = np.asarray(func(pts, *args), dtype=float)
        terms = [np.asarray(p(pts, *args), dtype=float) for p in parts]
        ref = sum(terms[1:], terms[0].copy())
        scale = sum(np.abs(t) for t in terms)
        if got.shape != ref.shape:
            ctx.fail("molecular-interpolant-shape", f"{name}: {got.shape} vs {ref.shape}")
            continue
        ctx.close(got, ref, ARITH * EPS * scale + 1e-300, "molecular-interpolant-not-sum-of-atomic", f"mode {name}, {nat} atoms, aim={case['aim']}")


# ---------------------------------------------------------------------------------------------
_PIN_ATOM = {"r": [0.3, 0.7, 1.2, 2.0, 3.1], "w": [1.0, 1.0, 1.0, 1.0, 1.0], "method": "lebedev", "route": "const", "req": [7], "center": None, "rotate": 0, "as_array": False}
PINNED_BAND = [
    # the recorded finding: gradient on the z-axis (pinned so that the KNOWN-FINDING line is printed on every run)
    {"atom": _PIN_ATOM, "dseed": 3, "density": 1.0, "pts": [{"kind": "axis+", "rho": 0.32}, {"kind": "axis-", "rho": 0.32}, {"kind": "near-axis+", "rho": 0.5, "az": 1.0}, {"kind": "random", "v": [0.3, 0.2, 1.0], "rho": 0.4}, {"kind": "centre"}]},
    # node at r = 0, mixed degrees, rotated, off-origin
    {"atom": {"r": [0.0, 0.4, 0.9, 1.7, 2.6], "w": [0.5, 1.0, 0.8, 1.2, 0.4], "method": "lebedev", "route": "list", "req": [5, 9, 13, 7, 9], "center": [0.5, -1.0, 2.0], "rotate": 2**32 - 6, "as_array": True}, "dseed": 11, "density": 0.7, "pts": [{"kind": "grid", "i": 0}, {"kind": "grid", "i": 40}, {"kind": "knot", "i": 2, "v": [0.2, 0.5, -0.4]}, {"kind": "random", "v": [-0.6, 0.1, 0.3], "rho": 1.1}]},
    {"atom": {"r": [1e-9, 0.5, 1.0, 1.5], "w": [1.0, 1.0, 1.0, 1.0], "method": "ahrens_beylkin", "route": "const", "req": [14], "center": None, "rotate": 5, "as_array": False}, "dseed": 5, "density": 0.4, "pts": [{"kind": "random", "v": [0.6, 0.1, 0.3], "rho": 0.5}, {"kind": "close-axis-", "rho": 0.7, "az": 2.0}]},
]


def _band_strategy(tier):
    return st.fixed_dictionaries({"atom": _atom_strategy(tier), "dseed": st.integers(0, 2**32 - 1), "density": st.sampled_from([0.3, 0.6, 1.0]), "pts": _points_strategy()})


def _arb_strategy(tier):
    return st.fixed_dictionaries({"atom": _atom_strategy(tier), "dseed": st.integers(0, 2**32 - 1), "pts": _points_strategy()})


def selftest():
    sph.selftest()
    # the band-limited construction itself: Y_00 = 1/sqrt(4 pi), Horton-2 rows
    y = sph.real_sph_harm_xyz(2, np.array([[0.0, 0.0, 1.0], [1.0, 0.0, 0.0], [0.0, 1.0, 0.0]]))
    assert abs(y[0, 0] - 1 / math.sqrt(4 * math.pi)) < 1e-15
    n1 = math.sqrt(3 / (4 * math.pi))
    assert abs(y[1, 0] - n1) < 1e-15 and abs(y[2, 1] - n1) < 1e-15 and abs(y[3, 2] - n1) < 1e-15  # z, x, y
    assert list(_lm_rows(2)) == [0, 1, 1, 1, 2, 2, 2, 2, 2]


def subchecks(tier, seed):
    quick = tier == "quick"
    return [
        SubCheck("bandlimited", body_bandlimited, strategy=_band_strategy(tier), examples=2500 if quick else 40000, cases=PINNED_BAND, shards=16),
        SubCheck("arbitrary", body_arbitrary, strategy=_arb_strategy(tier), examples=1200 if quick else 20000, shards=16),
        SubCheck("molecule", body_molecule, strategy=_mol_strategy(), examples=800 if quick else 12000, shards=16),
    ]
