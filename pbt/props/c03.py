"""C03 - radial transforms are analytically self-consistent for all parameters.

Oracle: pbt.oracles.rtf_mp - forward and inverse maps typed from the class docstrings in mpmath
(40 digits), every derivative by mp.diff (numerical, orders 1..4); the library's hand-derived
closed forms for deriv/deriv2/deriv3 and the inverse-function-theorem formulas are never reused.

Error model (stated, not a magic atol).  For a value H^(j)(p) (H = forward map F or documented
inverse G, j = 0..3) computed in double precision

    |got - ref| <= RT * max(1, |ref|)  +  CS * eps * ( (|p| + P) * |H^(j+1)(p)|  +  [j>=2] |ref| / d^2  +  K_j )

RT = 1e-9 is the forward relative error allowed (the DESIGN tolerance); the second term is the
effect of a relative perturbation CS*eps (CS = 1e3) of the argument p and of the additive
parameters P that are combined with it before anything else happens (1 for 1+x and 1-x,
|rmin| + R for r - rmin, 1/b for 1 - b x): the backward-error part that no double-precision
evaluation of the documented formula can avoid.  It is what makes x = inverse(transform(x))
unattainable where r'(x) is ~1e-16 (Knowles/Handy with k, m = 6 next to x = -1) without ever
excusing an O(1e-9) relative error at a well-conditioned point.  Points at which the second term
alone exceeds 1e-6 are counted as ill-conditioned and not compared in that direction.  d is the
distance of the [-1,1]-side coordinate from the nearer end: closed forms of the second/third
derivatives are products (1+x)^(m-3) * P(x) whose polynomial factor has a double root at the end
for m = 1 (measured: Handy.deriv3, m = 1, x = -0.999 is off by 1.6e-10 relative, worst-case
rounding bound 2e-9), so d^-2 digits are lost there; the term is 2e-7 at d = 1e-3, 2e-11 at d = 0.1.
K_j is the condition number of H^(j)(p) with respect to a relative change of the input parameters rmax
and b (finite difference of the mpmath model, see _param_variants): derived parameters like
log(rmax/rmin)/log(b+1) (Power; exactly 1 for rmax/rmin = b+1, where deriv2 = deriv3 = 0 is the
difference of nearly equal numbers) or 1 - 2^m + rmax - rmin (HandyMod) cannot be known better than the
inputs.  Measured on the unchanged tree: every error is below 2e-3 of this bound.
"""
import numpy as np
from hypothesis import strategies as st

from ..core import EPS, SubCheck
from ..oracles import rtf_mp as O

mp = O.mp

PROPERTY = "C03"
RULE = (
    "analytic: Hypothesis draws a transform descriptor - one of the 11 direct classes or InverseRTransform of one - with "
    "parameters inside the constructor's admissible set (rmin in {0} U [0,2], R in [0.05,20], sizes in [0.05,40], explicit b "
    "in [1,200] or b >= 0.4 inferred from the first array, k/m integer 1..6 and non-integer in [0.5,6], trim_inf on/off, HandyMod "
    "only with rmax-rmin >= 2^m-1+0.01, Hyperbolic with b*(npoints-1)<1 and x<1/b) and 1..6 interior points (fractions of "
    "the domain of use, incl. the values 1e-3 from each end), fed as one array or - for the methods that accept numbers - "
    "as Python floats; all eight methods (transform, inverse, deriv, deriv2, deriv3, deriv_inverse, deriv2_inverse, "
    "deriv3_inverse), the round trip and monotonicity are compared with the mpmath model. endpoints: same descriptors, the "
    "reference end points (domain ends; 0 and b for the b-scaled maps; 0 for Hyperbolic whose pole is at 1/b) go through "
    "transform. non-trivial = k or m not in {1,2}, or trim_inf off, or a b-scaled map (explicit or inferred b), or scalar "
    "input, or an inverted transform; distinct = distinct descriptor"
)
RULE = RULE + " " + 'Array calls go through one persistent work buffer per length (re-filled in place between calls; inverse-derivative calls repeated on the re-filled buffer, input must stay unmodified); sub-check integer-dtype: int64 arrays of interior points must give the float64 numbers or be rejected loudly.'

ASSUMPTIONS = [
    "the class docstrings of rtransform.py define the maps; the garbled Exp/Power forward docstrings are read as the "
    "functional inverse of the documented inverse, which is also what 'r(0)=rmin, r(b)=rmax' in the same docstring demands",
    "mp.diff at 40 digits is the true derivative (checked against SymPy symbolic derivatives in the oracle self test)",
    "non-integer k, m are admissible because the constructors only demand > 0 and the property quantifies over them",
    "the domain of use of HyperbolicRTransform is [0, 1/b), not the declared (0, inf)",
    "derivative values at the closed end points (where they may be infinite) are outside the statement; only transform is "
    "checked there",
    "inferred b: the documented protocol is followed (the first call is transform on the array), b = max of that array",
]

RT = 1e-9
CS = 1e3
ILL = 1e-6
DELTA = 1e-3  # interior points keep this relative distance from the ends of the domain of use
B_INFERRED_MIN = 0.4  # an inferred b is the largest node of the first grid; every 1D rule on [0, inf) reaches at least 0.45

SCALAR_METHODS = {
    # methods that accept a Python float today (observed; LinearInfinite.deriv* and every Hyperbolic method use x.size)
    "LinearInfinite": ("transform", "inverse"),
    "Hyperbolic": (),
}
ALL_METHODS = ("transform", "inverse", "deriv", "deriv2", "deriv3", "deriv_inverse", "deriv2_inverse", "deriv3_inverse")


def _fl(v):
    return float(v)


def x_points(desc, u, xmax):
    """Interior points of the domain of use from fractions u in [0,1] (floats)."""
    c = desc["cls"]
    if c == "Inverse":
        inner = desc["inner"]
        rf = O.ref(inner)
        xs = x_points(inner, u, xmax)
        out = []
        for x in xs:
            v = O.value(rf.F, O.M(x))
            if v is not None:
                out.append(_fl(v))
        return out
    if c in O.PM1:
        return [-1.0 + DELTA + ui * (2.0 - 2 * DELTA) for ui in u]
    if c == "Identity":
        return [ui * xmax for ui in u]
    if c in O.BSCALED:
        top = 1.5 * desc["b"] if desc["b"] is not None else xmax
        return [ui * top for ui in u]
    if c == "Hyperbolic":
        return [ui * (1.0 - DELTA) / desc["b"] for ui in u]
    raise ValueError(c)


def _classify(case, ctx):
    desc = case["tf"]
    base = O.base_of(desc)
    name = O.name_of(desc)
    ctx.cls(name)
    nt = desc["cls"] == "Inverse" or case.get("scalar", False)
    for key in ("k", "m"):
        if key in base:
            v = base[key]
            ctx.cls("km-integer" if isinstance(v, int) else "km-noninteger")
            nt = nt or v not in (1, 2)
            if v < 1:
                ctx.cls("km-below-1")
    if "trim" in base:
        ctx.cls("trim-on" if base["trim"] else "trim-off")
        nt = nt or not base["trim"]
    if base["cls"] in O.BSCALED:
        ctx.cls("b-inferred" if base["b"] is None else "b-explicit")
        nt = True
    if case.get("scalar"):
        ctx.cls("scalar-input")
    ctx.nt(nt)
    return name


THETA = mp.mpf(2) ** -30


def _param_variants(desc, b):
    """Reference models with one input parameter moved by the relative amount THETA (rmax; b of the b-scaled maps).

    Derived parameters such as log(rmax/rmin)/log(b+1) or 1 - 2^m + rmax - rmin are ill-conditioned functions of
    the inputs when rmax/rmin -> 1 or rmax - rmin -> 2^m - 1; a double-precision evaluation cannot know them better
    than a relative eps of the *inputs* allows.  The change of a reference value under these moves, divided by THETA,
    is its condition number with respect to the parameters."""
    base = O.base_of(desc)
    if base["cls"] not in ("LinearFinite", "HandyMod") + O.BSCALED:
        return []

    def rebuild(mod_base):
        return mod_base if desc["cls"] != "Inverse" else {"cls": "Inverse", "inner": mod_base}

    out = []
    d1 = dict(base)
    d1["rmax"] = O.M(base["rmax"]) * (1 + THETA)
    if "b" in d1 and d1["b"] is None:
        d1["b"] = b
    out.append(O.ref(rebuild(d1)))
    if base["cls"] in O.BSCALED:
        d2 = dict(base)
        bb = O.M(base["b"] if base["b"] is not None else b)
        # Power uses b only through log(b + 1): the sum b + 1 is rounded, which moves b by eps*(b + 1) (matters for an
        # inferred b << 1); Exp and LinearInfinite divide by b
        d2["b"] = (bb + 1) * (1 + THETA) - 1 if base["cls"] == "Power" else bb * (1 + THETA)
        out.append(O.ref(rebuild(d2)))
    return out


def _param_sens(variants, which, point, nominal):
    """sum over the variants of |H_variant^(j)(point) - H^(j)(point)| / THETA for j = 0..3 (H = F or G)."""
    sens = [0.0, 0.0, 0.0, 0.0]
    for v in variants:
        H = getattr(v, which)
        vals = [O.value(H, point)] + O.derivs(H, point, 3)
        for j in range(4):
            if vals[j] is None:
                sens[j] = np.inf
            else:
                sens[j] += float(abs(vals[j] - nominal[j]) / THETA)
    return sens


def _tol(ref, nxt, dp, dist=np.inf, order=0):
    """RT*max(1,|ref|) + CS*eps*(dp*|next derivative| + |ref|/dist^2 for second and third derivatives); the CS part is returned too."""
    sens = CS * EPS * float(dp) * abs(float(nxt))
    if order >= 2 and np.isfinite(dist):
        sens += CS * EPS * abs(float(ref)) / float(dist) ** 2
    return RT * max(1.0, abs(float(ref))) + sens, sens


def _as_array(v, n):
    """Library result as a float array of shape (n,) (constant-derivative classes return np.array(0) or ints for numbers)."""
    a = np.asarray(v, dtype=float)
    if a.ndim == 0:
        a = np.full(n, float(a))
    return a


def body_analytic(case, ctx):
    desc, scalar = case["tf"], bool(case.get("scalar", False))
    name = _classify(case, ctx)
    base = O.base_of(desc)
    if base["cls"] == "HandyMod" and not O.handymod_admissible(base, 0.009):
        ctx.skip("HandyMod with a pole in (-1,1]")
        return
    X = sorted(set(x_points(desc, case["u"], case.get("xmax", 10.0))))
    if base["cls"] == "Hyperbolic":
        X = X[: max(1, int(min(len(X), np.floor(0.999 / base["b"]) + 1)))]
    if not X:
        ctx.skip("no points")
        return
    b = None
    if base["cls"] in O.BSCALED and base["b"] is None:
        b = max(X)
        if not b >= B_INFERRED_MIN:
            ctx.skip("inferred b below 0.4 (zero is a documented ValueError; the scale point of a grid is not tiny)")
            return
    tf = O.build(desc)
    rf = O.ref(desc, b)
    F, G = rf.F, rf.G

    # ---- mpmath reference per point ------------------------------------------------------------------
    variants = _param_variants(desc, b)
    pts = []
    for p in X:
        pm = O.M(p)
        fv = O.value(F, pm)
        fd = O.derivs(F, pm, 4)
        if fv is None or any(d is None for d in fd):
            continue  # the oracle has no reference here (cannot happen at interior points of direct classes)
        dx = abs(pm) + rf.px
        fwd_sens = CS * EPS * float(dx) * abs(float(fd[0]))
        ry = _fl(fv)
        # distance of the [-1,1]-side coordinate from the nearer end (inf for the maps defined on [0, inf))
        side = p if base["cls"] in O.PM1 and desc["cls"] != "Inverse" else (float(fv) if base["cls"] in O.PM1 else None)
        dist = np.inf if side is None else max(min(1.0 + side, 1.0 - side), 1e-150)
        rec = {"p": p, "F": [fv] + fd, "dx": dx, "dist": dist, "fwd_ok": fwd_sens <= ILL * max(1.0, abs(float(fv))), "ry": ry, "inv_ok": False}
        rec["Fps"] = _param_sens(variants, "F", pm, rec["F"]) if variants else [0.0] * 4
        rm = O.M(ry)
        inside = (rm > rf.ylo) and (rm < rf.yhi) and np.isfinite(ry)
        if inside:
            gv = O.value(G, rm)
            gd = O.derivs(G, rm, 4)
            if gv is not None and all(d is not None for d in gd):
                dy = abs(rm) + rf.py
                inv_sens = CS * EPS * float(dy) * abs(float(gd[0]))
                # the *_inverse methods of InverseRTransform go x -> inner.transform(x) -> inner.inverse(.) -> x' before
                # anything is differentiated (documented: d1 = self.deriv(self.inverse(r))): the argument they really see is
                # uncertain by the round trip, eps * (|r| + |rmin| + R) / |r'(x)|
                dy_eff = dy + ((abs(gv) + rf.px) / abs(gd[0]) if desc["cls"] == "Inverse" else 0)
                ok = inv_sens <= ILL * max(1.0, abs(p)) and CS * EPS * float(dy_eff) <= ILL * max(1.0, abs(ry))
                rec.update({"G": [gv] + gd, "dy": dy, "dy_eff": dy_eff, "inv_ok": ok})
                rec["Gps"] = _param_sens(variants, "G", rm, rec["G"]) if variants else [0.0] * 4
        pts.append(rec)
    if not pts:
        ctx.skip("no point with a reference")
        return
    n_ill = sum(1 for r in pts if not (r["fwd_ok"] and r["inv_ok"]))
    if n_ill:
        ctx.cls("has-illconditioned-point")

    okm = SCALAR_METHODS.get(base["cls"], ALL_METHODS)

    bufs = {}

    def call(meth, values):
        """Library call on an array (or point-wise on Python floats) -> float array."""
        if not scalar:
            # one persistent buffer per length: successive calls hand the library the SAME array object with new
            # contents (a caller filling a work array in place); results must depend on the contents only
            buf = bufs.setdefault(len(values), np.empty(len(values), dtype=float))
            buf[...] = np.array(values, dtype=float)
            snap = buf.copy()
            out = _as_array(getattr(tf, meth)(buf), len(values))
            if not np.array_equal(buf, snap, equal_nan=True):
                ctx.fail(f"{name}.{meth}:input-modified", f"{meth} changed its input array in place")
            return out
        out = []
        for v in values:
            r = getattr(tf, meth)(float(v))
            if np.ndim(r) != 0:
                ctx.fail(f"{name}.{meth}:scalar-shape", f"{meth}({v!r}) returned shape {np.shape(r)} for a number")
                r = np.asarray(r).ravel()[0]
            out.append(float(r))
        return np.array(out, dtype=float)

    def usable(meth):
        return (not scalar) or (meth in okm)

    # the documented protocol for an inferred b: the first thing the transform sees is the array to transform
    if b is not None:
        tf.transform(np.array(X, dtype=float))
    if scalar and not okm:
        ctx.skip("class accepts no numbers")
        return

    # ---- forward direction: transform, deriv, deriv2, deriv3 at x ------------------------------------------
    fw = [r for r in pts if r["fwd_ok"]]
    if fw:
        xs = [r["p"] for r in fw]
        for j, meth in enumerate(("transform", "deriv", "deriv2", "deriv3")):
            if not usable(meth):
                continue
            got = call(meth, xs)
            if got.shape != (len(xs),):
                ctx.fail(f"{name}.{meth}:shape", f"{meth} of {len(xs)} points has shape {got.shape}")
                continue
            ref = np.array([float(r["F"][j]) for r in fw])
            tol = np.array([_tol(r["F"][j], r["F"][j + 1], r["dx"], r["dist"], j)[0] + CS * EPS * r["Fps"][j] for r in fw])
            ctx.close(got, ref, tol, f"{name}.{meth}", f"{name} {desc} {meth} at x={xs}:")
            _track(ctx, got, ref, tol, meth)
            if meth == "transform" and not scalar and len(xs) >= 2:
                # strictly monotone wherever the exact gap is resolvable, never the wrong way by more than rounding
                sgn = 1.0 if rf.increasing else -1.0
                for i in range(len(xs) - 1):
                    gap_ref = sgn * (ref[i + 1] - ref[i])
                    gap = sgn * (got[i + 1] - got[i])
                    slack = tol[i] + tol[i + 1]
                    if gap_ref > 4 * slack and not gap > 0:
                        ctx.fail(f"{name}.monotone", f"{name} {desc}: transform not {'in' if sgn > 0 else 'de'}creasing between x={xs[i]!r} and {xs[i+1]!r}: {got[i]!r}, {got[i+1]!r}")
                    elif not gap >= -slack:
                        ctx.fail(f"{name}.monotone", f"{name} {desc}: transform goes the wrong way between x={xs[i]!r} and {xs[i+1]!r}: {got[i]!r}, {got[i+1]!r}")

    # ---- round trip inverse(transform(x)) = x --------------------------------------------------------------
    rt = [r for r in pts if r["fwd_ok"] and r["inv_ok"]]
    if rt and usable("transform") and usable("inverse"):
        xs = [r["p"] for r in rt]
        t = call("transform", xs)
        back = call("inverse", list(t))
        tol = np.array([RT * max(1.0, abs(r["p"])) + CS * EPS * (float(r["dx"]) + float(r["dy"]) * abs(float(r["G"][1]))) for r in rt])
        ctx.close(back, np.array(xs), tol, f"{name}.roundtrip", f"{name} {desc} inverse(transform(x)) at x={xs}:")
        _track(ctx, back, np.array(xs), tol, "roundtrip")

    # ---- inverse direction at r = float(F(x)): inverse, deriv_inverse, deriv2_inverse, deriv3_inverse -----------
    iv = [r for r in pts if r["inv_ok"]]
    if iv:
        rs = [r["ry"] for r in iv]
        for j, meth in enumerate(("inverse", "deriv_inverse", "deriv2_inverse", "deriv3_inverse")):
            if not usable(meth):
                continue
            got = call(meth, rs)
            if got.shape != (len(rs),):
                ctx.fail(f"{name}.{meth}:shape", f"{meth} of {len(rs)} points has shape {got.shape}")
                continue
            ref = np.array([float(r["G"][j]) for r in iv])
            tol = np.array([_tol(r["G"][j], r["G"][j + 1], r["dy_eff"] if j else r["dy"], r["dist"], j)[0] + CS * EPS * r["Gps"][j] for r in iv])
            ctx.close(got, ref, tol, f"{name}.{meth}", f"{name} {desc} {meth} at r={rs}:")
            _track(ctx, got, ref, tol, meth)
            if j >= 1 and not scalar and len(rs) >= 2:
                # the same work array refilled with the radii in reverse order: the answer must follow the contents
                got_r = call(meth, rs[::-1])
                ctx.close(got_r, ref[::-1], tol[::-1], f"{name}.{meth}", f"{name} {desc} {meth} on a re-filled array, r={rs[::-1]}:")


def body_intdtype(case, ctx):
    """Metamorphic: an int64 array of points (what np.arange / UniformInteger produce and the library itself feeds to
    the b-scaled transforms) gives the same numbers as the same points in float64 - or is rejected loudly."""
    desc = case["tf"]
    name = _classify(case, ctx)
    base = O.base_of(desc)
    if base["cls"] == "HandyMod" and not O.handymod_admissible(base, 0.009):
        ctx.skip("HandyMod with a pole in (-1,1]")
        return
    tf = O.build(desc)
    lo, hi = (float(v) for v in tf.domain)
    ints = sorted(set(k for k in case["ints"] if lo < k < hi))
    if base["cls"] == "Hyperbolic":
        ints = [k for k in ints if k * base["b"] < 0.999][: max(1, int(np.floor(0.999 / base["b"])))]
    if not ints:
        ctx.skip("no integer strictly inside the domain")
        return
    ctx.nt()
    ctx.cls("int-dtype:" + case["dtype"])
    xi = np.array(ints, dtype=np.int32 if case["dtype"] == "int32" else np.int64)
    xf = np.array(ints, dtype=float)
    if base["cls"] in O.BSCALED and base["b"] is None:
        tf.transform(xf.copy())  # fixes b as documented
    for meth in ("transform", "deriv", "deriv2", "deriv3"):
        want = np.asarray(getattr(tf, meth)(xf.copy()), dtype=float)
        try:
            got = np.asarray(getattr(tf, meth)(xi.copy()), dtype=float)
        except (ValueError, TypeError):
            # a loud rejection of integer input (e.g. NumPy's "Integers to negative integer powers") is a clean
            # refusal; what must not happen is a silently different number
            ctx.cls("int-dtype:rejected-loudly")
            continue
        if got.shape != want.shape:
            ctx.fail(f"{name}.{meth}:int-dtype", f"{meth} of an integer array has shape {got.shape}, of the same floats {want.shape}")
            continue
        both_bad = ~np.isfinite(want) & ~np.isfinite(got)
        ctx.close(np.where(both_bad, 0.0, got), np.where(both_bad, 0.0, want), 1e-13 * (1.0 + np.abs(np.where(both_bad, 0.0, want))), f"{name}.{meth}:int-dtype",
                  f"{name} {desc} {meth}({xi.tolist()} as {case['dtype']}) vs the same points as float64:")


@st.composite
def intdtype_strategy(draw):
    case = draw(case_strategy())
    return {"tf": case["tf"], "u": [], "ints": draw(st.lists(st.integers(-3, 40), min_size=1, max_size=6)) + [0, 1], "dtype": "int64"}


def _track(ctx, got, ref, tol, what=""):
    """Remember the worst error/tolerance ratio of the case (read by the calibration script only)."""
    with np.errstate(invalid="ignore", divide="ignore"):
        ratio = np.max(np.abs(np.asarray(got, dtype=float) - ref) / tol) if len(ref) else 0.0
    if float(ratio) > ctx.info.get("worst_ratio", 0.0):
        ctx.info["worst_ratio"] = float(ratio)
        ctx.info["worst_what"] = what


# -------------------------------------------------------------------------------------------------
def body_endpoints(case, ctx):
    """transform at the reference end points against the documented codomain ends."""
    desc = case["tf"]
    name = _classify(case, ctx)
    base = O.base_of(desc)
    if base["cls"] == "HandyMod" and not O.handymod_admissible(base, 0.009):
        ctx.skip("HandyMod with a pole in (-1,1]")
        return
    tf = O.build(desc)
    b = None
    if base["cls"] in O.BSCALED and base["b"] is None:
        first = [ui * case.get("xmax", 10.0) for ui in case["u"]]
        b = max(first)
        if not b >= B_INFERRED_MIN:
            ctx.skip("inferred b below 0.4 (zero is a documented ValueError; the scale point of a grid is not tiny)")
            return
        tf.transform(np.array(first, dtype=float))  # the array that fixes b
    rf = O.ref(desc, b)
    trim = O.trims(desc)
    inverted = desc["cls"] == "Inverse"

    # declared domain/codomain attributes against the docstring
    if base["cls"] not in ("Hyperbolic",) + O.BSCALED:
        want_dom, want_cod = (rf.xlo, rf.xhi), (rf.ylo, rf.yhi)
        ctx.check(tuple(map(float, tf.domain)) == tuple(map(float, want_dom)), f"{name}.domain-attr", f"{desc}: domain {tf.domain}, documented {want_dom}")
        ctx.check(tuple(map(float, tf.codomain)) == tuple(map(float, want_cod)), f"{name}.codomain-attr", f"{desc}: codomain {tf.codomain}, documented {want_cod}")

    for e, image in sorted(rf.ends.items(), key=lambda kv: float(kv[0])):
        ef = float(e)
        if base["cls"] in O.BSCALED and (np.isinf(ef) or np.isinf(float(image))):
            continue  # the reference points of the b-scaled maps are 0 and b (r(inf) = inf is not a codomain end)
        if base["cls"] == "Hyperbolic" and not inverted and np.isinf(float(image)):
            continue  # the pole 1/b cannot be fed as a floating-point number; r -> inf next to it is seen by `analytic`
        args = [ef]
        if np.isinf(ef) and trim:
            args.append(float(np.sign(ef)) * O.TRIM_VALUE)  # infinity in the representation the inner transform produces
        for arg in args:
            if arg == ef:
                want = float(image)
                if np.isinf(want) and trim and not inverted:
                    want = float(np.sign(want)) * O.TRIM_VALUE
            else:
                refv = O.value(rf.F, O.M(arg))
                if refv is None:
                    continue
                want = float(refv)
            got = _as_array(tf.transform(np.array([arg], dtype=float)), 1)[0]
            tol = 0.0 if np.isinf(want) else RT * max(1.0, abs(want))
            ok = (got == want) if np.isinf(want) else (abs(got - want) <= tol)
            if ok:
                continue
            msg = f"{name} {desc}: transform({arg!r}) = {got!r}, documented end point image {want!r} (tol {tol:.1e})"
            # ---- narrow models of the recorded findings -------------------------------------------------------
            if base["cls"] == "Knowles" and not inverted and ef == 1.0 and O.knowles_end_buggy_model(base, got):
                ctx.known("KF-C03-knowles-end-rounding", f"{name}.endpoint", msg)
            elif np.isnan(got) and inverted and base["cls"] in ("Becke", "Handy", "Hyperbolic") and np.isinf(arg):
                ctx.known("KF-C03-inverse-at-inf-nan", f"{name}.endpoint", msg)
            else:
                ctx.fail(f"{name}.endpoint", msg)

    # HyperbolicRTransform declares domain (0, inf) although its pole is at 1/b
    if base["cls"] == "Hyperbolic" and not inverted:
        d = tuple(map(float, tf.domain))
        if d != (0.0, float(1 / O.M(base["b"]))):
            got = _as_array(tf.transform(np.array([d[1]], dtype=float)), 1)[0]
            if d == (0.0, np.inf) and np.isnan(got):
                ctx.known("KF-C03-hyperbolic-domain", f"{name}.endpoint", f"{desc}: declared domain {tf.domain} but the pole is at 1/b; transform(inf) = {got!r}, codomain end is inf")
            elif not got == np.inf:
                ctx.fail(f"{name}.endpoint", f"{desc}: declared domain {tf.domain}; transform({d[1]!r}) = {got!r}, codomain end is inf")


# -------------------------------------------------------------------------------------------------
def _u_list(min_size=1, max_size=6):
    u = st.one_of(
        st.floats(0.0, 1.0, allow_nan=False, width=64),
        st.sampled_from([0.0, 1.0, 0.5, 0.05, 0.95]),
        st.floats(0.0, 0.02),
        st.floats(0.98, 1.0),
    )
    return st.lists(u, min_size=min_size, max_size=max_size)


@st.composite
def case_strategy(draw, classes=None):
    classes = classes or (O.BASE + ("Inverse",) * 5)
    cls = draw(st.sampled_from(classes))
    n = draw(st.integers(1, 6))
    if cls == "Inverse":
        inner_cls = draw(st.sampled_from(O.BASE))
        inner = draw(O.base_desc(inner_cls, explicit_b=True, hyper_n=n))
        desc = {"cls": "Inverse", "inner": inner}
    else:
        desc = draw(O.base_desc(cls, hyper_n=n))
    u = draw(_u_list(n, n))
    case = {"tf": desc, "u": u, "scalar": draw(st.booleans()) if O.base_of(desc)["cls"] != "Hyperbolic" else False}
    if O.base_of(desc)["cls"] in ("Identity",) + O.BSCALED:
        case["xmax"] = draw(st.one_of(st.floats(1.0, 200.0), st.sampled_from([1.0, 7.0, 29.0])))
    return case


def _no_scalar(case):
    return dict(case, scalar=False)


def pinned_analytic():
    """Regression cases of the repaired HandyMod.deriv3 (0729443: wrong for every m not in {1,2}) and the recon sets."""
    u = [0.15, 0.4, 0.65, 0.9, 0.0, 1.0]
    out = []
    for m in (3, 4, 5, 6, 2.5, 1.5, 0.5, 3.5):
        for rmin, rmax, trim in ((0.3, 0.3 + 2.0**m + 38.7, True), (0.0, 2.0**m + 1.5, False), (1.0, 2.0**m + 80.0, True)):
            out.append({"tf": {"cls": "HandyMod", "rmin": rmin, "rmax": rmax, "m": m, "trim": trim}, "u": u, "scalar": False})
        out.append({"tf": {"cls": "HandyMod", "rmin": 0.3, "rmax": 2.0**m + 20.0, "m": m, "trim": True}, "u": u[:3], "scalar": True})
        out.append({"tf": {"cls": "Inverse", "inner": {"cls": "HandyMod", "rmin": 0.3, "rmax": 2.0**m + 20.0, "m": m, "trim": True}}, "u": u, "scalar": False})
    for km in (1, 2, 3, 4, 2.5):
        out.append({"tf": {"cls": "Knowles", "rmin": 0.3, "R": 1.7, "k": km, "trim": True}, "u": u, "scalar": False})
        out.append({"tf": {"cls": "Handy", "rmin": 0.3, "R": 1.7, "m": km, "trim": True}, "u": u, "scalar": False})
    out.append({"tf": {"cls": "Becke", "rmin": 0.3, "R": 1.7, "trim": True}, "u": u, "scalar": False})
    out.append({"tf": {"cls": "MultiExp", "rmin": 0.3, "R": 1.7, "trim": True}, "u": u, "scalar": False})
    out.append({"tf": {"cls": "LinearFinite", "rmin": 0.3, "rmax": 5.5}, "u": u, "scalar": False})
    for c in O.BSCALED:
        out.append({"tf": {"cls": c, "rmin": 0.3, "rmax": 5.5, "b": 7.0}, "u": u, "scalar": False})
        out.append({"tf": {"cls": c, "rmin": 0.3, "rmax": 5.5, "b": None}, "u": u, "scalar": False, "xmax": 7.0})
    out.append({"tf": {"cls": "Hyperbolic", "a": 0.7, "b": 0.05}, "u": u, "scalar": False})
    out.append({"tf": {"cls": "Identity"}, "u": u, "scalar": False, "xmax": 6.0})
    return out


def pinned_endpoints():
    """One probe per recorded finding (so that its KNOWN-FINDING line is printed on every run) + plain end-point cases."""
    out = [
        {"tf": {"cls": "Knowles", "rmin": 0.0, "R": 1.0, "k": 2.206330315574256, "trim": True}, "u": [0.5]},
        {"tf": {"cls": "Knowles", "rmin": 0.2, "R": 1.0, "k": 4.468185871067449, "trim": False}, "u": [0.5]},
        {"tf": {"cls": "Inverse", "inner": {"cls": "Becke", "rmin": 0.0, "R": 1.5, "trim": False}}, "u": [0.5]},
        {"tf": {"cls": "Inverse", "inner": {"cls": "Handy", "rmin": 0.0, "R": 1.5, "m": 2, "trim": False}}, "u": [0.5]},
        {"tf": {"cls": "Inverse", "inner": {"cls": "Hyperbolic", "a": 0.7, "b": 0.05}}, "u": [0.5]},
        {"tf": {"cls": "Hyperbolic", "a": 0.7, "b": 0.05}, "u": [0.5]},
    ]
    for c in O.BASE:
        for trim in (True, False):
            d = {"Becke": {"rmin": 0.3, "R": 1.7}, "MultiExp": {"rmin": 0.3, "R": 1.7}, "Knowles": {"rmin": 0.3, "R": 1.7, "k": 3},
                 "Handy": {"rmin": 0.3, "R": 1.7, "m": 3}, "HandyMod": {"rmin": 0.3, "rmax": 40.0, "m": 3}, "LinearFinite": {"rmin": 0.3, "rmax": 5.5},
                 "Identity": {}, "LinearInfinite": {"rmin": 0.3, "rmax": 5.5, "b": 7.0}, "Exp": {"rmin": 0.3, "rmax": 5.5, "b": 7.0},
                 "Power": {"rmin": 0.3, "rmax": 5.5, "b": 7.0}, "Hyperbolic": {"a": 0.7, "b": 0.05}}[c]
            desc = dict({"cls": c}, **d)
            if c in O.TRIMMABLE:
                desc["trim"] = trim
            elif not trim:
                continue
            out.append({"tf": desc, "u": [0.5, 1.0], "xmax": 7.0})
            out.append({"tf": {"cls": "Inverse", "inner": desc}, "u": [0.5, 1.0], "xmax": 7.0})
    return out


def selftest():
    O.selftest()
    # the tolerance helper must not be vacuous at a well-conditioned point
    t, s = _tol(O.M(2.0), O.M(3.0), O.M(1.5))
    assert 1.9e-9 < t < 2.1e-9 and s < 1e-11


def subchecks(tier, seed):
    quick = tier == "quick"
    return [
        SubCheck("analytic", body_analytic, strategy=case_strategy(), examples=8000 if quick else 250000, shards=16 if quick else 32),
        SubCheck("endpoints", body_endpoints, strategy=case_strategy().map(_no_scalar), examples=3000 if quick else 40000, shards=16),
        SubCheck("integer-dtype", body_intdtype, strategy=intdtype_strategy(), examples=1500 if quick else 20000, shards=16),
        SubCheck("pinned-analytic", body_analytic, cases=pinned_analytic(), shards=8),
        SubCheck("pinned-endpoints", body_endpoints, cases=pinned_endpoints(), shards=4),
    ]
