"""C17 - closed-form Coulomb potentials of Gaussian densities are exact everywhere.

Oracle: the electrostatic potential of the *documented density*, V(r) = 4pi/r int_0^r rho s^2 ds + 4pi int_r^inf rho s ds,
evaluated by mpmath at 50 digits through incomplete gamma functions (pbt/oracles/coulomb_mp.py; cross-checked
there against direct quadrature, the radial Poisson equation and r V -> Q).  No erf, no formula of grid/coulomb.py.

Sub-checks
  pointwise     library s/p potential vs the mp potential of its documented density for alpha in [1e-6, 1e6] and
                r in {0, [0,1e-12), +-4 ulp around 1e-12, log-uniform 1e-14..1e8, r ~ 1/sqrt(alpha), far field, 1e8..1e300};
                scalar / array / list input; r V = Q in the far field; unnormalised = Q_unnorm x normalised.
  switch        jump of the library value across the small-r switch (0, just below, at, just above 1e-12) < 1e-10 rel.
  poisson_fd    (r V)'' = -4 pi r rho(r) by a second central difference of the float64 library values (no mpmath).
  multicentre   coulomb_potential == sum_k c_k * (library s/p function of |x - R_k|), own distance loop;
                s-only sets additionally vs the mp potential; shipped parameter sets end-to-end.
  loader        every atomic number 1..118 as int / numpy int / symbol spellings: the five shipped sets equal the
                JSON arrays (read here with json.load), others raise ValueError.
"""
import json
import math
import os

import numpy as np
from hypothesis import strategies as st

from ..core import EPS, SubCheck
from ..oracles import coulomb_mp as cm

PROPERTY = "C17"
RULE = (
    "pointwise/switch/poisson_fd: Hypothesis draws (kind s|p, normalised?, alpha = 10^U(-6,6) or an edge value, a list of "
    "radii from the classes zero / below-switch [0,1e-12) / +-4 ulp around 1e-12 / log-uniform 1e-14..1e8 / "
    "x/sqrt(alpha) with x in 1e-3..40 / far field x>=7 / 1e8..1e300, input as scalar, array or list); every case is non-trivial "
    "when at least one radius is compared with the 50-digit mp potential (all are), classes are histogrammed per radius. "
    "multicentre: 1-6 points, 1-4 s centres, 0-3 p centres, signed coefficients, alpha 10^U(-3,3), points optionally "
    "placed on / within 1e-13 of a centre; non-trivial = at least two functions with different exponents or centres. "
    "loader: complete enumeration of atomic numbers 1..118, each as int, numpy integer and 4 symbol spellings; "
    "non-trivial = an element with shipped parameters or the neighbours of one. distinct = distinct descriptor"
)
RULE = RULE + " " + 'loader: the returned arrays are destroyed in place between the seven spellings of the same element.'

ASSUMPTIONS = [
    "mpmath gammainc/gamma/exp at 50 digits (cross-checked in the oracle self-test against mp.quad of the definition and mp.diff)",
    "the documented density in each docstring of grid/coulomb.py is the specification of the function",
    "total charge Q and the documented unnormalised factor coincide because the normalised densities integrate to 1 (checked by mp)",
    "atomic_gauss_params.json read with json.load is the ground truth for the loader; the element table 1..118 is typed in this module",
]

SWITCH = 1e-12  # documented location of the small-r switch (grid/coulomb.py: _R_ZERO_THRESHOLD)
REL = 1e-12  # pointwise error model: |lib - V_mp| <= REL * |V_mp| + TINY   (measured 6e-16: erf/r is a few ulp)
TINY = 4 * 5e-324  # gradual underflow: results below 2.2e-308 (unnormalised, r > 1e293) are only exact to a subnormal ulp

SYMBOLS = (
    "H He Li Be B C N O F Ne Na Mg Al Si P S Cl Ar K Ca Sc Ti V Cr Mn Fe Co Ni Cu Zn Ga Ge As Se Br Kr Rb Sr Y Zr Nb Mo "
    "Tc Ru Rh Pd Ag Cd In Sn Sb Te I Xe Cs Ba La Ce Pr Nd Pm Sm Eu Gd Tb Dy Ho Er Tm Yb Lu Hf Ta W Re Os Ir Pt Au Hg Tl "
    "Pb Bi Po At Rn Fr Ra Ac Th Pa U Np Pu Am Cm Bk Cf Es Fm Md No Lr Rf Db Sg Bh Hs Mt Ds Rg Cn Nh Fl Mc Lv Ts Og"
).split()
assert len(SYMBOLS) == 118


# ---------------------------------------------------------------------------------------------
def _lib(kind):
    from grid.coulomb import coulomb_gaussian_p, coulomb_gaussian_s

    return coulomb_gaussian_s if kind == "s" else coulomb_gaussian_p


def _call(f, r_list, alpha, normalized, mode):
    """Evaluate the library function on the radii in the requested input style -> 1-D float array."""
    if mode == "scalar":
        return np.array([float(np.ravel(f(ri, alpha, normalized=normalized))[0]) for ri in r_list])
    if mode == "scalar-default" and normalized:
        return np.array([float(np.ravel(f(ri, alpha))[0]) for ri in r_list])
    if mode == "list":
        return np.ravel(np.asarray(f(list(r_list), alpha, normalized=normalized), dtype=float))
    # array input: ONE float64 array per list of radii, reused by every later array-mode call with the same radii
    # (other alpha, other normalisation, the other function) - the library must leave it as it was given
    key = tuple(float(v) for v in r_list)
    arr = _SHARED_R.get(key)
    if arr is None:
        if len(_SHARED_R) > 64:
            _SHARED_R.clear()
        arr = _SHARED_R[key] = np.array(r_list, dtype=float)
    out = f(arr, alpha, normalized=normalized)
    if not np.array_equal(arr, np.array(r_list, dtype=float), equal_nan=True):
        changed = arr.copy()
        arr[...] = np.array(r_list, dtype=float)
        raise _InputModified(f"{getattr(f, '__name__', f)} changed its radius array from {list(r_list)} to {changed.tolist()}")
    return np.ravel(np.asarray(out, dtype=float))


_SHARED_R = {}


class _InputModified(Exception):
    pass


def _offset(alpha, r, q):
    """Buggy model of KF-C17-ptype: the library p potential exceeds the true one by 2 sqrt(a/pi) exp(-a r^2) * Q."""
    import mpmath as mp

    with mp.workdps(cm.DPS):
        A = mp.mpf(alpha)
        return 2 * mp.sqrt(A / mp.pi) * mp.exp(-A * mp.mpf(r) ** 2) * q


def _r_class(alpha, r):
    x = math.sqrt(alpha) * r
    if r == 0:
        return "r=0"
    if r < SWITCH:
        return "r<switch"
    if abs(r - SWITCH) <= 8 * np.spacing(SWITCH):
        return "r~switch"
    if x < 1e-3:
        return "x<1e-3"
    if x < 0.3:
        return "x<0.3"
    if x < 3:
        return "x~1"
    if x < 7:
        return "x<7"
    return "far" if r <= 1e8 else "r>1e8"


def _alpha_class(alpha):
    return "alpha<1e-3" if alpha < 1e-3 else "alpha>1e3" if alpha > 1e3 else "alpha 1e-3..1e3"


def _note(ctx, key, value):
    """Measured error level / tolerance (kept in ctx.info; read by the calibration script only)."""
    ctx.info[key] = max(ctx.info.get(key, 0.0), float(value))


def _compare_mp(ctx, kind, normalized, alpha, r, got, tag):
    """One library value against the mp potential; p-type goes through the narrow known-finding matcher."""
    import mpmath as mp

    with mp.workdps(cm.DPS):
        v = cm.potential(kind, normalized, alpha, r)
        diff = mp.mpf(float(got)) - v
        if not np.isfinite(got):
            ctx.fail(f"{kind}-nonfinite", f"{tag}: library returned {got!r}, mp potential {mp.nstr(v, 17)}")
            return
        tol = REL * abs(v) + TINY
        if kind == "s":
            _note(ctx, "s |lib-mp|/tol", float(abs(diff) / tol))
        if abs(diff) <= tol:
            return
        msg = (
            f"{tag}: coulomb_gaussian_{kind}(r={r!r}, alpha={alpha!r}, normalized={normalized}) = {float(got)!r}, "
            f"potential of the documented density = {mp.nstr(v, 17)} (rel. diff {mp.nstr(diff / v, 4)})"
        )
        if kind == "p":
            off = _offset(alpha, r, cm.total_charge("p", normalized, alpha))
            tol_k = REL * (abs(mp.mpf(float(got))) + abs(off)) + TINY
            _note(ctx, "p |lib-mp-offset|/tol", float(abs(diff - off) / tol_k))
            if abs(diff - off) <= tol_k:
                ctx.known("KF-C17-ptype", "p-not-potential-of-documented-density", msg + " = true + 2 sqrt(a/pi) exp(-a r^2) Q")
                return
            ctx.fail("p-not-potential-of-documented-density", msg + f"; NOT the recorded offset {mp.nstr(off, 10)}")
            return
        ctx.fail("s-not-potential-of-documented-density", msg)


# ---------------------------------------------------------------------------------------------
_LOGALPHA = st.floats(-6.0, 6.0).map(lambda e: float(10.0**e))
_EDGEALPHA = st.sampled_from([1e-6, 1e6, 1.0, 0.5, 2.0, 3, 1])
# (one_of removes repeated branches, so the 1:9 weighting goes through an integer draw)
_ALPHA = st.integers(0, 9).flatmap(lambda k: _EDGEALPHA if k == 0 else _LOGALPHA)


def _r_for(alpha):
    ell = 1.0 / math.sqrt(alpha)
    return st.one_of(
        st.just(0.0),
        st.floats(0.0, SWITCH, exclude_max=True),
        st.integers(-4, 4).map(lambda k: float(_ulp_steps(SWITCH, k))),
        st.floats(-14.0, 8.0).map(lambda e: float(10.0**e)),
        st.floats(-3.0, 1.6).map(lambda e: float(10.0**e * ell)),
        st.floats(0.85, 4.0).map(lambda e: float(10.0**e * ell)),
        st.floats(8.0, 300.0).map(lambda e: float(10.0**e)),
    )


def _ulp_steps(x, k):
    y = np.float64(x)
    for _ in range(abs(k)):
        y = np.nextafter(y, np.inf if k > 0 else -np.inf)
    return float(y)


def _pointwise_strategy():
    return _ALPHA.flatmap(
        lambda a: st.fixed_dictionaries(
            {
                "kind": st.sampled_from(["s", "p"]),
                "normalized": st.booleans(),
                "alpha": st.just(a),
                "r": st.lists(_r_for(float(a)), min_size=1, max_size=6),
                "input": st.sampled_from(["scalar", "array", "list", "scalar-default"]),
            }
        )
    )


def body_pointwise(case, ctx):
    import mpmath as mp

    kind, normalized, alpha, rs, mode = case["kind"], case["normalized"], case["alpha"], case["r"], case["input"]
    f = _lib(kind)
    got = _call(f, rs, alpha, normalized, mode)
    ctx.cls(f"{kind}/{'norm' if normalized else 'unnorm'}", f"input:{mode}", _alpha_class(float(alpha)))
    if got.shape != (len(rs),):
        ctx.fail("output-shape", f"{len(rs)} radii in, output shape {got.shape}")
        return
    # scalar and array evaluation agree exactly (the same element-wise formula)
    other = _call(f, rs, alpha, normalized, "array" if mode != "array" else "scalar")
    ctx.close(other, got, 4 * EPS * np.abs(got), "scalar-vs-array", f"{kind} alpha={alpha!r} r={rs}")
    a = float(alpha)
    q = cm.total_charge(kind, normalized, a)
    q_un = cm.total_charge(kind, False, a)
    both = {True: _call(f, rs, alpha, True, "array"), False: _call(f, rs, alpha, False, "array")}
    for i, r in enumerate(rs):
        ctx.cls(_r_class(a, r))
        ctx.nt()
        _compare_mp(ctx, kind, normalized, a, r, got[i], "pointwise")
        # far field: r V(r) = Q as soon as the density beyond r is below 1e-18 of the total
        if math.sqrt(a) * r >= 7.0:
            ctx.close(r * got[i], float(q), 256 * EPS * float(q) + r * TINY, f"{kind}-far-field-charge", f"r*V at r={r!r} alpha={a!r} normalized={normalized}")
        # unnormalised = (charge of the unnormalised density) x normalised
        ref = float(q_un) * both[True][i]
        ctx.close(both[False][i], ref, 256 * EPS * abs(ref) + TINY, f"{kind}-unnormalised-factor", f"r={r!r} alpha={a!r}: factor should be {mp.nstr(q_un, 17)}")


# ---------------------------------------------------------------------------------------------
def _switch_strategy():
    return st.fixed_dictionaries({"kind": st.sampled_from(["s", "p"]), "normalized": st.booleans(), "alpha": _ALPHA})


def body_switch(case, ctx):
    kind, normalized, alpha = case["kind"], case["normalized"], float(case["alpha"])
    f = _lib(kind)
    rs = [0.0, 5e-324, 1e-13, _ulp_steps(SWITCH, -1), SWITCH, _ulp_steps(SWITCH, 1), 2e-12]
    ctx.cls(f"{kind}/{'norm' if normalized else 'unnorm'}")
    ctx.cls(_alpha_class(alpha))
    ctx.nt()
    arr = _call(f, rs, alpha, normalized, "array")
    sca = _call(f, rs, alpha, normalized, "scalar")
    for name, v in (("array", arr), ("scalar", sca)):
        if not np.all(np.isfinite(v)) or np.any(v <= 0):
            ctx.fail(f"{kind}-switch-nonfinite", f"{name} values around the switch: {v.tolist()} alpha={alpha!r}")
            return
        # continuity: all seven values lie within 1e-10 relative of each other (the true variation of V over
        # [0, 2e-12] is alpha r^2/3 <= 1.4e-18 relative for alpha <= 1e6)
        jump = (v.max() - v.min()) / v.max()
        ctx.check(jump < 1e-10, f"{kind}-jump-across-switch", f"{name}: relative jump {jump:.3e} over r={rs}, values {v.tolist()} alpha={alpha!r} normalized={normalized}")
    for r, g in zip(rs, arr):
        _compare_mp(ctx, kind, normalized, alpha, r, g, "switch")


# ---------------------------------------------------------------------------------------------
HX = 2.0**-11  # finite-difference step in units of 1/sqrt(alpha)


def _poisson_strategy():
    return st.fixed_dictionaries(
        {
            "kind": st.sampled_from(["s", "p"]),
            "normalized": st.booleans(),
            "alpha": _ALPHA,
            "x": st.lists(st.floats(0.02, 4.0), min_size=1, max_size=8),
        }
    )


def _doc_density(kind, normalized, alpha, r):
    """The density exactly as written in the docstrings of grid/coulomb.py (float64)."""
    if kind == "s":
        pref = (alpha / math.pi) ** 1.5 if normalized else 1.0
        return pref * np.exp(-alpha * r**2)
    pref = (2.0 / 3.0) * alpha**2.5 / math.pi**1.5 if normalized else 1.0
    return pref * r**2 * np.exp(-alpha * r**2)


def body_poisson(case, ctx):
    kind, normalized, alpha = case["kind"], case["normalized"], float(case["alpha"])
    f = _lib(kind)
    ell = 1.0 / math.sqrt(alpha)
    x = np.array(case["x"], dtype=float)
    r = x * ell
    h = HX * ell
    rm, rp = r - h, r + h
    h_eff = 0.5 * (rp - rm)  # the step actually realised in floating point
    um = rm * _call(f, rm.tolist(), alpha, normalized, "array")
    u0 = r * _call(f, r.tolist(), alpha, normalized, "array")
    up = rp * _call(f, rp.tolist(), alpha, normalized, "array")
    lhs = (up - 2 * u0 + um) / h_eff**2
    rhs = -4 * math.pi * r * _doc_density(kind, normalized, alpha, r)
    q = float(cm.total_charge(kind, normalized, alpha))
    # error model in units of Q*alpha: truncation h^2/12 |g''''| (|g''''| <= 30 for both shapes) + rounding 16 eps / h^2,
    # times 100:  2.4e-7*2.5 + 1.5e-8 = 6e-7  ->  tol 1e-4 (>= 150x)
    tol = 1e-4 * q * alpha
    ctx.cls(f"{kind}/{'norm' if normalized else 'unnorm'}")
    ctx.nt(bool(np.any(np.abs(rhs) > 100 * tol)))
    res = lhs - rhs
    if kind == "s":
        _note(ctx, "s poisson |res|/tol", np.max(np.abs(res)) / tol)
    else:
        _note(ctx, "p poisson |res-model|/tol", np.max(np.abs(res - q * 2 * alpha / math.sqrt(math.pi) * (4 * x**3 - 6 * x) * np.exp(-(x**2)))) / tol)
    bad = np.abs(res) > tol
    if not np.any(bad):
        return
    i = int(np.argmax(np.abs(res)))
    msg = (
        f"(rV)'' = {lhs[i]!r} but -4 pi r rho(r) = {rhs[i]!r} at r={r[i]!r} (x={x[i]!r}), alpha={alpha!r}, "
        f"normalized={normalized}; residual {res[i]:.3e}, tol {tol:.3e}"
    )
    if kind == "p":
        # buggy model: u_lib = u_true + r * 2 sqrt(a/pi) exp(-a r^2) Q  ->  residual = Q 2 a/sqrt(pi) (4x^3 - 6x) exp(-x^2)
        model = q * 2 * alpha / math.sqrt(math.pi) * (4 * x**3 - 6 * x) * np.exp(-(x**2))
        if np.all(np.abs(res - model) <= tol):
            ctx.known("KF-C17-ptype", "p-poisson-residual", msg + " = Laplacian of the recorded 2 sqrt(a/pi) exp(-a r^2) Q offset")
            return
    ctx.fail(f"{kind}-poisson-residual", msg)


# ---------------------------------------------------------------------------------------------
_COORD = st.floats(-3.0, 3.0).map(lambda v: round(v, 6))
_FUNC = st.fixed_dictionaries(
    {
        "center": st.lists(_COORD, min_size=3, max_size=3),
        "coef": st.one_of(st.floats(-3.0, 3.0), st.sampled_from([1.0, -1.0, 0.0, 2.5])),
        "alpha": st.floats(-3.0, 3.0).map(lambda e: float(10.0**e)),
    }
)


def _multi_strategy():
    generic = st.fixed_dictionaries(
        {
            "mode": st.just("generic"),
            "points": st.lists(st.lists(_COORD, min_size=3, max_size=3), min_size=1, max_size=6),
            "s": st.lists(_FUNC, min_size=1, max_size=4),
            "p": st.one_of(st.none(), st.lists(_FUNC, min_size=0, max_size=3)),
            "normalized": st.one_of(st.booleans(), st.just("default")),
            # (point index, function index, displacement): put that point on / next to that centre
            "snap": st.lists(
                st.tuples(st.integers(0, 5), st.integers(0, 6), st.sampled_from([0.0, 1e-13, 9.9e-13, 1e-12, 1.1e-12, 1e-9])),
                min_size=0,
                max_size=3,
            ).map(lambda l: [list(t) for t in l]),
        }
    )
    shipped = st.fixed_dictionaries(
        {
            "mode": st.just("shipped"),
            "elements": st.lists(st.sampled_from(["H", "C", "N", "O", "Cl", 1, 6, 7, 8, 17]), min_size=1, max_size=3),
            "centers": st.lists(st.lists(_COORD, min_size=3, max_size=3), min_size=3, max_size=3),
            "points": st.lists(st.lists(_COORD, min_size=3, max_size=3), min_size=1, max_size=4),
        }
    )
    return st.integers(0, 7).flatmap(lambda k: shipped if k == 0 else generic)


def _dist(p, c):
    return math.sqrt((p[0] - c[0]) ** 2 + (p[1] - c[1]) ** 2 + (p[2] - c[2]) ** 2)


def body_multi(case, ctx):
    import mpmath as mp
    from grid.coulomb import coulomb_gaussian_p, coulomb_gaussian_s, coulomb_potential, load_atomic_gaussian_params

    if case["mode"] == "shipped":
        ctx.cls("shipped-params")
        pts = [list(map(float, p)) for p in case["points"]]
        cs, co, al = [], [], []
        for el, cen in zip(case["elements"], case["centers"]):
            c, a = load_atomic_gaussian_params(el)
            for ci, ai in zip(c, a):
                cs.append(list(map(float, cen)))
                co.append(float(ci))
                al.append(float(ai))
        got = coulomb_potential(np.array(pts), np.array(cs), np.array(co), np.array(al))
        ctx.nt()
        ref, scale = [], []
        with mp.workdps(cm.DPS):
            for p in pts:
                tot, sc = mp.mpf(0), mp.mpf(0)
                for cen, ci, ai in zip(cs, co, al):
                    d = mp.sqrt(sum((mp.mpf(u) - mp.mpf(v)) ** 2 for u, v in zip(p, cen)))
                    # d is not a binary float: evaluate the mp potential at the exact distance
                    v = cm.potential("s", True, ai, d)
                    tot += ci * v
                    sc += abs(ci * v)
                ref.append(float(tot))
                scale.append(float(sc))
        ctx.close(got, ref, 256 * EPS * np.array(scale), "multicentre-shipped-vs-mp", f"elements {case['elements']}")
        return

    pts = [list(map(float, p)) for p in case["points"]]
    sfun = case["s"]
    pfun = case["p"]
    funcs = [("s", f) for f in sfun] + [("p", f) for f in (pfun or [])]
    snapped = False
    for ip, jf, dx in case["snap"]:
        ip %= len(pts)
        cen = funcs[jf % len(funcs)][1]["center"]
        pts[ip] = [float(cen[0]) + dx, float(cen[1]), float(cen[2])]
        snapped = True
    normalized = case["normalized"]
    kw = {} if normalized == "default" else {"normalized": bool(normalized)}
    norm = True if normalized == "default" else bool(normalized)
    args = [
        np.array(pts, dtype=float),
        np.array([f["center"] for f in sfun], dtype=float).reshape(-1, 3),
        np.array([f["coef"] for f in sfun], dtype=float),
        np.array([f["alpha"] for f in sfun], dtype=float),
    ]
    if pfun is not None:
        kw.update(
            centers_p=np.array([f["center"] for f in pfun], dtype=float).reshape(-1, 3),
            coeffs_p=np.array([f["coef"] for f in pfun], dtype=float),
            alphas_p=np.array([f["alpha"] for f in pfun], dtype=float),
        )
    got = np.asarray(coulomb_potential(*args, **kw), dtype=float)
    ctx.cls("s-only" if not pfun else "s+p", "norm" if norm else "unnorm")
    if pfun is not None and len(pfun) == 0:
        ctx.cls("empty-p-arrays")
    if snapped:
        ctx.cls("point-on-or-near-centre")
    keys = {(k, tuple(f["center"]), f["alpha"]) for k, f in funcs}
    ctx.nt(len(keys) >= 2)
    if got.shape != (len(pts),):
        ctx.fail("multicentre-shape", f"{len(pts)} points -> output shape {got.shape}")
        return
    # (1) the stated property: coefficient-weighted sum of the single-centre library functions of the distance
    ref = np.zeros(len(pts))
    scale = np.zeros(len(pts))
    for k, f in funcs:
        single = coulomb_gaussian_s if k == "s" else coulomb_gaussian_p
        for i, p in enumerate(pts):
            v = float(np.ravel(single(_dist(p, f["center"]), f["alpha"], normalized=norm))[0])
            ref[i] += f["coef"] * v
            scale[i] += abs(f["coef"] * v)
    ctx.close(got, ref, 64 * EPS * scale + 1e-300, "multicentre-not-weighted-sum", f"points={pts} s={sfun} p={pfun} normalized={normalized}")
    # (2) s-only sets end-to-end against the mp potential
    if not pfun:
        ref2, sc2 = [], []
        with mp.workdps(cm.DPS):
            for p in pts:
                tot, sc = mp.mpf(0), mp.mpf(0)
                for f in sfun:
                    d = mp.sqrt(sum((mp.mpf(float(u)) - mp.mpf(float(v))) ** 2 for u, v in zip(p, f["center"])))
                    v = cm.potential("s", norm, f["alpha"], d)
                    tot += mp.mpf(f["coef"]) * v
                    sc += abs(f["coef"] * v)
                ref2.append(float(tot))
                sc2.append(float(sc))
        ctx.close(got, ref2, 256 * EPS * np.array(sc2) + 1e-300, "multicentre-s-vs-mp", f"points={pts} s={sfun} normalized={normalized}")


# ---------------------------------------------------------------------------------------------
def _json_params():
    import grid

    path = os.path.join(os.path.dirname(os.path.abspath(grid.__file__)), "data", "atomic_gauss_params.json")
    with open(path, encoding="utf-8") as fh:
        return json.load(fh)


def body_loader(case, ctx):
    from grid.coulomb import load_atomic_gaussian_params

    z = case["z"]
    sym = SYMBOLS[z - 1]
    data = _json_params()
    shipped = sym in data
    ctx.cls("shipped" if shipped else "not-shipped")
    near = any(1 <= zz <= 118 and SYMBOLS[zz - 1] in data for zz in (z - 1, z + 1))
    ctx.nt(shipped or near)
    spellings = [z, np.int64(z), np.int32(z), sym, sym.lower(), sym.upper(), f"  {sym} "]
    for arg in spellings:
        tag = f"load_atomic_gaussian_params({arg!r})"
        try:
            out = load_atomic_gaussian_params(arg)
        except ValueError:
            if shipped:
                ctx.fail("loader-rejected-shipped-element", f"{tag} raised ValueError although {sym} is in the JSON file")
            continue
        if not shipped:
            ctx.fail("loader-accepted-unshipped-element", f"{tag} returned {out!r} although {sym} is not in the JSON file")
            continue
        if not (isinstance(out, tuple) and len(out) == 2):
            ctx.fail("loader-return-type", f"{tag} returned {type(out)}")
            continue
        c, a = (np.asarray(v) for v in out)
        ok = c.ndim == 1 and a.ndim == 1 and c.shape == a.shape and c.size > 0 and c.dtype == float and a.dtype == float
        if not ctx.check(ok, "loader-shapes", f"{tag}: shapes {c.shape}, {a.shape}, dtypes {c.dtype}, {a.dtype}"):
            continue
        ctx.check(bool(np.all(a > 0) and np.all(np.isfinite(a))), "loader-nonpositive-exponent", f"{tag}: min alpha {a.min()!r}")
        ctx.check(bool(np.all(c > 0) and np.all(np.isfinite(c))), "loader-nonpositive-coefficient", f"{tag}: min coeff {c.min()!r}")
        if not (np.array_equal(c, np.array(data[sym]["coeffs_s"], dtype=float)) and np.array_equal(a, np.array(data[sym]["alphas_s"], dtype=float))):
            ctx.fail("loader-not-the-file-content", f"{tag}: arrays differ from coeffs_s/alphas_s of {sym} in atomic_gauss_params.json")
        # "loads as matching arrays of positive exponents" must hold for EVERY load: what a caller does with the
        # arrays it got (here: destroys them in place) must not leak into the next load through the lazy table
        try:
            out[0][...] = -1.0
            out[1][...] = 0.0
        except (ValueError, TypeError):
            pass  # read-only results would be fine too


def selftest():
    cm.selftest()
    # the buggy-model offset really is lib_formula - true for one hand case (documented p formula vs mp)
    import mpmath as mp

    with mp.workdps(cm.DPS):
        a, r = mp.mpf("0.8"), mp.mpf("0.9")
        doc = mp.erf(mp.sqrt(a) * r) / r + mp.mpf(4) / 3 * mp.sqrt(a / mp.pi) * mp.exp(-a * r * r)
        true = cm.potential("p", True, 0.8, 0.9)
        # 0.8 and 0.9 are not binary floats: compare with 1e-15 slack
        assert abs((doc - true) - 2 * mp.sqrt(a / mp.pi) * mp.exp(-a * r * r)) < mp.mpf(10) ** -14
    assert _ulp_steps(SWITCH, -1) < SWITCH < _ulp_steps(SWITCH, 1)


def _guard(body):
    """Turns a modified input array (detected inside _call) into a reported discrepancy."""

    def wrapped(case, ctx):
        try:
            body(case, ctx)
        except _InputModified as exc:
            ctx.fail("input-radius-array-modified", str(exc))

    return wrapped


def subchecks(tier, seed):
    q = tier == "quick"
    pins = [
        # the centre itself among the radii of a reused array (regression idea: r = 0 entries overwritten by a dummy radius)
        {"kind": "s", "normalized": True, "alpha": 0.7, "r": [0.0, 0.4, 0.0, 2.0], "input": "array"},
        # pinned probes of KF-C17-ptype (r = 0: factor 2.5; mid range; unnormalised) and s-type anchors
        {"kind": "p", "normalized": True, "alpha": 1.0, "r": [0.0, 0.5, 1.0], "input": "array"},
        {"kind": "p", "normalized": False, "alpha": 2.5, "r": [1e-13, 0.3], "input": "scalar"},
        {"kind": "s", "normalized": True, "alpha": 1.0, "r": [0.0, 1e-13, 1e-12, 0.5, 1.0, 30.0], "input": "array"},
        {"kind": "s", "normalized": False, "alpha": 1e6, "r": [0.0, 1e-7, 1e-3, 1e8], "input": "list"},
        {"kind": "s", "normalized": True, "alpha": 1e-6, "r": [0.0, 9.99e-13, 1.0, 1e3, 1e8], "input": "scalar"},
        # results in the subnormal range (Q/r < 2.2e-308): exact only to a subnormal ulp, covered by TINY
        {"kind": "p", "normalized": False, "alpha": 1e6, "r": [1e299, 1e300], "input": "array"},
        {"kind": "s", "normalized": False, "alpha": 1e5, "r": [1e299, 3e300], "input": "scalar"},
    ]
    pins_fd = [{"kind": "p", "normalized": True, "alpha": 1.0, "x": [0.3, 1.0, 2.0]}, {"kind": "s", "normalized": True, "alpha": 1.0, "x": [0.3, 1.0, 2.0]}]
    return [
        SubCheck("pointwise", _guard(body_pointwise), strategy=_pointwise_strategy(), examples=12000 if q else 150000, cases=pins, shards=16),
        SubCheck("switch", _guard(body_switch), strategy=_switch_strategy(), examples=1600 if q else 16000, shards=16),
        SubCheck("poisson_fd", _guard(body_poisson), strategy=_poisson_strategy(), examples=4000 if q else 40000, cases=pins_fd, shards=16),
        SubCheck("multicentre", body_multi, strategy=_multi_strategy(), examples=4000 if q else 40000, shards=16),
        SubCheck("loader", body_loader, cases=[{"z": z} for z in range(1, 119)], exhaustive=True, shards=8),
    ]
