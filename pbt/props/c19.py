"""C19 - caches and remembered parameters never change what a later call returns.

Model-based histories.  One case = {"keys": [...], "steps": [...]}: a palette of angular-grid
requests and a list of step dicts.  The body empties every piece of process-global state the
library keeps (the four per-method angular caches of grid/angular.py and the lazily parsed JSON
table of grid/coulomb.py), then interprets the steps one by one against the real library and
against a model, and after *every* step makes the observation the property talks about:

* a NEW AngularGrid for every (method, degree) touched so far - built once with cache=True and
  once with cache=False - has exactly the points and (to 4 ulp) the weights of the shipped data
  file, read by pbt.oracles.data_loader (file found by name, no table of grid/angular.py);
* an AtomGrid / shell grid / MolGrid built from it equals the product model (shell i: points
  r_i * unit points [up to the documented random rotation: compared through the Gram matrix], weights
  w_i r_i^2 * angular weights) and a rebuild of an earlier specification is bit-identical to its
  first build;
* once the scale b of a LinearInfinite/Exp/Power transform is fixed (given explicitly, or recorded
  as max of the first array it saw) it never changes and every later transform/deriv/deriv2/
  deriv3/inverse/transform_1d_grid result equals the closed form of the class docstring with that b,
  in any call order (HyperbolicRTransform rides along as a stateless control);
* load_atomic_gaussian_params returns the numbers of atomic_gauss_params.json (own json.load) on
  every call.

Steps include in-place edits (fill / scale / reverse / negate) of arrays of previously returned
grids, shell grids, atomic/molecular grids, integration results and loader results.
"""
import json
import math
import os

import numpy as np
from hypothesis import strategies as st

from ..core import EPS, SubCheck
from ..oracles import data_loader as dl
from ..oracles import sph as sph_ref

PROPERTY = "C19"
RULE = (
    "one case = a palette of 1-3 angular requests (method, degree|size) plus a Hypothesis-generated list of 2-14 "
    "(thorough: up to 24) step dicts drawn from: build AngularGrid(cache on/off), edit an array of any previously "
    "returned object in place (fill/scale/reverse/negate), build AtomGrid (degrees|sizes, rotate, r=0 shell, centre), "
    "get_shell_grid, integrate_angular_coordinates, radial_component_splines, build MolGrid, create a b-scaled "
    "transform (b given or inferred), call transform/deriv/deriv2/deriv3/inverse/transform_1d_grid in any order, "
    "load_atomic_gaussian_params; global caches are emptied at the top of each case and the invariant is checked "
    "after every step. non-trivial = the history contains (a) a construction that needs angular key K after an "
    "in-place edit of an earlier object of the same key K, or (b) a transform with inferred b whose first call is "
    "not transform() and that is called again afterwards, or (c) a loader call after an edit of an earlier loader "
    "result of the same element. distinct = distinct case descriptor (canonical JSON hash)"
)
RULE = RULE + " " + "History steps also include 'preset' (AtomGrid.from_preset with the default radial grid; its rgrid arrays are editable targets; later builds must equal the first build in the process) and 'convert' (size->degree conversion of a small pool of size requests through all four methods)."

ASSUMPTIONS = [
    "the shipped .npz files (read by pbt/oracles/data_loader.py, located through their file names) and "
    "atomic_gauss_params.json (own json.load) are the ground truth for 'the shipped data'",
    "the closed forms of LinearInfinite/Exp/Power/Hyperbolic transforms are those of the class docstrings; "
    "'b inferred' means max of the first array handed to a method whose formula contains b",
    "rotated shells are compared with the product model through norms, Gram matrices and bit-identical rebuilds "
    "(the random rotation itself belongs to C05)",
    "resetting the module-level caches at the top of a case (clear() / None) is the only white-box access",
]

METHODS = list(dl.METHODS)
# small grids only: a case must cost milliseconds
_MAXDEG = {"lebedev": 23, "spherical": 15, "maxdet": 10, "ahrens_beylkin": 23}
ELEMENTS = ["H", "C", "N", "O", "Cl", "h", "cl", " o ", "n", 1, 6, 7, 8, 17]
_SYM = {1: "H", 6: "C", 7: "N", 8: "O", 17: "Cl"}


# ---------------------------------------------------------------------------
# oracles
# ---------------------------------------------------------------------------
_JSON = {}


def _json_table():
    if "t" not in _JSON:
        with open(os.path.join(dl.data_root(), "atomic_gauss_params.json"), encoding="utf-8") as fh:
            _JSON["t"] = json.load(fh)
    return _JSON["t"]


def _resolve(key):
    """(method, degree) that a palette entry must resolve to, by the file-name table."""
    m = key["method"]
    if key["by"] == "size":
        return m, dl.degree_of_size(m, dl.resolve_size(m, key["req"]))
    return m, dl.resolve_degree(m, key["req"])


def tf_closed_form(kind, prm, b, meth, x):
    """Closed forms retyped from the class docstrings of grid/rtransform.py."""
    x = np.asarray(x, dtype=float)
    if kind == "lin":
        rmin, rmax = prm
        al = (rmax - rmin) / b
        return {
            "transform": al * x + rmin,
            "deriv": np.full(x.shape, al),
            "deriv2": np.zeros(x.shape),
            "deriv3": np.zeros(x.shape),
            "inverse": (x - rmin) / al,
        }[meth]
    if kind == "exp":
        rmin, rmax = prm
        al = np.log(rmax / rmin) / b
        e = rmin * np.exp(x * al)
        return {
            "transform": e,
            "deriv": e * al,
            "deriv2": e * al * al,
            "deriv3": e * al * al * al,
            "inverse": np.log(x / rmin) / al,
        }[meth]
    if kind == "pow":
        rmin, rmax = prm
        p = (np.log(rmax) - np.log(rmin)) / np.log(b + 1)
        return {
            "transform": rmin * np.power(x + 1, p),
            "deriv": p * rmin * np.power(x + 1, p - 1),
            "deriv2": p * (p - 1) * rmin * np.power(x + 1, p - 2),
            "deriv3": p * (p - 1) * (p - 2) * rmin * np.power(x + 1, p - 3),
            "inverse": np.power(x / rmin, 1.0 / p) - 1,
        }[meth]
    if kind == "hyp":
        a, hb = prm
        q = 1.0 / (1.0 - hb * x)
        return {
            "transform": a * x * q,
            "deriv": a * q * q,
            "deriv2": 2.0 * a * hb * q**3,
            "deriv3": 6.0 * a * hb * hb * q**4,
            "inverse": x / (a + hb * x),
        }[meth]
    raise KeyError(kind)


def _uses_b(kind, meth):
    if kind == "hyp":
        return False
    if kind == "lin" and meth in ("deriv2", "deriv3"):
        return False
    return True


# ---------------------------------------------------------------------------
# the interpreter
# ---------------------------------------------------------------------------
def _reset_global_state():
    import grid.angular as ga
    import grid.coulomb as gc

    for d in (ga.LEBEDEV_CACHE, ga.SPHERICAL_CACHE, ga.MAX_DET_CACHE, ga.AHRENS_BEYLKIN_CACHE):
        d.clear()
    gc._ATOMIC_GAUSS_PARAMS_CACHE = None


class _History:
    def __init__(self, case, ctx):
        self.ctx = ctx
        self.keys = [dict(k) for k in case.get("keys", [])] or [{"method": "lebedev", "req": 5, "by": "degree"}]
        self.resolved = [_resolve(k) for k in self.keys]
        self.used = []  # (method, degree), first-use order
        self.edited = set()  # angular keys with an in-place edited earlier object
        self.holders = []  # dict(kind, key, arrays=[...], atom=idx|None, el=...)
        self.presets_built = set()
        self.atoms = []  # dict(spec, grid, first=(bytes, bytes), dirty, basis_built)
        self.mols = []  # dict(spec, first)
        self.tfs = []  # dict(kind, prm, b, obj, ncalls, first)
        self.coul_used = []
        self.coul_edited = set()
        self.touched = []  # keys touched by the current step

    # -- helpers ---------------------------------------------------------
    def key(self, k):
        return self.resolved[k % len(self.resolved)]

    def request(self, k):
        return self.keys[k % len(self.keys)]

    def use(self, key):
        if key not in self.used:
            self.used.append(key)
        if key not in self.touched:
            self.touched.append(key)
        if key in self.edited:
            self.ctx.nt()
            self.ctx.cls("nt:construction-after-edit-of-same-key")

    def hold(self, kind, key, arrays, atom=None, el=None):
        self.holders.append({"kind": kind, "key": key, "arrays": arrays, "atom": atom, "el": el})

    # -- oracle comparisons ------------------------------------------------
    def check_angular(self, g, key, label, what):
        method, deg = key
        p, w = dl.load(method, deg)
        ok = True
        if getattr(g, "degree", deg) != deg:
            self.ctx.fail(label, f"{what}: .degree={g.degree}, shipped table says {deg}")
            ok = False
        gp, gw = np.asarray(g.points), np.asarray(g.weights)
        if gp.shape != p.shape or not np.array_equal(gp, p):
            bad = "shape" if gp.shape != p.shape else f"{int(np.sum(np.any(gp != p, axis=1)))} of {len(p)} points differ"
            self.ctx.fail(label, f"{what}: points are not those of the shipped file {method} degree {deg} ({bad})")
            ok = False
        if gw.shape != w.shape:
            self.ctx.fail(label, f"{what}: weights shape {gw.shape} vs file {w.shape}")
            ok = False
        else:
            ok = self.ctx.close(gw, w, 4 * EPS * np.abs(w), label, f"{what}: weights vs shipped file {method} degree {deg}") and ok
        return ok

    def observe_key(self, key, when):
        from grid.angular import AngularGrid

        method, deg = key
        for cache in (True, False):
            g = AngularGrid(degree=deg, method=method, cache=cache)
            self.check_angular(
                g,
                key,
                "new-angular-grid-differs-from-shipped-data",
                f"{when}: new AngularGrid(degree={deg}, method={method!r}, cache={cache})"
                + (" after an in-place edit of an earlier grid of this key" if key in self.edited else ""),
            )

    # ---- atoms -----------------------------------------------------------
    def atom_spec(self, st_):
        ks = st_["ks"] or [0]
        method = self.key(ks[0])[0]
        degs = []
        for k in ks:
            m, d = self.key(k)
            degs.append(d if m == method else self.key(ks[0])[1])
        if st_.get("single"):
            degs = degs[:1] * len(ks)
        n = len(degs)
        r0 = 0.0 if st_.get("r0") else 0.3
        r = [r0 + 0.7 * i for i in range(n)]
        w = [0.5 + 0.125 * i for i in range(n)]
        center = [0.25, -0.5, 1.0] if st_.get("center") else None
        return {
            "method": method,
            "degs": degs,
            "single": bool(st_.get("single")),
            "r": r,
            "w": w,
            "rot": int(st_.get("rot", 0)),
            "center": center,
            "via": st_.get("via", "degrees"),
        }

    def build_atom(self, spec):
        from grid.atomgrid import AtomGrid
        from grid.basegrid import OneDGrid

        rg = OneDGrid(np.array(spec["r"]), np.array(spec["w"]), (0, np.inf))
        method = spec["method"]
        degs = spec["degs"][:1] if spec["single"] else list(spec["degs"])
        center = None if spec["center"] is None else np.array(spec["center"])
        if spec["via"] == "sizes":
            sizes = [dl.size_of_degree(method, d) for d in degs]
            return AtomGrid(rg, degrees=None, sizes=sizes, center=center, rotate=spec["rot"], method=method)
        return AtomGrid(rg, degrees=degs, center=center, rotate=spec["rot"], method=method)

    def check_atom(self, ag, spec, label, what):
        method = spec["method"]
        c = np.zeros(3) if spec["center"] is None else np.array(spec["center"])
        cn = float(np.linalg.norm(c))
        sizes = [dl.size_of_degree(method, d) for d in spec["degs"]]
        idx = np.concatenate([[0], np.cumsum(sizes)])
        pts, wts = ag.points, ag.weights
        if list(map(int, ag.indices)) != list(map(int, idx)) or pts.shape != (idx[-1], 3) or wts.shape != (idx[-1],):
            self.ctx.fail(label, f"{what}: shell layout {list(ag.indices)} / {pts.shape}, product model {list(idx)}")
            return False
        if list(map(int, ag.degrees)) != list(spec["degs"]):
            self.ctx.fail(label, f"{what}: degrees {list(ag.degrees)}, expected {spec['degs']}")
            return False
        ok = True
        for i, d in enumerate(spec["degs"]):
            up, uw = dl.load(method, d)
            sl = slice(idx[i], idx[i + 1])
            ri, wi = spec["r"][i], spec["w"][i]
            ref_w = uw * wi * ri**2
            ok = self.ctx.close(wts[sl], ref_w, 16 * EPS * np.abs(ref_w), label, f"{what}: shell {i} weights vs w_i r_i^2 * angular weights") and ok
            if spec["rot"] == 0:
                ok = self.ctx.close(pts[sl], up * ri + c, 8 * EPS * (ri + cn + 1e-300), label, f"{what}: shell {i} points vs r_i * unit points + centre") and ok
            else:
                q = pts[sl] - c
                tol = 64 * EPS * (ri + cn) ** 2 + 1e-300
                ok = self.ctx.close(q @ q.T, ri**2 * (up @ up.T), tol, label, f"{what}: shell {i} Gram matrix vs r_i^2 * unit Gram matrix (rotated shell)") and ok
        return ok

    # ---- steps -------------------------------------------------------------
    def step_ang(self, st_):
        from grid.angular import AngularGrid

        key = self.key(st_["k"])
        req = self.request(st_["k"])
        self.use(key)
        if req["by"] == "size":
            g = AngularGrid(size=req["req"], method=req["method"], cache=bool(st_["cache"]))
        else:
            g = AngularGrid(degree=req["req"], method=req["method"], cache=bool(st_["cache"]))
        self.check_angular(g, key, "angular-grid-differs-from-shipped-data", f"AngularGrid({req['by']}={req['req']}, method={req['method']!r}, cache={st_['cache']})")
        self.hold("ang", key, [g.points, g.weights])
        self.ctx.cls(f"method:{key[0]}", "cache:on" if st_["cache"] else "cache:off")

    def step_edit(self, st_):
        if not self.holders:
            self.ctx.cls("noop:edit-without-target")
            return
        h = self.holders[st_["t"] % len(self.holders)]
        a = h["arrays"][st_["what"] % len(h["arrays"])]
        if not isinstance(a, np.ndarray) or not a.flags.writeable or a.size == 0:
            self.ctx.cls("noop:target-not-editable")
            return
        how = st_["how"]
        if how == "fill" or a.dtype.kind != "f":
            a[...] = st_["val"] if a.dtype.kind == "f" else 0
        elif how == "scale":
            a *= st_["val"]
        elif how == "reverse":
            a[...] = a[::-1].copy()
        else:
            np.negative(a, out=a)
        self.ctx.cls(f"edit-target:{h['kind']}", f"edit-how:{how}")
        if h["key"] is not None:
            for k in h["key"] if isinstance(h["key"], list) else [h["key"]]:
                self.edited.add(k)
                if k not in self.touched:
                    self.touched.append(k)
        if h["atom"] is not None:
            self.atoms[h["atom"]]["dirty"] = True
        if h["el"] is not None:
            self.coul_edited.add(h["el"])

    def step_atom(self, st_):
        spec = self.atom_spec(st_)
        for d in spec["degs"]:
            self.use((spec["method"], d))
        ag = self.build_atom(spec)
        self.check_atom(ag, spec, "atomgrid-differs-from-product-model", f"AtomGrid({spec['via']}, degrees={spec['degs']}, method={spec['method']!r}, rotate={spec['rot']})")
        first = (ag.points.tobytes(), ag.weights.tobytes())
        # anything the grid remembers about its own spherical coordinates must be remembered per centre
        cc = np.zeros(3) if spec["center"] is None else np.array(spec["center"], dtype=float)
        for cen in (None, cc + np.array([0.5, -0.25, 0.125]), None):
            sphc = np.asarray(ag.convert_cartesian_to_spherical(center=None if cen is None else cen.copy()), dtype=float)
            ref_r = np.linalg.norm(ag.points - (cc if cen is None else cen), axis=1)
            if sphc.shape != (ag.size, 3):
                self.ctx.fail("spherical-coordinates-depend-on-history", f"shape {sphc.shape}")
            else:
                self.ctx.close(sphc[:, 0], ref_r, 64 * EPS * (float(np.max(ref_r)) + 2.0), "spherical-coordinates-depend-on-history",
                               f"convert_cartesian_to_spherical(center={'grid centre' if cen is None else cen.tolist()}): radius column")
        self.atoms.append({"spec": spec, "grid": ag, "first": first, "dirty": False, "basis": False})
        keys = [(spec["method"], d) for d in spec["degs"]]
        self.hold("atom", keys, [ag.weights, ag.points], atom=len(self.atoms) - 1)
        self.ctx.cls(f"method:{spec['method']}", "atom:rotated" if spec["rot"] else "atom:unrotated")
        if spec["r"][0] == 0.0:
            self.ctx.cls("atom:r0-shell")

    def step_convert(self, st_):
        """size -> degree resolution for one method; the same size request through another method earlier in the
        process must not matter (anything the library remembers about sizes has to be remembered per method)."""
        from grid.angular import AngularGrid

        method, req = st_["method"], int(st_["req"])
        want = dl.degree_of_size(method, dl.resolve_size(method, req))
        got = AngularGrid.convert_angular_sizes_to_degrees(np.array([req, req]), method)
        if [int(g) for g in got] != [want, want]:
            self.ctx.fail("size-to-degree-depends-on-history", f"convert_angular_sizes_to_degrees([{req},{req}], {method!r}) = {list(got)}, shipped table says {want}")
        self.ctx.cls("op-detail:convert:" + method)

    def step_preset(self, st_):
        """AtomGrid.from_preset with the DEFAULT radial grid (rgrid=None): everything the library derives from its
        tables - the radial grid too - is handed to the caller, who may edit it in place; a later build of the same
        (element, preset) must still be the grid of the first build in this process."""
        from grid.atomgrid import AtomGrid

        atnum, preset = st_["z"], st_["preset"]
        ag = AtomGrid.from_preset(atnum=atnum, preset=preset, rgrid=None)
        sig = (ag.rgrid.points.tobytes(), ag.rgrid.weights.tobytes(), ag.points.tobytes(), ag.weights.tobytes(), tuple(int(d) for d in ag.degrees))
        key = (atnum, preset)
        if key not in _PRESET_ANCHOR:
            _PRESET_ANCHOR[key] = sig
        elif sig != _PRESET_ANCHOR[key]:
            which = [n for n, a, b in zip(("rgrid.points", "rgrid.weights", "points", "weights", "degrees"), sig, _PRESET_ANCHOR[key]) if a != b]
            self.ctx.fail("preset-grid-with-default-rgrid-depends-on-history", f"AtomGrid.from_preset(atnum={atnum}, preset={preset!r}, rgrid=None): {', '.join(which)} differ from the first build in this process")
        for d in set(int(d) for d in ag.degrees):
            self.use(("lebedev", d))
        self.hold("preset-rgrid", None, [ag.rgrid.points, ag.rgrid.weights])
        self.hold("preset-atom", None, [ag.points, ag.weights])
        if key in self.presets_built:
            self.ctx.nt()
            self.ctx.cls("nt:preset-rebuilt-after-earlier-build")
        self.presets_built.add(key)
        self.ctx.cls(f"preset:{preset}")

    def rebuild_atom(self, ent, when):
        spec = ent["spec"]
        ag = self.build_atom(spec)
        what = f"{when}: rebuilt AtomGrid(degrees={spec['degs']}, method={spec['method']!r}, rotate={spec['rot']})"
        self.check_atom(ag, spec, "atomgrid-differs-from-product-model", what)
        if (ag.points.tobytes(), ag.weights.tobytes()) != ent["first"]:
            self.ctx.fail("atomgrid-rebuild-not-identical-to-first-build", what + " is not bit-identical to the first build of the same specification")

    def step_shell(self, st_):
        if not self.atoms:
            self.ctx.cls("noop:shell-without-atom")
            return
        ia = st_["a"] % len(self.atoms)
        ent = self.atoms[ia]
        spec, ag = ent["spec"], ent["grid"]
        j = st_["j"] % len(spec["degs"])
        key = (spec["method"], spec["degs"][j])
        self.use(key)
        r_sq = bool(st_["r_sq"])
        sg = ag.get_shell_grid(j, r_sq=r_sq)
        up, uw = dl.load(*key)
        rj, wj = spec["r"][j], spec["w"][j]
        label = "shell-grid-differs-from-product-model"
        what = f"get_shell_grid({j}, r_sq={r_sq}) of AtomGrid(degrees={spec['degs']}, method={spec['method']!r}, rotate={spec['rot']})"
        ref_w = uw * wj * (rj**2 if r_sq else 1.0)
        if sg.points.shape != up.shape or sg.weights.shape != uw.shape:
            self.ctx.fail(label, f"{what}: shapes {sg.points.shape}/{sg.weights.shape}")
        else:
            self.ctx.close(sg.weights, ref_w, 16 * EPS * np.abs(ref_w), label, what + " weights")
            if spec["rot"] == 0:
                self.ctx.close(sg.points, up * rj, 8 * EPS * rj + 1e-300, label, what + " points vs r_j * unit points")
            else:
                self.ctx.close(sg.points @ sg.points.T, rj**2 * (up @ up.T), 64 * EPS * rj**2 + 1e-300, label, what + " Gram matrix")
            # the shell is the same rotated sphere that sits inside the atomic grid
            c = np.zeros(3) if spec["center"] is None else np.array(spec["center"])
            sl = slice(int(ag.indices[j]), int(ag.indices[j + 1]))
            self.ctx.close(sg.points, ag.points[sl] - c, 16 * EPS * (rj + float(np.linalg.norm(c))) + 1e-300, label, what + " points vs the shell inside the atomic grid")
        self.hold("shell", key, [sg.points, sg.weights])
        self.ctx.cls(f"method:{key[0]}")

    def _fvals(self, n, fs, two):
        k = np.arange(n, dtype=float)
        f = np.cos(0.37 * k + 0.1 * fs) + 0.25
        return np.vstack([f, f * f - 0.5]) if two else f

    def step_angint(self, st_):
        live = [i for i, e in enumerate(self.atoms) if not e["dirty"]]
        if not live:
            self.ctx.cls("noop:angint-without-clean-atom")
            return
        ent = self.atoms[live[st_["a"] % len(live)]]
        spec, ag = ent["spec"], ent["grid"]
        f = self._fvals(ag.size, st_["fs"], bool(st_["two"]))
        for i, ri in enumerate(spec["r"]):
            if ri < 1e-8:
                self.use((spec["method"], spec["degs"][i]))  # the library rebuilds this angular grid
        got = ag.integrate_angular_coordinates(f)
        idx = ag.indices
        f2 = np.atleast_2d(f)
        ref = np.zeros((f2.shape[0], len(spec["degs"])))
        scale = np.zeros_like(ref)
        for i, d in enumerate(spec["degs"]):
            _, uw = dl.load(spec["method"], d)
            seg = f2[:, idx[i] : idx[i + 1]]
            ref[:, i] = seg @ uw
            scale[:, i] = np.abs(seg) @ np.abs(uw)
        if not st_["two"]:
            ref, scale = ref[0], scale[0]
        self.ctx.close(got, ref, 256 * EPS * scale, "angular-integration-differs-from-shipped-weights", f"integrate_angular_coordinates on AtomGrid(degrees={spec['degs']}, method={spec['method']!r}, r={spec['r']})")
        self.hold("angint-result", None, [got])

    def step_splines(self, st_):
        live = [i for i, e in enumerate(self.atoms) if not e["dirty"] and len(e["spec"]["degs"]) >= 2]
        if not live:
            self.ctx.cls("noop:splines-without-clean-atom")
            return
        ent = self.atoms[live[st_["a"] % len(live)]]
        spec, ag = ent["spec"], ent["grid"]
        f = self._fvals(ag.size, st_["fs"], False)
        for i, ri in enumerate(spec["r"]):
            if ri == 0.0:
                self.use((spec["method"], spec["degs"][i]))
        spl = ag.radial_component_splines(f)
        if ent["basis"]:
            self.ctx.cls("splines:basis-reused")
        ent["basis"] = True
        lmax = max(spec["degs"]) // 2
        c = np.zeros(3) if spec["center"] is None else np.array(spec["center"])
        pts = ag.points - c
        idx = ag.indices
        rr = np.array(spec["r"])
        got = np.array([s(rr) for s in spl])  # (nharm, nshell): the splines interpolate the radial components
        if got.shape != ((lmax + 1) ** 2, len(rr)):
            self.ctx.fail("radial-components-differ", f"{len(spl)} splines for l_max//2={lmax}")
            return
        ref = np.zeros_like(got)
        scale = np.zeros(len(rr))
        for i, d in enumerate(spec["degs"]):
            up, uw = dl.load(spec["method"], d)
            sl = slice(idx[i], idx[i + 1])
            unit = pts[sl] / rr[i] if rr[i] > 0 else up
            y = sph_ref.real_sph_harm_xyz(lmax, unit)
            nz = (d // 2 + 1) ** 2 if d != max(spec["degs"]) else y.shape[0]
            ref[:nz, i] = (y[:nz] * f[sl]) @ uw
            scale[i] = np.abs(f[sl]) @ np.abs(uw)
        self.ctx.close(got, ref, 1e5 * EPS * scale[None, :], "radial-components-differ", f"radial_component_splines on AtomGrid(degrees={spec['degs']}, method={spec['method']!r}, rotate={spec['rot']}) at the radial nodes vs sum f Y_lm w (own harmonics, shipped weights)")

    def mol_spec(self, st_):
        a1 = dict(st_)
        a1["center"] = False
        s1 = self.atom_spec(a1)
        s2 = dict(s1)
        s1["center"] = [0.0, 0.0, 0.0]
        s2["center"] = [0.0, 0.0, float(st_["d"])]
        return {"atoms": [s1, s2], "store": bool(st_["store"])}

    def build_mol(self, mspec):
        from grid.becke import BeckeWeights
        from grid.molgrid import MolGrid

        ags = [self.build_atom(s) for s in mspec["atoms"]]
        return MolGrid(np.array([1, 8]), ags, BeckeWeights(), store=mspec["store"])

    def check_mol(self, mg, mspec, what):
        label = "molgrid-differs-from-concatenated-product-model"
        off = 0
        for ia, spec in enumerate(mspec["atoms"]):
            n = sum(dl.size_of_degree(spec["method"], d) for d in spec["degs"])

            class _View:  # the slice of the molecular grid seen as one atomic grid
                points = mg.points[off : off + n]
                weights = mg.atweights[off : off + n]
                indices = np.concatenate([[0], np.cumsum([dl.size_of_degree(spec["method"], d) for d in spec["degs"]])])
                degrees = spec["degs"]

            self.check_atom(_View, spec, label, f"{what}: atom {ia}")
            off += n
        if mg.size != off:
            self.ctx.fail(label, f"{what}: size {mg.size}, expected {off}")
            return
        self.ctx.check(np.array_equal(mg.weights, mg.atweights * mg.aim_weights), label, f"{what}: weights != atweights * aim_weights")
        self.ctx.check(bool(np.all(np.isfinite(mg.aim_weights))) and float(np.min(mg.aim_weights)) >= 0.0 and float(np.max(mg.aim_weights)) <= 1.0 + 1e-12, label, f"{what}: aim weights outside [0, 1]")

    def step_mol(self, st_):
        mspec = self.mol_spec(st_)
        for s in mspec["atoms"]:
            for d in s["degs"]:
                self.use((s["method"], d))
        mg = self.build_mol(mspec)
        what = f"MolGrid of two AtomGrid(degrees={mspec['atoms'][0]['degs']}, method={mspec['atoms'][0]['method']!r}, rotate={mspec['atoms'][0]['rot']})"
        self.check_mol(mg, mspec, what)
        self.mols.append({"spec": mspec, "first": (mg.points.tobytes(), mg.weights.tobytes())})
        keys = [(s["method"], d) for s in mspec["atoms"] for d in s["degs"]]
        self.hold("mol", keys, [mg.weights, mg.points, mg.atweights])
        if mspec["store"]:
            at = mg[int(st_["d"] > 1.5)]
            self.hold("mol-atom", keys, [at.weights])

    def rebuild_mol(self, ent, when):
        mg = self.build_mol(ent["spec"])
        what = f"{when}: rebuilt MolGrid(degrees={ent['spec']['atoms'][0]['degs']})"
        self.check_mol(mg, ent["spec"], what)
        if (mg.points.tobytes(), mg.weights.tobytes()) != ent["first"]:
            self.ctx.fail("molgrid-rebuild-not-identical-to-first-build", what + " is not bit-identical to the first build")

    # ---- transforms ----------------------------------------------------------
    def step_tf_new(self, st_):
        from grid.rtransform import ExpRTransform, HyperbolicRTransform, LinearInfiniteRTransform, PowerRTransform

        kind = st_["kind"]
        if kind == "hyp":
            prm = (float(st_["rmin"]), float(st_["hb"]))
            obj = HyperbolicRTransform(*prm)
            b = None
        else:
            prm = (float(st_["rmin"]), float(st_["rmin"]) + float(st_["span"]))
            b = None if st_["b"] is None else float(st_["b"])
            cls = {"lin": LinearInfiniteRTransform, "exp": ExpRTransform, "pow": PowerRTransform}[kind]
            obj = cls(prm[0], prm[1], b=b)
        self.tfs.append({"kind": kind, "prm": prm, "b": b, "given": b is not None, "obj": obj, "calls": []})
        self.ctx.cls(f"tf:{kind}", "tf-b:n/a" if kind == "hyp" else ("tf-b:given" if b is not None else "tf-b:inferred"))

    def _tf_call(self, ent, meth, xs):
        from grid.basegrid import OneDGrid

        kind, prm, obj = ent["kind"], ent["prm"], ent["obj"]
        x = np.array(xs, dtype=float)
        if kind == "hyp":
            x = np.minimum(x, 5.0)[:5]
        desc = f"{type(obj).__name__}{prm} b={'given ' if ent['given'] else 'inferred '}{ent['b']!r}: {meth}({list(map(float, x))}) after calls {ent['calls'][-6:]}"
        b_before = ent["b"]
        if meth == "grid":
            if kind == "hyp":
                return
            w = 0.5 + 0.25 * np.arange(x.size)
            out = obj.transform_1d_grid(OneDGrid(x, w, (0, np.inf)))
            got = {"transform": out.points, "deriv*w": out.weights}
        else:
            got = {meth: getattr(obj, meth)(x)}
        ent["calls"].append(meth)
        # --- the remembered scale -----------------------------------------------------------
        if kind != "hyp":
            b_after = obj.b
            if b_before is not None:
                if b_after is None or float(b_after) != b_before:
                    self.ctx.fail("transform-scale-b-changed-after-it-was-fixed", f"{desc}: b was {b_before!r}, is {b_after!r} after the call")
                    ent["b"] = None if b_after is None else float(b_after)
            else:
                needs = meth == "grid" or _uses_b(kind, meth)
                if b_after is None:
                    if needs:
                        self.ctx.fail("transform-scale-b-not-recorded", f"{desc}: b is still None after a call whose formula contains b")
                        return
                else:
                    if float(b_after) != float(np.max(x)):
                        self.ctx.fail("transform-scale-b-not-max-of-first-array", f"{desc}: b={b_after!r}, max of the first array is {float(np.max(x))!r}")
                    ent["b"] = float(b_after)
                    ent["first"] = meth
        b = ent["b"]
        if b is None and kind != "hyp" and (meth == "grid" or _uses_b(kind, meth)):
            return
        for name, val in got.items():
            if name == "deriv*w":
                ref = tf_closed_form(kind, prm, b, "deriv", x) * (0.5 + 0.25 * np.arange(x.size))
            else:
                ref = tf_closed_form(kind, prm, b if b is not None else 1.0, name, x)
            val = np.asarray(val, dtype=float)
            if val.shape != ref.shape:
                self.ctx.fail("transform-result-differs-from-closed-form-with-fixed-b", f"{desc}: shape {val.shape} vs {ref.shape}")
                continue
            tol = 1e4 * EPS * np.abs(ref) + 1e-13 * abs(prm[0])
            self.ctx.close(val, ref, tol, "transform-result-differs-from-closed-form-with-fixed-b", f"{desc} [{name}] vs closed form with b={b!r}")

    def step_tf_call(self, st_):
        if not self.tfs:
            self.ctx.cls("noop:tf-call-without-transform")
            return
        ent = self.tfs[st_["tf"] % len(self.tfs)]
        first_before = ent.get("first")
        self._tf_call(ent, st_["meth"], st_["xs"])
        self.ctx.cls(f"tf-call:{st_['meth']}")
        if not ent["given"] and ent["kind"] != "hyp" and first_before is not None and first_before not in ("transform", "grid"):
            # a later call on a transform whose scale was inferred by something other than transform()
            self.ctx.nt()
            self.ctx.cls(f"nt:tf-first-call-{first_before}")

    # ---- Coulomb table -------------------------------------------------------------
    def step_coul(self, st_):
        from grid.coulomb import load_atomic_gaussian_params

        el = st_["el"]
        sym = _SYM[el] if isinstance(el, int) else el.strip().title()
        if sym in self.coul_edited:
            self.ctx.nt()
            self.ctx.cls("nt:loader-call-after-edit-of-earlier-result")
        arg = np.int64(el) if (isinstance(el, int) and st_.get("npint")) else el
        c, a = load_atomic_gaussian_params(arg)
        self.check_coul(c, a, sym, f"load_atomic_gaussian_params({el!r})")
        if sym not in self.coul_used:
            self.coul_used.append(sym)
        self.hold("coulomb-params", None, [c, a], el=sym)
        self.ctx.cls("coulomb-loader")

    def check_coul(self, c, a, sym, what):
        tab = _json_table()[sym]
        rc, ra = np.array(tab["coeffs_s"], dtype=float), np.array(tab["alphas_s"], dtype=float)
        ok = isinstance(c, np.ndarray) and isinstance(a, np.ndarray) and c.shape == rc.shape and a.shape == ra.shape and np.array_equal(c, rc) and np.array_equal(a, ra)
        self.ctx.check(ok, "coulomb-parameters-differ-from-json", f"{what}: returned values are not those of atomic_gauss_params.json[{sym!r}]" + (" (after an in-place edit of an earlier result)" if sym in self.coul_edited else ""))

    # ---- observation -----------------------------------------------------------------
    def observe(self, when, final=False):
        keys = list(self.used) if final else list(dict.fromkeys(self.touched + self.used[-2:]))
        for key in keys:
            if key in self.used or key in self.edited:
                self.observe_key(key, when)
        atoms = self.atoms if final else self.atoms[-1:]
        for ent in atoms:
            self.rebuild_atom(ent, when)
        for ent in self.mols if final else []:
            self.rebuild_mol(ent, when)
        if final:
            from grid.coulomb import load_atomic_gaussian_params

            for sym in self.coul_used:
                c, a = load_atomic_gaussian_params(sym)
                self.check_coul(c, a, sym, f"{when}: load_atomic_gaussian_params({sym!r})")
            probe = [0.5, 1.25, 3.0]
            for ent in self.tfs:
                if ent["kind"] == "hyp" or ent["b"] is not None:
                    for meth in ("inverse", "deriv3", "transform", "deriv2", "deriv"):
                        self._tf_call(ent, meth, probe)

    def run(self, steps):
        table = {
            "ang": self.step_ang,
            "edit": self.step_edit,
            "atom": self.step_atom,
            "shell": self.step_shell,
            "angint": self.step_angint,
            "splines": self.step_splines,
            "mol": self.step_mol,
            "tf_new": self.step_tf_new,
            "tf_call": self.step_tf_call,
            "coul": self.step_coul,
            "preset": self.step_preset,
            "convert": self.step_convert,
        }
        for i, st_ in enumerate(steps):
            self.touched = []
            table[st_["op"]](st_)
            self.ctx.cls(f"op:{st_['op']}")
            self.observe(f"after step {i} ({st_['op']})")
        self.touched = []
        self.observe("at the end of the history", final=True)


# first build in this process of every (atnum, preset) with the default radial grid: it precedes every in-place edit
# of anything derived from it, so it is the clean reference for all later builds
_PRESET_ANCHOR = {}


def body(case, ctx):
    _reset_global_state()
    hist = _History(case, ctx)
    n = len(case["steps"])
    ctx.cls("len:1-4" if n <= 4 else "len:5-8" if n <= 8 else "len:9-14" if n <= 14 else "len:15+")
    hist.run(case["steps"])


# ---------------------------------------------------------------------------
# generators
# ---------------------------------------------------------------------------
def _key_strategy():
    def for_method(m):
        mx = _MAXDEG[m]
        lo = min(dl.degrees(m))
        tab = [d for d in dl.degrees(m) if d <= mx]
        by_deg = st.fixed_dictionaries(
            {"method": st.just(m), "by": st.just("degree"), "req": st.one_of(st.sampled_from(tab), st.integers(0 if m != "ahrens_beylkin" else lo - 3, mx))}
        )
        sizes = [dl.size_of_degree(m, d) for d in tab]
        by_size = st.fixed_dictionaries(
            {"method": st.just(m), "by": st.just("size"), "req": st.one_of(st.sampled_from(sizes), st.integers(1, max(sizes)))}
        )
        return st.one_of(by_deg, by_deg, by_size)

    return st.sampled_from(METHODS).flatmap(for_method)


_IDX = st.integers(0, 5)
_S_ANG = st.fixed_dictionaries({"op": st.just("ang"), "k": _IDX, "cache": st.booleans()})
_S_EDIT = st.fixed_dictionaries(
    {
        "op": st.just("edit"),
        "t": st.integers(0, 11),
        "what": st.integers(0, 1),
        "how": st.sampled_from(["fill", "scale", "reverse", "neg"]),
        "val": st.sampled_from([0.0, 3.0, -1.5, 0.5, 1e6]),
    }
)
_S_ATOM = st.fixed_dictionaries(
    {
        "op": st.just("atom"),
        "ks": st.lists(_IDX, min_size=1, max_size=4),
        "single": st.booleans(),
        "r0": st.booleans(),
        "rot": st.sampled_from([0, 0, 1, 7, 12345]),
        "center": st.booleans(),
        "via": st.sampled_from(["degrees", "degrees", "sizes"]),
    }
)
_S_SHELL = st.fixed_dictionaries({"op": st.just("shell"), "a": _IDX, "j": _IDX, "r_sq": st.booleans()})
_S_ANGINT = st.fixed_dictionaries({"op": st.just("angint"), "a": _IDX, "fs": st.integers(0, 9), "two": st.booleans()})
_S_SPL = st.fixed_dictionaries({"op": st.just("splines"), "a": _IDX, "fs": st.integers(0, 9)})
_S_MOL = st.fixed_dictionaries(
    {
        "op": st.just("mol"),
        "ks": st.lists(_IDX, min_size=1, max_size=2),
        "single": st.booleans(),
        "r0": st.just(False),
        "rot": st.sampled_from([0, 3]),
        "via": st.just("degrees"),
        "store": st.booleans(),
        "d": st.sampled_from([1.0, 2.5]),
    }
)
_XS = st.lists(st.floats(0.05, 9.0, allow_nan=False, allow_infinity=False), min_size=1, max_size=5)
_S_TFNEW_B = st.fixed_dictionaries(
    {
        "op": st.just("tf_new"),
        "kind": st.sampled_from(["lin", "exp", "pow"]),
        "rmin": st.floats(0.01, 1.0),
        "span": st.floats(1.0, 50.0),
        "b": st.one_of(st.none(), st.none(), st.floats(0.5, 20.0)),
    }
)
_S_TFNEW_H = st.fixed_dictionaries({"op": st.just("tf_new"), "kind": st.just("hyp"), "rmin": st.floats(0.1, 3.0), "hb": st.floats(0.01, 0.15)})

_S_TFCALL = st.fixed_dictionaries(
    {
        "op": st.just("tf_call"),
        "tf": st.integers(0, 2),
        "meth": st.sampled_from(["inverse", "deriv", "deriv3", "deriv2", "grid", "transform"]),
        "xs": _XS,
    }
)
_S_PRESET = st.fixed_dictionaries({"op": st.just("preset"), "z": st.sampled_from([1, 6, 8]), "preset": st.sampled_from(["coarse", "medium"])})
_S_CONVERT = st.fixed_dictionaries({"op": st.just("convert"), "method": st.sampled_from(METHODS), "req": st.sampled_from([6, 20, 50, 100, 110, 170])})
_S_COUL = st.fixed_dictionaries({"op": st.just("coul"), "el": st.sampled_from(ELEMENTS), "npint": st.booleans()})


def _weighted(*pairs):
    """one_of with integer weights (one_of drops repeated strategy objects, so every copy is wrapped)."""
    out = []
    for strat, weight in pairs:
        for _ in range(weight):
            out.append(strat.map(lambda d: d))
    return st.one_of(*out)


def _case(steps, nkeys=(1, 3)):
    return st.fixed_dictionaries({"keys": st.lists(_key_strategy(), min_size=nkeys[0], max_size=nkeys[1]), "steps": steps})


def _with_prefix(prefix, step, min_size, max_steps):
    """prefix steps (so that later steps have something to work on) + a list of at least min_size steps."""
    return st.tuples(prefix, st.lists(step, min_size=min_size, max_size=max_steps)).map(lambda t: list(t[0]) + list(t[1]))


def strat_angular(max_steps):
    step = _weighted((_S_ANG, 3), (_S_EDIT, 5), (_S_ATOM, 2), (_S_SHELL, 2), (_S_ANGINT, 1), (_S_SPL, 1), (_S_MOL, 1), (_S_PRESET, 2), (_S_CONVERT, 2))
    prefix = st.one_of(st.tuples(_S_ANG), st.tuples(_S_ATOM), st.tuples(_S_ANG, _S_ATOM), st.tuples(_S_ATOM, _S_SHELL), st.tuples(_S_MOL))
    return _case(_with_prefix(prefix, step, 3, max_steps))


def strat_transform(max_steps):
    tfnew = _weighted((_S_TFNEW_B, 5), (_S_TFNEW_H, 1))
    step = _weighted((_S_TFCALL, 6), (tfnew, 1))
    first = _S_TFCALL.map(lambda d: dict(d, tf=0))
    return st.fixed_dictionaries({"keys": st.just([]), "steps": _with_prefix(st.tuples(tfnew, first), step, 2, max_steps)})


def strat_coulomb(max_steps):
    return st.fixed_dictionaries({"keys": st.just([]), "steps": _with_prefix(st.tuples(_S_COUL), _weighted((_S_COUL, 2), (_S_EDIT, 1)), 2, max_steps)})


def strat_mixed(max_steps):
    tfnew = _weighted((_S_TFNEW_B, 5), (_S_TFNEW_H, 1))
    step = _weighted((_S_ANG, 2), (_S_EDIT, 5), (_S_ATOM, 2), (_S_SHELL, 2), (_S_ANGINT, 1), (_S_SPL, 1), (_S_MOL, 1), (tfnew, 1), (_S_TFCALL, 4), (_S_COUL, 2), (_S_PRESET, 2))
    prefix = st.one_of(st.tuples(_S_ATOM, tfnew), st.tuples(_S_ANG, tfnew, _S_COUL), st.tuples(_S_ATOM, _S_SHELL, tfnew))
    return _case(_with_prefix(prefix, step, 3, max_steps))


# ---------------------------------------------------------------------------
# pinned regression cases (fixed defect a7d2bd6 and the documented orders)
# ---------------------------------------------------------------------------
def pinned_cases():
    out = []
    small = {"lebedev": 7, "spherical": 5, "maxdet": 4, "ahrens_beylkin": 14}
    for m in METHODS:
        keys = [{"method": m, "by": "degree", "req": small[m]}]
        for what in (0, 1):
            for how, val in (("fill", 0.0), ("scale", 3.0), ("reverse", 0.0)):
                # build (cached) -> edit the returned grid in place -> build again with cache on and off
                out.append(
                    {
                        "keys": keys,
                        "steps": [
                            {"op": "ang", "k": 0, "cache": True},
                            {"op": "edit", "t": 0, "what": what, "how": how, "val": val},
                            {"op": "ang", "k": 0, "cache": True},
                            {"op": "ang", "k": 0, "cache": False},
                        ],
                    }
                )
        # shell grid of an atomic grid edited in place, then a new atomic grid / r=0 integration / splines
        out.append(
            {
                "keys": keys,
                "steps": [
                    {"op": "atom", "ks": [0, 0], "single": False, "r0": True, "rot": 0, "center": False, "via": "degrees"},
                    {"op": "shell", "a": 0, "j": 1, "r_sq": True},
                    {"op": "edit", "t": 1, "what": 0, "how": "scale", "val": 3.0},
                    {"op": "edit", "t": 1, "what": 1, "how": "fill", "val": 0.0},
                    {"op": "atom", "ks": [0, 0, 0], "single": True, "r0": True, "rot": 7, "center": True, "via": "sizes"},
                    {"op": "angint", "a": 1, "fs": 3, "two": True},
                    {"op": "splines", "a": 1, "fs": 1},
                    {"op": "splines", "a": 1, "fs": 2},
                    {"op": "mol", "ks": [0], "single": True, "r0": False, "rot": 3, "via": "degrees", "store": True, "d": 2.5},
                ],
            }
        )
    # transforms: every first-call method, then every other method, inferred and explicit b
    meths = ["transform", "deriv", "deriv2", "deriv3", "inverse", "grid"]
    for kind in ("lin", "exp", "pow"):
        for b in (None, 7.0):
            for first in meths:
                steps = [{"op": "tf_new", "kind": kind, "rmin": 0.5, "span": 19.5, "b": b}, {"op": "tf_call", "tf": 0, "meth": first, "xs": [0.5, 4.0, 2.0]}]
                steps += [{"op": "tf_call", "tf": 0, "meth": m, "xs": [1.0, 8.5, 0.25][: 1 + i % 3]} for i, m in enumerate(meths)]
                out.append({"keys": [], "steps": steps})
    out.append(
        {
            "keys": [],
            "steps": [{"op": "tf_new", "kind": "hyp", "rmin": 1.5, "hb": 0.1}]
            + [{"op": "tf_call", "tf": 0, "meth": m, "xs": [0.5, 1.0, 2.0]} for m in ("inverse", "deriv3", "transform", "deriv", "deriv2")],
        }
    )
    # Coulomb table: load, destroy the result, load again (symbol, lower case, atomic number)
    for el in ("H", "cl", 8, 6, "N"):
        out.append(
            {
                "keys": [],
                "steps": [
                    {"op": "coul", "el": el, "npint": False},
                    {"op": "edit", "t": 0, "what": 0, "how": "fill", "val": 0.0},
                    {"op": "edit", "t": 0, "what": 1, "how": "neg", "val": 0.0},
                    {"op": "coul", "el": el, "npint": True},
                ],
            }
        )
    return out


# ---------------------------------------------------------------------------
def selftest():
    for m in dl.METHODS:
        assert len(dl.table(m)) > 10, f"data table for {m} not found"
    tab = _json_table()
    assert set(tab) >= {"H", "C", "N", "O", "Cl"}, "atomic_gauss_params.json not found / incomplete"
    # the retyped closed forms are mutually consistent: inverse(transform(x)) = x, derivatives by differences
    x = np.array([0.3, 1.7, 4.0])
    for kind, prm, b in (("lin", (0.5, 20.0), 7.0), ("exp", (0.5, 20.0), 7.0), ("pow", (0.5, 20.0), 7.0), ("hyp", (1.5, 0.1), None)):
        r = tf_closed_form(kind, prm, b, "transform", x)
        back = tf_closed_form(kind, prm, b, "inverse", r)
        assert np.allclose(back, x, rtol=1e-12), f"closed form inverse/transform inconsistent for {kind}"
        h = 1e-5
        for lo, hi in (("transform", "deriv"), ("deriv", "deriv2"), ("deriv2", "deriv3")):
            num = (tf_closed_form(kind, prm, b, lo, x + h) - tf_closed_form(kind, prm, b, lo, x - h)) / (2 * h)
            ref = tf_closed_form(kind, prm, b, hi, x)
            assert np.allclose(num, ref, rtol=1e-6, atol=1e-7), f"closed form {hi} of {kind} is not the derivative of {lo}"
        if kind != "hyp":
            assert abs(tf_closed_form(kind, prm, b, "transform", np.array([b]))[0] - prm[1]) < 1e-12 * prm[1], f"r(b) != rmax for {kind}"
    # the Gram-matrix comparison notices a permutation of a shell
    up, _ = dl.load("lebedev", 7)
    assert not np.allclose(up @ up.T, up[::-1] @ up[::-1].T)
    assert math.isfinite(EPS)


def subchecks(tier, seed):
    quick = tier == "quick"
    n_ang, n_tf, n_co, n_mix = (8000, 8000, 1600, 6000) if quick else (100000, 60000, 10000, 80000)
    ms = 14 if quick else 24
    return [
        SubCheck("angular-history", body, strategy=strat_angular(ms), examples=n_ang, cases=[c for c in pinned_cases() if c["keys"]], shards=16),
        SubCheck("transform-order", body, strategy=strat_transform(ms), examples=n_tf, cases=[c for c in pinned_cases() if not c["keys"] and c["steps"][0]["op"] == "tf_new"], shards=16),
        SubCheck("coulomb-table", body, strategy=strat_coulomb(ms), examples=n_co, cases=[c for c in pinned_cases() if not c["keys"] and c["steps"][0]["op"] == "coul"], shards=8),
        SubCheck("mixed-history", body, strategy=strat_mixed(ms + 2), examples=n_mix, shards=16),
    ]
