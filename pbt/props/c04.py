"""C04 - transforming a 1D grid is a faithful change of variables.

Oracle: pbt.oracles.rtf_mp (forward maps typed from the class docstrings, mpmath 40 digits,
Jacobian r'(x) by mp.diff - never tf.deriv), the rule's own nodes/weights as input data, integrands
evaluated by this module in mpmath.  Exactness transport uses a Legendre three-term recurrence
written here.

Error model: a new node is F(x_i) within RT*max(1,|F|) + CS*eps*(|x_i|+P)*|F'(x_i)|; a new
weight is w_i*|F'(x_i)| within |w_i| * (RT*|F'| + CS*eps*(|x_i|+P)*|F''|) - the same backward-error
model as C03 (RT = 1e-9, CS = 1e3, P the additive parameter scale; for InverseRTransform, whose
derivative is documented as 1/inner.deriv(y) at y = inner.inverse(r), additionally the rounding of y:
CS*eps*(|y|+P_y)*|F''/F'|); the sum over the new grid is compared with the
mpmath sum of g(F(x_i))|F'(x_i)|w_i within the first-order propagation of those two bounds
(Lipschitz constant of g times the node bound, |g| times the weight bound).
"""
import numpy as np
from hypothesis import strategies as st

from ..core import EPS, SubCheck
from ..oracles import rtf_mp as O

mp = O.mp

PROPERTY = "C04"
RULE = (
    "change-of-variables: Hypothesis draws (rule, n) from the 17 rules on [-1,1] and 7 rules on [0,inf) of grid.onedgrid "
    "(n in 2..41, odd where the rule demands it, ExpSinh n<=9 because its nodes overflow beyond), a transform whose "
    "declared domain contains the rule's domain - the 6 classes on [-1,1], Identity/LinearInfinite/Exp/Power (explicit b or "
    "b inferred from the grid)/Hyperbolic (b below 1/(n-1) and below 1/max node) on [0,inf), or InverseRTransform of a "
    "class whose codomain contains the rule's domain (rmin<=-1 resp. rmin<=0) - with parameters as in C03, and an "
    "integrand from {Gaussian, exp(-alpha r), 1/(1+(r-c)^2), shifted Legendre P_k on a finite image}; nodes, weights, "
    "the sum, signs and the new domain are compared with the mpmath model. exactness-transport: GaussLegendre(n), n in "
    "2..60 (thorough 2..120), through LinearFinite(a, a+size), a in [-10,10], size in [0.05,40]: every shifted Legendre "
    "P_k, k <= 2n-1. non-trivial = decreasing map, or infinite image, or n odd; distinct = distinct descriptor"
)
RULE = RULE + " " + 'Every case applies the same transform instance three times to the same grid (identical results, first result and source grid untouched) and once more after the source grid got other weights through the setter (same nodes, new weights).'

ASSUMPTIONS = [
    "the class docstrings of rtransform.py define the maps (see pbt/oracles/rtf_mp.py); mp.diff at 40 digits is r'(x)",
    "the nodes and weights of the input rule are taken as data (their correctness is C01)",
    "a node that sits on an end point where r or r' is infinite has no finite Jacobian weight: its node value is checked "
    "(infinity, or 1e16 under trimming), its weight and the sum over that grid are not",
    "the image of the declared domain end inf of HyperbolicRTransform is read as inf (domain of use [0,1/b) -> [0,inf))",
]

RT = 1e-9
CS = 1e3
FLOOR = 1e-25

RULES_PM1 = ["GaussLegendre", "GaussChebyshev", "GaussChebyshevType2", "GaussChebyshevLobatto", "Trapezoidal",
             "RectangleRuleSineEndPoints", "TanhSinh", "Simpson", "MidPoint", "ClenshawCurtis", "FejerFirst", "FejerSecond",
             "TrefethenCC", "TrefethenGC2", "TrefethenStripCC", "TrefethenStripGC2", "SingleTanh"]
RULES_ZINF = ["GaussLaguerre", "UniformInteger", "ExpSinh", "LogExpSinh", "ExpExp", "SingleExp", "SingleArcSinhExp"]
ODD_ONLY = {"TanhSinh", "Simpson", "SingleTanh", "ExpSinh", "LogExpSinh", "ExpExp", "SingleExp", "SingleArcSinhExp"}
NMAX = {"ExpSinh": 9}


# ---------------------------------------------------------------------------------------------
# integrands: the same definition evaluated in mpmath (reference) and numpy (on the library's nodes)
def _legendre(k, t, one):
    """P_k(t) by the three-term recurrence (k+1) P_{k+1} = (2k+1) t P_k - k P_{k-1}; works for mpf and ndarray."""
    p0, p1 = one, t
    if k == 0:
        return p0 + 0 * t
    for j in range(1, k):
        p0, p1 = p1, ((2 * j + 1) * t * p1 - j * p0) / (j + 1)
    return p1


def make_g(g, lo, hi):
    """(g_mp, g_np, lipschitz(rlo, rhi), positive)"""
    kind = g["kind"]
    if kind == "legendre" and not (np.isfinite(lo) and np.isfinite(hi) and hi > lo):
        kind = "rational"
    if kind == "gauss":
        a, c = g["alpha"], g["c"]
        return (lambda r: mp.exp(-O.M(a) * (r - O.M(c)) ** 2), lambda r: np.exp(-a * (r - c) ** 2),
                lambda rlo, rhi: np.sqrt(2 * a) * np.exp(-0.5), True, kind)
    if kind == "expdecay":
        a = g["alpha"]
        return (lambda r: mp.exp(-O.M(a) * r), lambda r: np.exp(-a * r), lambda rlo, rhi: a * np.exp(-a * min(rlo, 0.0)) , True, kind)
    if kind == "rational":
        c = g.get("c", 0.25 * g.get("k", 0))  # the Legendre integrand falls back to this one on an infinite image
        return (lambda r: 1 / (1 + (r - O.M(c)) ** 2), lambda r: 1.0 / (1.0 + (r - c) ** 2), lambda rlo, rhi: 0.65, True, kind)
    k = g["k"]
    lom, him = O.M(lo), O.M(hi)
    return (lambda r: _legendre(k, (2 * r - (lom + him)) / (him - lom), mp.mpf(1)),
            lambda r: _legendre(k, (2 * r - (lo + hi)) / (hi - lo), np.ones_like(r)),
            lambda rlo, rhi: k * (k + 1) / 2.0 * 2.0 / (hi - lo), False, kind)


# ---------------------------------------------------------------------------------------------
def finalize(desc, x):
    """Hyperbolic: b from the fraction and the actual grid (b*(n-1) < 1 and every node below the pole 1/b)."""
    if desc["cls"] == "Inverse":
        return {"cls": "Inverse", "inner": finalize(desc["inner"], x)}
    if desc["cls"] == "Hyperbolic" and "bfrac" in desc:
        lim = max(float(len(x) - 1), float(np.max(x)) * 1.001, 1e-3)
        return {"cls": "Hyperbolic", "a": desc["a"], "b": desc["bfrac"] / lim}
    return desc


def body_cov(case, ctx):
    import grid.onedgrid as og

    rule, n = case["rule"], case["n"]
    grid = getattr(og, rule)(n)
    x = np.asarray(grid.points, dtype=float)
    w = np.asarray(grid.weights, dtype=float)
    if not (np.all(np.isfinite(x)) and np.all(np.isfinite(w))):
        ctx.skip("rule with non-finite nodes or weights")
        return
    desc = finalize(case["tf"], x)
    base = O.base_of(desc)
    name = O.name_of(desc)
    inverted = desc["cls"] == "Inverse"
    if base["cls"] == "HandyMod" and not O.handymod_admissible(base, 0.009):
        ctx.skip("HandyMod with a pole in (-1,1]")
        return
    b = None
    if base["cls"] in O.BSCALED and base["b"] is None:
        b = float(np.max(x))  # documented: the maximum of the first grid that is transformed
    rf = O.ref(desc, b)
    trim = O.trims(desc) and not inverted
    ctx.cls(name, rule)
    ctx.cls("increasing" if rf.increasing else "decreasing")
    if base["cls"] in O.BSCALED:
        ctx.cls("b-inferred" if base["b"] is None else "b-explicit")
    d0, d1 = (float(v) for v in grid.domain)
    im = [rf.F_closed(O.M(d)) if not (base["cls"] == "Hyperbolic" and not inverted and np.isinf(d)) else O.INF for d in (d0, d1)]
    lo, hi = sorted(float(v) for v in im)
    ctx.nt((not rf.increasing) or np.isinf(hi) or np.isinf(lo) or n % 2 == 1)
    ctx.cls("infinite-image" if (np.isinf(hi) or np.isinf(lo)) else "finite-image", "n-odd" if n % 2 else "n-even")

    # ---- per node reference (before the library is called) --------------------------------------------------
    refs = []
    for i in range(len(x)):
        xm = O.M(float(x[i]))
        fv = rf.F_closed(xm)
        rec = {"fv": fv, "singular": False, "f1": None, "f2": None, "dx": abs(xm) + rf.px}
        if not mp.isfinite(fv):
            rec["singular"] = True
        else:
            ds = O.derivs(rf.F, xm, 2)
            rec["f1"], rec["f2"] = ds
            if inverted and base["cls"] in O.PM1:
                # y = inner.inverse(r) is known to CS*eps*(|r|+P)*|dy/dr| only; if that reaches an end of [-1,1] the node
                # cannot be told from the end in double precision: singular if the inner r'(y) is 0/infinite at that end
                yf = float(fv)
                reach = CS * EPS * float(rec["dx"]) * abs(float(ds[0])) if ds[0] is not None else 0.0
                if min(1.0 + yf, 1.0 - yf) <= reach:
                    yv = O.M(1.0 if yf > 0 else -1.0)
                    g1 = O.derivs(rf.G, yv, 1)[0]
                    rec["singular"] = O.value(rf.G, yv) is None or g1 is None or g1 == 0
            big = [v for v in (fv, ds[0], ds[1]) if v is not None and abs(v) > mp.mpf(10) ** 300]
            if big:
                ctx.skip("image or Jacobian beyond the double-precision range")
                return
        refs.append(rec)

    tf = O.build(desc)
    try:
        new = tf.transform_1d_grid(grid)
    except ValueError as exc:
        msg = f"{rule}({n}) domain {grid.domain} through {desc} (domain {tf.domain}): ValueError {exc}"
        top = max((abs(float(r["fv"])) for r in refs if mp.isfinite(r["fv"])), default=0.0)
        if trim and top > O.TRIM_VALUE and "domain" in str(exc):
            # narrow model: trimming on AND an interior node maps beyond the stand-in for infinity (1e16), so the trimmed
            # domain end lies below a node and OneDGrid refuses the grid
            ctx.known("KF-C04-trim-domain-below-nodes", f"{name}.rejected-valid-grid", msg + f" (largest finite node {top:.3e})")
        else:
            ctx.fail(f"{name}.rejected-valid-grid", msg)
        return
    except ZeroDivisionError as exc:
        # InverseRTransform documents this error for a point where the inner derivative is 0, i.e. where the Jacobian of
        # the inverted map is infinite (a node on rmin of Knowles/Handy/HandyMod with k, m > 1)
        if inverted and any(r["singular"] or r["f1"] is None for r in refs):
            ctx.skip("node where the inverted map has an infinite Jacobian (documented ZeroDivisionError)")
        else:
            ctx.fail(f"{name}.rejected-valid-grid", f"{rule}({n}) through {desc}: ZeroDivisionError {exc}")
        return
    P, W = np.array(new.points, dtype=float), np.array(new.weights, dtype=float)
    # the same transform instance used again (and a third time) on the same grid: a change of variables is a pure
    # function of (transform, grid) - same answer every time, earlier results and the source grid untouched
    try:
        again = [tf.transform_1d_grid(grid) for _ in range(2)]
    except Exception as exc:  # noqa: BLE001 - the first call succeeded, so any failure now is history dependence
        ctx.fail(f"{name}.repeated-use", f"{rule}({n}) through {desc}: second transform_1d_grid with the same instance raised {type(exc).__name__}: {exc}")
        again = []
    for k, g2 in enumerate(again):
        same = np.array_equal(np.asarray(g2.points), P, equal_nan=True) and np.array_equal(np.asarray(g2.weights), W, equal_nan=True)
        ctx.check(same, f"{name}.repeated-use", f"{rule}({n}) through {desc}: call #{k + 2} of transform_1d_grid with the same transform instance and grid differs from call #1")
    ctx.check(np.array_equal(np.asarray(new.points), P, equal_nan=True) and np.array_equal(np.asarray(new.weights), W, equal_nan=True),
              f"{name}.repeated-use", f"{rule}({n}) through {desc}: the grid returned by the first call changed after later calls")
    ctx.check(np.array_equal(np.asarray(grid.points, dtype=float), x) and np.array_equal(np.asarray(grid.weights, dtype=float), w),
              f"{name}.source-grid-modified", f"{rule}({n}) through {desc}: transform_1d_grid changed the source grid")
    # ... and a function of the grid's CURRENT contents: after the caller gave the SAME source-grid object other
    # weights (setter), the next call answers for the new weights
    if again:
        # (earlier results are NOT edited in place here: IdentityRTransform.transform returns its argument, so the
        # grid it produces shares its points array with the source grid - an aliasing the properties do not forbid)
        grid.weights = (w * 2.0).copy()
        try:
            g3 = tf.transform_1d_grid(grid)
            ok3 = np.array_equal(np.asarray(g3.points), P, equal_nan=True) and np.array_equal(np.asarray(g3.weights), 2.0 * W, equal_nan=True)
            ctx.check(ok3, f"{name}.repeated-use", f"{rule}({n}) through {desc}: after the source grid's weights were doubled through the setter, "
                      "transform_1d_grid of the same grid object does not return the same nodes with doubled weights")
        except Exception as exc:  # noqa: BLE001
            ctx.fail(f"{name}.repeated-use", f"{rule}({n}) through {desc}: transform_1d_grid after a weights reassignment raised {type(exc).__name__}: {exc}")
        grid.weights = w.copy()
    if P.shape != x.shape or W.shape != x.shape:
        ctx.fail(f"{name}.shape", f"{rule}({n}) through {desc}: points {P.shape}, weights {W.shape}, expected {x.shape}")
        return

    signed_hits, sum_ok = [], True
    node_tol, w_tol, w_ref, f_ref = np.zeros(n), np.zeros(n), np.zeros(n), [None] * n
    head = f"{rule}({n}) through {name} {desc}"
    for i, rec in enumerate(refs):
        fv, f1, f2, dx = rec["fv"], rec["f1"], rec["f2"], rec["dx"]
        if not mp.isfinite(fv):
            sum_ok = False
            want = float(np.sign(float(fv))) * (O.TRIM_VALUE if trim else np.inf)
            if not P[i] == want:
                msg = f"{head}: node x={x[i]!r} on the singular end maps to {P[i]!r}, expected {want!r}"
                if float(x[i]) == 1.0 and not inverted and O.knowles_end_buggy_model(base, P[i]):
                    ctx.known("KF-C04-knowles-end-rounding", f"{name}.nodes", msg)
                else:
                    ctx.fail(f"{name}.nodes", msg)
            ctx.cls("node-on-singular-end")
            continue
        node_tol[i] = RT * max(1.0, abs(float(fv))) + (CS * EPS * float(dx) * abs(float(f1)) if f1 is not None else 0.0)
        _track(ctx, abs(P[i] - float(fv)), node_tol[i], "nodes")
        if not abs(P[i] - float(fv)) <= node_tol[i]:
            ctx.fail(f"{name}.nodes", f"{head}: node {i} x={x[i]!r} -> {P[i]!r}, reference {float(fv)!r} (tol {node_tol[i]:.1e})")
        if rec["singular"]:
            sum_ok = False
            ctx.cls("node-on-singular-end")
            continue
        if f1 is None or f2 is None:
            sum_ok = False  # end point with a branch point of the map (non-integer power): no Jacobian reference
            ctx.cls("node-without-jacobian-reference")
            continue
        f_ref[i] = fv
        jac = abs(float(f1))
        rel = RT * jac + CS * EPS * float(dx) * abs(float(f2))
        if inverted and jac > 0:
            # InverseRTransform.deriv is documented as 1 / inner.deriv(y) at y = inner.inverse(r): y carries a rounding error
            # eps*(|y| + P_y), and d/dy of the result is F''/F'
            rel += CS * EPS * float(abs(fv) + rf.py) * abs(float(f2)) / jac
        w_ref[i] = w[i] * jac
        w_tol[i] = abs(w[i]) * rel + FLOOR * max(abs(w[i]), 1.0)
        _track(ctx, min(abs(W[i] - w_ref[i]), abs(W[i] + w_ref[i]) if not rf.increasing else np.inf), w_tol[i], "weights")
        if abs(W[i] - w_ref[i]) <= w_tol[i]:
            continue
        msg = f"{head}: weight {i} at x={x[i]!r} is {W[i]!r}, reference w*|r'| = {w[i]!r}*{jac!r} = {w_ref[i]!r} (tol {w_tol[i]:.1e})"
        if (not rf.increasing) and abs(W[i] + w_ref[i]) <= w_tol[i]:
            signed_hits.append(msg)  # narrow model: decreasing map AND new weight == deriv(x)*w (signed Jacobian)
        else:
            ctx.fail(f"{name}.weights", msg)
    if signed_hits:
        ctx.known("KF-C04-multiexp-negweights", f"{name}.weights-negative", f"{len(signed_hits)} of {n} weights; e.g. {signed_hits[0]}")
    signed = bool(signed_hits)

    # ---- positive weights stay non-negative ---------------------------------------------------------------------
    if np.all(w >= 0):
        bad = [i for i in range(n) if f_ref[i] is not None and W[i] < -w_tol[i]]
        if bad and not signed:
            ctx.fail(f"{name}.negative-weights", f"{head}: {len(bad)} negative weights from non-negative ones, e.g. {W[bad[0]]!r}")

    # ---- the sum over the new grid ------------------------------------------------------------------------------
    g_mp, g_np, lips, positive, gkind = make_g(case["g"], lo, hi)
    ctx.cls("g-" + gkind)
    if sum_ok:
        terms = [g_mp(f_ref[i]) * O.M(float(w_ref[i])) for i in range(n)]
        s_ref = float(mp.fsum(terms))
        gv = np.array([abs(float(g_mp(f_ref[i]))) for i in range(n)])
        rlo, rhi = float(min(f_ref)), float(max(f_ref))
        tol = float(np.sum(np.abs(w_ref) * lips(rlo, rhi) * node_tol + gv * w_tol) + CS * EPS * np.sum(gv * np.abs(w_ref)))
        with np.errstate(all="ignore"):
            got = float(new.integrate(g_np(P)))
        _track(ctx, min(abs(got - s_ref), abs(got + s_ref) if signed else np.inf), tol, "sum")
        if abs(got - s_ref) <= tol:
            pass
        elif signed and abs(got + s_ref) <= tol:
            pass  # the same recorded finding (already counted above): every weight carries the sign of r'
        else:
            ctx.fail(f"{name}.sum", f"{head}, g={case['g']}: sum over the new grid {got!r}, sum g(r(x_i))|r'(x_i)|w_i = {s_ref!r} (tol {tol:.1e})")
        if positive and np.all(w >= 0) and s_ref > 10 * tol and not got > 0 and not signed:
            ctx.fail(f"{name}.positive-integrand", f"{head}, g={case['g']}: positive integrand integrates to {got!r}")
    else:
        ctx.cls("sum-not-compared")

    # ---- new domain = ordered image of the old one, contains every node ----------------------------------------
    want = []
    for v in (lo, hi):
        want.append(float(np.sign(v)) * O.TRIM_VALUE if (np.isinf(v) and trim) else v)
    dom = new.domain
    if dom is None or len(dom) != 2:
        ctx.fail(f"{name}.domain", f"{head}: new domain {dom!r}")
        return
    g0, g1 = float(dom[0]), float(dom[1])

    # a finite end that is the image of an interior point of the map carries the same conditioning as a node
    end_sens = {}
    for d, v in zip((d0, d1), im):
        if np.isfinite(d) and mp.isfinite(v) and O.M(d) not in rf.ends:
            f1 = O.derivs(rf.F, O.M(d), 1)[0]
            end_sens[float(v)] = CS * EPS * float(abs(O.M(d)) + rf.px) * abs(float(f1)) if f1 is not None else 0.0

    def end_ok(got, ref):
        return (got == ref) if np.isinf(ref) else (abs(got - ref) <= RT * max(1.0, abs(ref)) + end_sens.get(ref, 0.0))

    if not (end_ok(g0, want[0]) and end_ok(g1, want[1])):
        msg = f"{head}: new domain {(g0, g1)!r}, ordered image of {grid.domain} is {tuple(want)!r}"
        top_inf = np.isinf(d1)
        if end_ok(g0, want[0]) and not inverted and base["cls"] == "Knowles" and O.knowles_end_buggy_model(base, g1):
            ctx.known("KF-C04-knowles-end-rounding", f"{name}.domain", msg)
        elif np.isnan(g1) and top_inf and inverted and base["cls"] in ("Becke", "Handy", "Hyperbolic") and end_ok(g0, want[0]):
            ctx.known("KF-C04-inverse-domain-nan", f"{name}.domain", msg)
        elif np.isnan(g1) and top_inf and not inverted and base["cls"] == "Hyperbolic" and end_ok(g0, want[0]):
            ctx.known("KF-C04-hyperbolic-domain-nan", f"{name}.domain", msg)
        else:
            ctx.fail(f"{name}.domain", msg)
    # ---- the same nodes and weights declared on a strict SUB-interval of the rule's domain (what a chained transform or a
    # hand-made OneDGrid produces): the new domain is the ordered image of THAT interval, not of the transform's whole domain
    try:
        from grid.basegrid import OneDGrid

        xa, xb = float(np.min(x)), float(np.max(x))
        a_sub = 0.5 * (d0 + xa) if np.isfinite(d0) else xa - 1.0
        b_sub = 0.5 * (d1 + xb) if np.isfinite(d1) else xb + 1.0
        if d0 < a_sub <= xa and xb <= b_sub < d1:
            fa, fb = O.value(rf.F, O.M(a_sub)), O.value(rf.F, O.M(b_sub))
            if fa is not None and fb is not None and mp.isfinite(fa) and mp.isfinite(fb) and abs(float(fa)) < O.TRIM_VALUE and abs(float(fb)) < O.TRIM_VALUE:
                sub_new = tf.transform_1d_grid(OneDGrid(x.copy(), w.copy(), (a_sub, b_sub)))
                want_sub = sorted([float(fa), float(fb)])
                got_sub = tuple(float(v) for v in sub_new.domain)
                sens = []
                for pt_, ref_ in ((a_sub, float(fa)), (b_sub, float(fb))):
                    f1_ = O.derivs(rf.F, O.M(pt_), 1)[0]
                    sens.append((ref_, RT * max(1.0, abs(ref_)) + (CS * EPS * float(abs(O.M(pt_)) + rf.px) * abs(float(f1_)) if f1_ is not None else 0.0)))
                tol_of = dict(sens)
                ok_sub = all(abs(g - r_) <= tol_of[r_] for g, r_ in zip(got_sub, want_sub))
                ctx.cls("sub-interval-domain-compared")
                if not ok_sub:
                    ctx.fail(f"{name}.domain", f"{head}: grid declared on the sub-interval {(a_sub, b_sub)!r}: new domain {got_sub!r}, ordered image is {tuple(want_sub)!r}")
    except ValueError:
        pass  # OneDGrid / trimming refusals are covered by the main call above
    if end_ok(g0, want[0]) and end_ok(g1, want[1]):
        fin = np.isfinite(P)
        slack = np.where(fin, node_tol + RT * np.maximum(1.0, np.abs(np.where(fin, P, 0.0))), 0.0)
        if not (g0 <= g1 and np.all(P[fin] >= g0 - slack[fin]) and np.all(P[fin] <= g1 + slack[fin]) and not np.any(np.isnan(P))):
            ctx.fail(f"{name}.domain-contains-nodes", f"{head}: domain {(g0, g1)!r} does not contain nodes in [{np.min(P)!r}, {np.max(P)!r}]")


def _track(ctx, err, tol, what):
    """Remember the worst error/tolerance ratio of the case (read by the calibration script only)."""
    ratio = float(err) / float(tol) if tol > 0 else (0.0 if err == 0 else np.inf)
    if np.isfinite(ratio) and ratio > ctx.info.get("worst_ratio", 0.0):
        ctx.info["worst_ratio"], ctx.info["worst_what"] = float(ratio), what


# ---------------------------------------------------------------------------------------------
def body_exact(case, ctx):
    """GaussLegendre(n) mapped linearly to [a, a+size] integrates shifted Legendre P_k, k <= 2n-1, to (b-a)*delta_k0."""
    import grid.onedgrid as og
    import grid.rtransform as rt

    n, a, size = case["n"], case["a"], case["size"]
    bb = a + size
    ctx.cls("n-odd" if n % 2 else "n-even", "n<=10" if n <= 10 else ("n<=40" if n <= 40 else "n>40"))
    ctx.nt(n % 2 == 1 or a != -1.0 or bb != 1.0)
    new = rt.LinearFiniteRTransform(a, bb).transform_1d_grid(og.GaussLegendre(n))
    P, W = np.asarray(new.points, dtype=float), np.asarray(new.weights, dtype=float)
    L = bb - a
    t = (2.0 * P - (a + bb)) / L
    ctx.check(np.all(W > 0), "exactness.weights-positive", f"n={n} [{a},{bb}]: min weight {W.min()!r}")
    ctx.check(np.all(P >= a - 4 * EPS * max(abs(a), abs(bb))) and np.all(P <= bb + 4 * EPS * max(abs(a), abs(bb))), "exactness.nodes-inside", f"n={n} [{a},{bb}]: nodes in [{P.min()!r},{P.max()!r}]")
    dom = tuple(float(v) for v in new.domain)
    ctx.check(abs(dom[0] - a) <= 4 * EPS * max(1, abs(a)) and abs(dom[1] - bb) <= 4 * EPS * max(1, abs(bb)), "exactness.domain", f"n={n}: domain {dom} vs [{a},{bb}]")
    p0, p1 = np.ones_like(t), t.copy()
    worst = 0.0
    for k in range(0, 2 * n):
        pk = p0 if k == 0 else p1
        val = float(np.sum(W * pk))
        ref = L if k == 0 else 0.0
        # condition scale: sum |w_i P_k(t_i)| <= L; a node r_i = a + L(1+x_i)/2 and the factor (b-a)/2 carry eps*max(|a|,|b|) of
        # rounding, i.e. 2*eps*max(|a|,|b|)/L in t, entering with |P_k'| <= k(k+1)/2:
        #   C*eps*(L + (1 + k(k+1)/2) * (L + 2 max(|a|,|b|))), C = 1e3 (measured level on the unchanged tree: <= 8 in these units)
        tol = 1e3 * EPS * (L + (1.0 + 0.5 * k * (k + 1)) * (L + 2.0 * max(abs(a), abs(bb))))
        worst = max(worst, abs(val - ref) / tol)
        if not abs(val - ref) <= tol:
            ctx.fail("exactness.transport", f"GaussLegendre({n}) through LinearFinite({a},{bb}): integral of shifted P_{k} = {val!r}, exact {ref!r} (tol {tol:.1e})")
            break
        if k >= 1:
            p0, p1 = p1, ((2 * k + 1) * t * p1 - k * p0) / (k + 1)
    ctx.info["worst_ratio"] = worst


# ---------------------------------------------------------------------------------------------
def _g_strategy():
    f = lambda lo, hi: st.floats(lo, hi, allow_nan=False, allow_infinity=False)
    return st.one_of(
        st.fixed_dictionaries({"kind": st.just("gauss"), "alpha": f(0.05, 5.0), "c": f(-1.0, 3.0)}),
        st.fixed_dictionaries({"kind": st.just("expdecay"), "alpha": st.one_of(st.just(1.0), f(0.1, 3.0))}),
        st.fixed_dictionaries({"kind": st.just("rational"), "c": f(-1.0, 3.0)}),
        st.fixed_dictionaries({"kind": st.just("legendre"), "k": st.integers(0, 12)}),
    )


@st.composite
def cov_strategy(draw, nmax=41):
    pm1 = draw(st.booleans()) if draw(st.integers(0, 2)) else True  # 2/3 of the mass on [-1,1] (more rules, more classes)
    rule = draw(st.sampled_from(RULES_PM1 if pm1 else RULES_ZINF))
    n = draw(st.one_of(st.integers(2, min(nmax, NMAX.get(rule, nmax))), st.integers(2, 9)))
    n = min(n, NMAX.get(rule, nmax))
    if rule in ODD_ONLY and n % 2 == 0:
        n += 1
    if pm1:
        kind = draw(st.sampled_from(list(O.PM1) + ["MultiExp", "Inverse", "Inverse"]))
        if kind == "Inverse":
            inner_cls = draw(st.sampled_from(["LinearFinite", "HandyMod", "Becke", "MultiExp", "Knowles", "Handy", "LinearInfinite"]))
            inner = draw(O.base_desc(inner_cls, explicit_b=True))
            # the codomain of the inner transform must contain [-1, 1]
            inner["rmin"] = draw(st.one_of(st.just(-1.0), st.floats(-3.0, -1.0)))
            if inner_cls in ("LinearFinite", "LinearInfinite"):
                inner["rmax"] = draw(st.one_of(st.just(1.0), st.floats(1.0, 30.0)))
            if inner_cls == "HandyMod":
                gap = draw(st.floats(0.01, 40.0))
                inner["rmax"] = max(1.0, inner["rmin"] + (2.0 ** inner["m"] - 1.0) + gap)
            desc = {"cls": "Inverse", "inner": inner}
        else:
            desc = draw(O.base_desc(kind))
    else:
        kind = draw(st.sampled_from(["Identity", "LinearInfinite", "Exp", "Power", "Hyperbolic", "Inverse", "Inverse", "Inverse"]))
        if kind == "Inverse":
            inner_cls = draw(st.sampled_from(["Becke", "MultiExp", "Knowles", "Handy", "Identity", "Hyperbolic"]))
            if inner_cls == "Hyperbolic":
                inner = {"cls": "Hyperbolic", "a": draw(st.floats(0.05, 20.0)), "bfrac": draw(st.floats(0.01, 0.99))}
            else:
                inner = draw(O.base_desc(inner_cls, rmin_nonpos=True))
            desc = {"cls": "Inverse", "inner": inner}
        elif kind == "Hyperbolic":
            desc = {"cls": "Hyperbolic", "a": draw(st.floats(0.05, 20.0)), "bfrac": draw(st.one_of(st.floats(0.01, 0.99), st.just(0.5)))}
        else:
            desc = draw(O.base_desc(kind))
    return {"rule": rule, "n": n, "tf": desc, "g": draw(_g_strategy())}


def exact_strategy(nmax):
    f = lambda lo, hi: st.floats(lo, hi, allow_nan=False, allow_infinity=False)
    return st.fixed_dictionaries({
        "n": st.one_of(st.integers(2, nmax), st.integers(2, 12)),
        "a": st.one_of(f(-10.0, 10.0), st.sampled_from([-1.0, 0.0, 2.5])),
        "size": st.one_of(f(0.05, 40.0), st.sampled_from([2.0, 1.0, 0.05])),
    })


def pinned_cov():
    """One probe per recorded finding (its KNOWN-FINDING line is printed on every run) and plain regression cases."""
    g = {"kind": "expdecay", "alpha": 1.0}
    out = [
        # KF-C04-multiexp-negweights: integral of exp(-r) over [0, inf) comes out as -1
        {"rule": "GaussLegendre", "n": 20, "tf": {"cls": "MultiExp", "rmin": 0.0, "R": 1.5, "trim": True}, "g": g},
        {"rule": "GaussLaguerre", "n": 7, "tf": {"cls": "Inverse", "inner": {"cls": "MultiExp", "rmin": 0.0, "R": 1.5, "trim": True}}, "g": g},
        # KF-C04-knowles-end-rounding
        {"rule": "GaussLegendre", "n": 5, "tf": {"cls": "Knowles", "rmin": 0.2, "R": 1.0, "k": 1.5, "trim": True}, "g": g},
        {"rule": "Trapezoidal", "n": 6, "tf": {"cls": "Knowles", "rmin": 0.0, "R": 1.0, "k": 2.5, "trim": False}, "g": g},
        # KF-C04-inverse-domain-nan
        {"rule": "GaussLaguerre", "n": 5, "tf": {"cls": "Inverse", "inner": {"cls": "Becke", "rmin": 0.0, "R": 1.5, "trim": True}}, "g": g},
        {"rule": "GaussLaguerre", "n": 5, "tf": {"cls": "Inverse", "inner": {"cls": "Handy", "rmin": 0.0, "R": 1.5, "m": 2, "trim": True}}, "g": g},
        # KF-C04-trim-domain-below-nodes
        {"rule": "GaussChebyshev", "n": 23, "tf": {"cls": "Handy", "rmin": 2.0, "R": 20.0, "m": 6, "trim": True}, "g": g},
        # KF-C04-hyperbolic-domain-nan
        {"rule": "UniformInteger", "n": 8, "tf": {"cls": "Hyperbolic", "a": 0.7, "b": 0.05}, "g": g},
    ]
    for tfd in ({"cls": "Becke", "rmin": 0.0, "R": 1.5, "trim": True}, {"cls": "Knowles", "rmin": 0.0, "R": 1.5, "k": 2, "trim": True},
                {"cls": "Handy", "rmin": 0.0, "R": 1.5, "m": 3, "trim": False}, {"cls": "HandyMod", "rmin": 0.0, "rmax": 40.0, "m": 3, "trim": True},
                {"cls": "LinearFinite", "rmin": 0.0, "rmax": 12.0}):
        for rule, n in (("GaussLegendre", 21), ("GaussChebyshev", 12), ("ClenshawCurtis", 9), ("TanhSinh", 21)):
            out.append({"rule": rule, "n": n, "tf": tfd, "g": g})
    # large open rules: the extreme nodes lie within 1e-5 of the domain ends without being on them - the new domain is
    # still the image of the OLD DOMAIN, not of the extreme nodes
    for tfd in ({"cls": "LinearFinite", "rmin": 2.0, "rmax": 5.0}, {"cls": "Becke", "rmin": 0.0, "R": 1.5, "trim": True}):
        for rule, n in (("GaussChebyshev", 450), ("GaussChebyshevType2", 450), ("GaussLegendre", 600), ("FejerFirst", 500)):
            out.append({"rule": rule, "n": n, "tf": tfd, "g": g})
    for tfd in ({"cls": "Identity"}, {"cls": "LinearInfinite", "rmin": 0.0, "rmax": 12.0, "b": None}, {"cls": "Exp", "rmin": 0.01, "rmax": 12.0, "b": 10.0},
                {"cls": "Power", "rmin": 0.01, "rmax": 12.0, "b": None}):
        for rule, n in (("UniformInteger", 11), ("GaussLaguerre", 10), ("SingleExp", 15)):
            out.append({"rule": rule, "n": n, "tf": tfd, "g": g})
    return out


def selftest():
    O.selftest()
    # Legendre recurrence against mpmath's own Legendre function
    for k in (0, 1, 5, 12):
        v = _legendre(k, mp.mpf("0.3"), mp.mpf(1))
        assert abs(v - mp.legendre(k, mp.mpf("0.3"))) < mp.mpf(10) ** (-30), f"legendre recurrence k={k}"
    a = _legendre(7, np.array([0.3, -0.9]), np.ones(2))
    assert abs(a[0] - float(mp.legendre(7, 0.3))) < 1e-14


def subchecks(tier, seed):
    quick = tier == "quick"
    return [
        SubCheck("change-of-variables", body_cov, strategy=cov_strategy(41 if quick else 81), examples=8000 if quick else 200000, shards=16 if quick else 32),
        SubCheck("exactness-transport", body_exact, strategy=exact_strategy(60 if quick else 120), examples=2500 if quick else 30000, shards=16),
        SubCheck("pinned", body_cov, cases=pinned_cov(), shards=8),
    ]
