"""C10 - local grids hold exactly the points inside the cutoff sphere, for any grid type, over histories.

Model based: one case = one grid descriptor + a list of step dicts.  The body builds the real
grid object and keeps a plain model (the current points array P and weights array W, both
owned by the harness).  Every step is applied to both; after every step the public
``points``/``weights`` must equal the model, and

* a query ``get_localgrid(c, r)`` is compared with the brute-force filter |p - c| <= r over
  the model's *current* P (pbt.oracles.periodic_ref.ball: plain sum-of-squares distances, no
  k-d tree): every certain inside point present, no certain outside point, nothing twice,
  ``points == P[indices]``, ``weights == W[indices]`` (exact: these are copies, no arithmetic),
  centre stored; r = inf => indices == arange(N); empty ball => an empty LocalGrid of the right
  trailing shape and an integer index array, no exception;
* a selection ``g[index]`` is compared with the model selection computed from a plain list of
  normalised integer positions: same type, exactly the selected points/weights, same domain
  (OneDGrid) or lattice (PeriodicGrid).

Points within 1e-9*scale of the sphere are ambiguous and excluded from the comparison (a point
bit-identical to the centre is inside for every r >= 0).
"""
import os

import numpy as np
from hypothesis import strategies as st

from ..core import SubCheck
from ..oracles import periodic_ref as pr
from . import c11 as _c11

PROPERTY = "C10"
RULE = (
    "one case = one grid instance (Grid with (N,d) points d=1..3 or a 1-D array, OneDGrid with/without domain, AtomGrid "
    "with centre != 0, MolGrid of 1-3 atoms, UniformGrid 2-D/3-D, Tensor1DGrids 2-D/3-D, AngularGrid of 4 methods; "
    "PeriodicGrid for selection only) plus a history of 1..10 steps interpreted against the object and a model: query "
    "(centre random / a grid point / near a grid point / far away; radius 0, 1e-12, moderate, between the k-th and "
    "(k+1)-th neighbour distance, 1e6, 1e200, inf), reassign points (translate/scale/permute/affine/far, same shape; by plain or by augmented assignment) and "
    "weights (scale/permute/fresh) where a setter exists, selection by int / NumPy integer / negative int / slice / index "
    "array / boolean mask where supported, optionally continuing the history on the selected grid; non-trivial = the "
    "history holds at least one compared query or selection and (a query after a reassignment, or an empty ball, or "
    "the grid is a subclass of Grid, or a selection by something other than a plain non-negative int); distinct = "
    "distinct descriptor; pinned regression cases for the four repaired defects"
)
RULE = RULE + " " + 'A third of the point reassignments are augmented assignments (grid.points += shift, *= s).'

ASSUMPTIONS = [
    "'parent points/weights' are the grid's public .points/.weights right after construction (AtomGrid: centre-shifted); "
    "after a reassignment they are the arrays the harness assigned",
    "Euclidean distances by sum of squares in double precision; points within 1e-9*max(1,|p|,|c|,r) of the sphere are "
    "excluded from the comparison; a point bit-identical to the centre is inside for every radius >= 0",
    "an empty selection may either return an empty grid or raise ValueError (OneDGrid with a domain and PeriodicGrid "
    "reject zero-size arrays); a OneDGrid selection whose selected points lie outside the stored domain after a "
    "reassignment may raise ValueError (the constructor's domain check)",
    "PeriodicGrid.get_localgrid belongs to C11; AtomGrid has no points setter, MolGrid/UniformGrid/Tensor1DGrids/"
    "AngularGrid/AtomGrid do not support selection: those steps are not generated",
    "warnings are ignored",
]

LOCAL_KINDS = ["grid", "gridflat", "oned", "atom", "mol", "uniform", "tensor", "angular"]
SELECT_KINDS = ["grid", "gridflat", "oned", "periodic"]
HAS_POINT_SETTER = {"grid", "gridflat", "oned", "mol", "uniform", "tensor", "angular"}
NP_INT_TYPES = ["int64", "int32", "uint8", "intp", "int16"]


# ---------------------------------------------------------------------------
# construction
def _atom(desc):
    from grid.atomgrid import AtomGrid
    from grid.basegrid import OneDGrid

    r = np.cumsum(np.array(desc["dr"], dtype=float))
    rg = OneDGrid(r, np.array(desc["rw"], dtype=float)[: len(r)], (0, np.inf))
    degs = list(desc["degs"])
    degs = degs[:1] if desc.get("single", False) else (degs * len(r))[: len(r)]
    return AtomGrid(rg, degrees=degs, center=np.array(desc["center"], dtype=float), rotate=int(desc["rotate"]), method=desc.get("method", "lebedev"))


def build(gd):
    """-> (grid, info) where info has kind, domain, realvecs (model side)."""
    from grid.angular import AngularGrid
    from grid.basegrid import Grid, OneDGrid
    from grid.becke import BeckeWeights
    from grid.cubic import Tensor1DGrids, UniformGrid
    from grid.molgrid import MolGrid

    kind = gd["kind"]
    info = {"kind": kind, "domain": None, "A": None, "input_points": None}
    if kind in ("grid", "gridflat"):
        P = np.array(gd["pts"], dtype=float)
        d = P.shape[1]
        W = np.array(gd["w"], dtype=float)[: len(P)]
        pin = P[:, 0].copy() if kind == "gridflat" else P.copy()
        info["input_points"], info["input_weights"] = pin.copy(), W.copy()
        return Grid(pin, W.copy()), info
    if kind == "oned":
        P = np.array(gd["pts"], dtype=float)
        W = np.array(gd["w"], dtype=float)[: len(P)]
        dom = {"none": None, "wide": (-1e6, 1e6), "tight": (float(P.min()), float(P.max())), "half": (float(P.min()) - 0.5, np.inf)}[gd["dom"]]
        info["domain"] = dom
        info["input_points"], info["input_weights"] = P.copy(), W.copy()
        return OneDGrid(P.copy(), W.copy(), dom), info
    if kind == "atom":
        return _atom(gd), info
    if kind == "mol":
        ats = [_atom(a) for a in gd["atoms"]]
        cen = np.array([a.center for a in ats])
        far_enough = all(np.linalg.norm(cen[i] - cen[j]) > 0.4 for i in range(len(ats)) for j in range(i))
        atnums = np.array([1, 8, 6][: len(ats)])
        if gd["aim"] == "becke" and far_enough:
            aim = BeckeWeights()
        else:
            size = sum(a.size for a in ats)
            aim = 0.25 + 0.5 * (np.arange(size) % 3)
        return MolGrid(atnums, ats, aim, store=bool(gd["store"])), info
    if kind == "uniform":
        d = len(gd["shape"])
        axes = np.array(gd["off"], dtype=float).reshape(3, 3)[:d, :d] * 0.1
        for k in range(d):
            axes[k, k] = gd["diag"][k]
        return UniformGrid(np.array(gd["origin"], dtype=float)[:d], axes, np.array(gd["shape"], dtype=int), weight=gd["weight"]), info
    if kind == "tensor":
        ones = [OneDGrid(np.array(a["pts"], dtype=float), np.array(a["w"], dtype=float)[: len(a["pts"])], None) for a in gd["axes"]]
        return Tensor1DGrids(*ones), info
    if kind == "angular":
        return AngularGrid(degree=int(gd["degree"]), method=gd["method"], cache=bool(gd["cache"])), info
    if kind == "periodic":
        g, P, W, A, flat = _c11.build_periodic(gd["cell"])
        info["A"] = A[:, 0].copy() if flat else A.copy()
        return g, info
    raise ValueError(kind)


# ---------------------------------------------------------------------------
# step interpreters
def _center_of(step, P2):
    N, d = P2.shape
    cv = np.array(step["c"], dtype=float)[:d]
    ck = step["ck"]
    if ck == "point":
        return P2[step["pi"] % N].copy()
    if ck == "near":
        return P2[step["pi"] % N] + 1e-3 * cv
    if ck == "far":
        return 1e3 + 1e3 * cv
    if ck == "centroid":
        return P2.mean(axis=0) + cv * 0.3
    return cv


def _radius_of(step, P2, c):
    rk = step["rk"]
    if rk == "zero":
        return 0.0
    if rk == "tiny":
        return 1e-12
    if rk == "inf":
        return np.inf
    if rk == "huge":
        return 1e6 * (1.0 + step["r"])
    if rk == "huger":
        return 1e200
    if rk == "nn":
        dd = np.sort(pr.dist(P2, c))
        k = step["k"] % len(dd)
        lo = dd[k]
        hi = dd[k + 1] if k + 1 < len(dd) else dd[k] + 1.0
        return float(0.5 * (lo + hi))
    return float(step["r"])


def check_query(ctx, g, P, W, step, tag):
    """One get_localgrid against the brute-force ball over the model; returns a small info dict."""
    from grid.basegrid import LocalGrid

    N = len(P)
    flat = P.ndim == 1
    P2 = P.reshape(N, -1)
    d = P2.shape[1]
    c = _center_of(step, P2)
    r = _radius_of(step, P2, c)
    if flat:
        carg = {"py": float(c[0]), "np": np.float64(c[0]), "arr": np.array(c[0])}[step.get("cf", "py") if step.get("cf") in ("py", "np", "arr") else "py"]
    else:
        carg = c.tolist() if step.get("cf") == "list" else np.array(c)
    lg = g.get_localgrid(carg, r)
    if not isinstance(lg, LocalGrid):
        ctx.fail("not-a-localgrid", f"{tag}: returned {type(lg).__name__}")
        return None
    idx = np.asarray(lg.indices) if lg.indices is not None else None
    if idx is None:
        ctx.fail("indices-missing", f"{tag}: LocalGrid.indices is None")
        return None
    pts, wts = np.asarray(lg.points), np.asarray(lg.weights)
    n = len(idx)
    if idx.ndim != 1 or idx.dtype.kind not in "iu":
        ctx.fail("indices-not-integer-1d", f"{tag}: indices dtype {idx.dtype} ndim {idx.ndim} (n={n})")
        return None
    want_shape = (n,) if flat else (n, d)
    if pts.shape != want_shape or wts.shape != (n,) or lg.size != n:
        ctx.fail("local-shapes", f"{tag}: points {pts.shape} weights {wts.shape} size {lg.size} for {n} indices (expected points {want_shape})")
        return None
    if lg.center is None or not np.array_equal(np.asarray(lg.center, dtype=float), np.asarray(carg, dtype=float)):
        ctx.fail("center-not-stored", f"{tag}: center {lg.center!r} vs {carg!r}")
    if n and (idx.min() < 0 or idx.max() >= N):
        ctx.fail("index-out-of-range", f"{tag}: indices span [{idx.min()},{idx.max()}] for a grid of {N}")
        return None
    req, amb = pr.ball(P2, c, r)
    got = np.zeros(N, dtype=int)
    np.add.at(got, idx, 1)
    if np.any(got > 1):
        ctx.fail("point-twice", f"{tag}: parent point {int(np.argmax(got))} returned {int(got.max())} times")
    missing = np.nonzero(req & (got == 0))[0]
    extra = np.nonzero(~req & ~amb & (got > 0))[0]
    dd = pr.dist(P2, c)
    if len(missing):
        ctx.fail("point-missing", f"{tag}: {len(missing)} point(s) inside the sphere not returned, e.g. index {missing[0]} at distance {dd[missing[0]]:.9g} <= r={r!r}; returned {n} of {int(req.sum())} expected")
    if len(extra):
        ctx.fail("point-outside-sphere", f"{tag}: {len(extra)} returned point(s) outside the sphere, e.g. index {extra[0]} at distance {dd[extra[0]]:.9g} > r={r!r}")
    if not np.array_equal(pts, P[idx]):
        ctx.fail("points-not-parent", f"{tag}: local points differ from current parent points[indices]")
    if not np.array_equal(wts, W[idx]):
        ctx.fail("weights-not-parent", f"{tag}: local weights differ from current parent weights[indices]")
    if r == np.inf and not np.array_equal(idx, np.arange(N)):
        ctx.fail("inf-radius-not-whole-grid-in-order", f"{tag}: indices for r=inf are not 0..N-1 in order")
    return {"n": n, "nreq": int(req.sum()), "amb": int(amb.sum()), "finite": bool(np.isfinite(r)), "N": N}


def _new_points(step, P):
    flat = P.ndim == 1
    P2 = P.reshape(len(P), -1)
    d = P2.shape[1]
    t = np.array(step["t"], dtype=float)[:d]
    s = float(step["s"])
    mode = step["mode"]
    if mode == "translate":
        Q = P2 + t
    elif mode == "scale":
        Q = P2 * s
    elif mode == "permute":
        Q = P2[np.random.default_rng(int(step["seed"])).permutation(len(P2))]
    elif mode == "far":
        Q = P2 + 50.0 * (1 + np.abs(t))
    else:
        Q = P2 * s + t
    Q = np.array(Q, dtype=float)
    return Q[:, 0].copy() if flat else Q


def _new_weights(step, W):
    mode = step["mode"]
    if mode == "scale":
        return np.array(W * float(step["s"]))
    if mode == "permute":
        return np.array(W[np.random.default_rng(int(step["seed"])).permutation(len(W))])
    return np.random.default_rng(int(step["seed"])).uniform(0.1, 2.0, len(W))


def _selection(step, N):
    """-> (index object handed to the library, list of selected positions (model), kind label)."""
    ik = step["ik"]
    if ik == "int":
        i = step["i"] % N
        return int(i), [i], "int"
    if ik == "npint":
        tname = step.get("npk", "int64")
        i = step["i"] % N
        if tname == "uint8":
            i = i % 256
        return getattr(np, tname)(i), [int(i)], "npint"
    if ik == "neg":
        i = -(step["i"] % N) - 1
        return int(i), [N + i], "neg"
    if ik == "npneg":
        i = -(step["i"] % N) - 1
        return np.int64(i), [N + i], "npneg"
    if ik == "slice":
        a, b, c = step["sl"]
        if c == 0:
            c = None
        return slice(a, b, c), list(range(N))[slice(a, b, c)], "slice"
    if ik == "arr":
        raw = [(v % (2 * N)) - N for v in step["idx"]]
        dt = np.int32 if step.get("npk") == "int32" else np.int64
        return np.array(raw, dtype=dt), [v % N for v in raw], "arr"
    bits = [bool(step["mask"][i % len(step["mask"])]) for i in range(N)]
    return np.array(bits, dtype=bool), [i for i, b in enumerate(bits) if b], "mask"


def check_select(ctx, g, P, W, info, step, tag):
    N = len(P)
    index, sel, label = _selection(step, N)
    eP, eW = P[sel] if sel else P[:0], W[sel] if sel else W[:0]
    dom = info["domain"]
    may_reject = len(sel) == 0
    if dom is not None and len(sel):
        lo_gap, hi_gap = eP.min() - (dom[0] - 1e-7), (dom[1] + 1e-7) - eP.max()
        if min(lo_gap, hi_gap) < 1e-9:
            may_reject = True
            if min(lo_gap, hi_gap) < -1e-9:
                ctx.cls("select-outside-domain")
    try:
        s = g[index]
    except ValueError as exc:
        if may_reject:
            ctx.cls("select-empty-rejected" if len(sel) == 0 else "select-domain-rejected")
            return None
        ctx.fail("selection-rejected", f"{tag}: {type(g).__name__}[{label} {index!r}] raised ValueError: {exc}")
        return None
    if type(s) is not type(g):
        ctx.fail("selection-type", f"{tag}: {type(g).__name__}[{label}] returned {type(s).__name__}")
        return None
    sp, sw = np.asarray(s.points), np.asarray(s.weights)
    if sp.shape != eP.shape or not np.array_equal(sp, eP):
        ctx.fail("selection-points", f"{tag}: {type(g).__name__}[{label} {index!r}] points shape {sp.shape} vs {eP.shape} or values differ")
    if sw.shape != eW.shape or not np.array_equal(sw, eW):
        ctx.fail("selection-weights", f"{tag}: {type(g).__name__}[{label} {index!r}] weights shape {sw.shape} vs {eW.shape} or values differ")
    if s.size != len(sel):
        ctx.fail("selection-size", f"{tag}: size {s.size} for {len(sel)} selected")
    if info["kind"] == "oned":
        sd = s.domain
        same = (sd is None and dom is None) or (sd is not None and dom is not None and tuple(sd) == tuple(dom))
        if not same:
            ctx.fail("selection-domain", f"{tag}: domain {sd!r}, parent {dom!r}")
    if info["kind"] == "periodic":
        rv = np.asarray(s.realvecs)
        if rv.shape != info["A"].shape or not np.array_equal(rv, info["A"]):
            ctx.fail("selection-lattice", f"{tag}: realvecs {rv.tolist()} vs parent {info['A'].tolist()}")
    ctx.cls(f"select-{label}")
    return s, eP, eW, len(sel), label


def body(case, ctx):
    from grid.basegrid import Grid

    g, info = build(case["grid"])
    kind = info["kind"]
    sub = kind if kind != "uniform" and kind != "tensor" else f"{kind}{np.asarray(g.points).shape[1]}d"
    if kind == "grid":
        sub = f"grid-d{np.asarray(g.points).shape[1]}"
    ctx.cls(f"kind-{sub}")
    P = np.array(g.points, dtype=float, copy=True)
    W = np.array(g.weights, dtype=float, copy=True)
    if info["input_points"] is not None:
        if not (np.array_equal(P, info["input_points"]) and np.array_equal(W, info["input_weights"])):
            ctx.fail("constructor-changed-data", f"{kind}: points/weights differ from the constructor arguments")
    if kind == "atom":
        # the public points of an atomic grid are centred on its centre (shell radii measured from there)
        cen = np.asarray(g.center, dtype=float)
        rad = np.repeat(np.asarray(g.rgrid.points), np.diff(g.indices))
        if P.shape != (len(rad), 3) or np.max(np.abs(pr.dist(P, cen) - rad)) > 1e-12 * (1 + np.max(np.abs(cen)) + rad.max()):
            ctx.fail("atomgrid-points-not-centred", "AtomGrid.points are not at the shell radii around its centre")
    is_subclass = type(g) is not Grid
    compared = 0
    nt = False
    tree_built = False  # a finite query has been answered on the current object
    stale_risk = False  # ... and the points were reassigned after that
    reassigned_p = reassigned_w = False
    for si, step in enumerate(case["steps"]):
        op = step["op"]
        tag = f"step {si} {op}"
        if op == "query":
            if kind == "periodic":
                continue
            qinfo = check_query(ctx, g, P, W, step, f"{tag} ({kind}, centre {step['ck']}, radius {step['rk']})")
            ctx.cls(f"radius-{step['rk']}", f"center-{step['ck']}")
            if qinfo is None:
                continue
            compared += 1
            if qinfo["amb"]:
                ctx.cls("has-ambiguous-point")
            if qinfo["n"] == 0:
                ctx.cls("empty-ball")
                nt = True
            elif qinfo["n"] < qinfo["N"]:
                ctx.cls("proper-subset-ball")
            else:
                ctx.cls("whole-grid-ball")
            if reassigned_p or reassigned_w:
                ctx.cls("query-after-reassignment")
                nt = True
            if qinfo["finite"]:
                if stale_risk:
                    ctx.cls("finite-query-after-setp-after-finite-query")
                tree_built = True
                stale_risk = False
        elif op == "setp":
            if kind not in HAS_POINT_SETTER:
                continue
            newP = _new_points(step, P)
            if step.get("how") == "augmented" and step["mode"] != "permute":
                # augmented assignment is a reassignment too: Python reads the property, modifies that very
                # array in place and hands the same object back to the setter
                flat = P.ndim == 1
                d = 1 if flat else P.shape[1]
                t = np.array(step["t"], dtype=float)[:d]
                t = t[0] if flat else t
                if step["mode"] == "translate":
                    g.points += t
                elif step["mode"] == "far":
                    g.points += 50.0 * (1 + np.abs(t))
                elif step["mode"] == "scale":
                    g.points *= float(step["s"])
                else:
                    g.points *= float(step["s"])
                    g.points += t
                ctx.cls("setp-augmented-assignment")
            else:
                g.points = newP.copy()
            P = newP
            reassigned_p = True
            if tree_built:
                stale_risk = True
            ctx.cls(f"setp-{step['mode']}")
        elif op == "setw":
            newW = _new_weights(step, W)
            g.weights = newW.copy()
            W = newW
            reassigned_w = True
            ctx.cls("setw")
        elif op == "select":
            if kind not in SELECT_KINDS:
                continue
            out = check_select(ctx, g, P, W, info, step, tag)
            if out is None:
                continue
            s, eP, eW, nsel, label = out
            compared += 1
            if label != "int" or reassigned_p or reassigned_w:
                nt = True
            if reassigned_p or reassigned_w:
                ctx.cls("select-after-reassignment")
            if step.get("adopt") and nsel > 0:
                g, P, W = s, np.array(eP, copy=True), np.array(eW, copy=True)
                tree_built = stale_risk = False
                ctx.cls("history-continues-on-selection")
        # invariant after every step: the object reports the model's current data
        gp, gw = np.asarray(g.points), np.asarray(g.weights)
        if gp.shape != P.shape or not np.array_equal(gp, P):
            ctx.fail("parent-points-drift", f"after {tag}: grid.points no longer equal the model's current points")
            return
        if gw.shape != W.shape or not np.array_equal(gw, W):
            ctx.fail("parent-weights-drift", f"after {tag}: grid.weights no longer equal the model's current weights")
            return
        if g.size != len(W):
            ctx.fail("parent-size-drift", f"after {tag}: size {g.size} vs {len(W)}")
            return
    if is_subclass:
        nt = True
    ctx.nt(bool(nt and compared > 0))
    if compared == 0:
        ctx.cls("nothing-compared")


# ---------------------------------------------------------------------------
# strategies
def _f(lo, hi):
    return st.floats(lo, hi, allow_nan=False, allow_infinity=False, width=64)


def _atom_desc():
    return st.fixed_dictionaries(
        {
            "kind": st.just("atom"),
            "dr": st.lists(_f(0.15, 1.2), min_size=1, max_size=3),
            "rw": st.lists(_f(0.1, 2.0), min_size=3, max_size=3),
            "degs": st.lists(st.sampled_from([3, 5, 7, 2, 1]), min_size=1, max_size=3),
            "single": st.booleans(),
            "center": st.lists(_f(-2.0, 2.0), min_size=3, max_size=3).filter(lambda c: max(abs(v) for v in c) > 0.05),
            "rotate": st.sampled_from([0, 0, 1, 7, 12345]),
            "method": st.sampled_from(["lebedev", "lebedev", "spherical", "maxdet"]),
        }
    )


def _grid_desc(kind):
    if kind == "grid":
        return st.integers(1, 3).flatmap(
            lambda d: st.fixed_dictionaries(
                {
                    "kind": st.just("grid"),
                    "pts": st.lists(st.lists(_f(-2.0, 2.0), min_size=d, max_size=d), min_size=1, max_size=12),
                    "w": st.lists(_f(-1.0, 2.0), min_size=12, max_size=12),
                }
            )
        )
    if kind == "gridflat":
        return st.fixed_dictionaries(
            {"kind": st.just("gridflat"), "pts": st.lists(st.lists(_f(-2.0, 2.0), min_size=1, max_size=1), min_size=1, max_size=12), "w": st.lists(_f(-1.0, 2.0), min_size=12, max_size=12)}
        )
    if kind == "oned":
        return st.fixed_dictionaries(
            {"kind": st.just("oned"), "pts": st.lists(_f(-2.0, 2.0), min_size=1, max_size=12), "w": st.lists(_f(-1.0, 2.0), min_size=12, max_size=12), "dom": st.sampled_from(["wide", "none", "tight", "half"])}
        )
    if kind == "atom":
        return _atom_desc()
    if kind == "mol":
        return st.fixed_dictionaries(
            {"kind": st.just("mol"), "atoms": st.lists(_atom_desc(), min_size=1, max_size=3), "aim": st.sampled_from(["becke", "array"]), "store": st.booleans()}
        )
    if kind == "uniform":
        return st.integers(2, 3).flatmap(
            lambda d: st.fixed_dictionaries(
                {
                    "kind": st.just("uniform"),
                    "origin": st.lists(_f(-2.0, 2.0), min_size=3, max_size=3),
                    "diag": st.lists(st.one_of(_f(0.3, 1.0), _f(-1.0, -0.3)), min_size=3, max_size=3),
                    "off": st.lists(_f(-1.0, 1.0), min_size=9, max_size=9),
                    "shape": st.lists(st.integers(2, 3), min_size=d, max_size=d),
                    "weight": st.sampled_from(["Trapezoid", "Rectangle"]),
                }
            )
        )
    if kind == "tensor":
        ax = st.fixed_dictionaries({"pts": st.lists(_f(-2.0, 2.0), min_size=2, max_size=3), "w": st.lists(_f(0.1, 2.0), min_size=3, max_size=3)})
        return st.fixed_dictionaries({"kind": st.just("tensor"), "axes": st.lists(ax, min_size=2, max_size=3)})
    if kind == "angular":
        return st.one_of(
            st.fixed_dictionaries({"kind": st.just("angular"), "degree": st.sampled_from([3, 5, 7]), "method": st.just("lebedev"), "cache": st.booleans()}),
            st.fixed_dictionaries({"kind": st.just("angular"), "degree": st.integers(1, 6), "method": st.sampled_from(["spherical", "maxdet"]), "cache": st.booleans()}),
            st.fixed_dictionaries({"kind": st.just("angular"), "degree": st.just(14), "method": st.just("ahrens_beylkin"), "cache": st.booleans()}),
        )
    if kind == "periodic":
        return st.fixed_dictionaries({"kind": st.just("periodic"), "cell": _c11.cell_strategy(max_points=8)})
    raise ValueError(kind)


def _query_step():
    return st.fixed_dictionaries(
        {
            "op": st.just("query"),
            "ck": st.sampled_from(["rand", "point", "centroid", "near", "far"]),
            "c": st.lists(_f(-3.0, 3.0), min_size=3, max_size=3),
            "pi": st.integers(0, 99),
            "rk": st.sampled_from(["mod", "nn", "mod", "nn", "zero", "tiny", "huge", "huger", "inf"]),
            "r": _f(0.05, 4.0),
            "k": st.integers(0, 99),
            "cf": st.sampled_from(["arr", "py", "np", "list"]),
        }
    )


def _setp_step():
    return st.fixed_dictionaries(
        {
            "op": st.just("setp"),
            "mode": st.sampled_from(["translate", "scale", "permute", "affine", "far"]),
            "how": st.sampled_from(["assign", "assign", "augmented"]),
            "t": st.lists(_f(-3.0, 3.0), min_size=3, max_size=3),
            "s": st.one_of(_f(0.5, 2.0), _f(-2.0, -0.5)),
            "seed": st.integers(0, 2**31 - 1),
        }
    )


def _setw_step():
    return st.fixed_dictionaries({"op": st.just("setw"), "mode": st.sampled_from(["scale", "permute", "fresh"]), "s": _f(0.25, 4.0), "seed": st.integers(0, 2**31 - 1)})


def _select_step():
    sl_int = st.one_of(st.none(), st.integers(-14, 14))
    return st.fixed_dictionaries(
        {
            "op": st.just("select"),
            "ik": st.sampled_from(["npint", "slice", "int", "mask", "neg", "arr", "npneg"]),
            "i": st.integers(0, 99),
            "npk": st.sampled_from(NP_INT_TYPES),
            "sl": st.tuples(sl_int, sl_int, st.one_of(st.none(), st.integers(-3, 3))).map(list),
            "idx": st.lists(st.integers(0, 999), min_size=0, max_size=6),
            "mask": st.lists(st.booleans(), min_size=1, max_size=12),
            "adopt": st.booleans(),
        }
    )


def _history_strategy(kinds, select_weight, query_weight=4, max_steps=10):
    def for_kind(kind):
        pool = []
        if kind != "periodic":
            pool += [_query_step()] * query_weight
        if kind in HAS_POINT_SETTER:
            pool += [_setp_step()] * 2
        pool += [_setw_step()]
        if kind in SELECT_KINDS:
            pool += [_select_step()] * select_weight
        # every history ends with a step that is compared (a query; a selection for the periodic grid)
        last = _select_step() if (kind == "periodic" or (select_weight > 1 and kind in SELECT_KINDS)) else _query_step()
        if kind in SELECT_KINDS and kind != "periodic" and select_weight > 1:
            last = st.one_of(_select_step(), _select_step(), _query_step())
        steps = st.tuples(st.lists(st.one_of(*pool), min_size=0, max_size=max_steps - 1), last).map(lambda t: t[0] + [t[1]])
        return st.fixed_dictionaries({"grid": _grid_desc(kind), "steps": steps})

    return st.sampled_from(kinds).flatmap(for_kind)


# ---------------------------------------------------------------------------
# pinned regression cases (one per repaired defect, plus plain examples of every clause)
def _q(ck, rk, c=(0.0, 0.0, 0.0), r=1.0, pi=0, k=0, cf="arr"):
    return {"op": "query", "ck": ck, "c": list(c), "pi": pi, "rk": rk, "r": r, "k": k, "cf": cf}


def _sel(ik, i=0, npk="int64", sl=(None, None, None), idx=(), mask=(True,), adopt=False):
    return {"op": "select", "ik": ik, "i": i, "npk": npk, "sl": list(sl), "idx": list(idx), "mask": list(mask), "adopt": adopt}


def _setp(mode, t=(0.0, 0.0, 0.0), s=1.0, seed=0):
    return {"op": "setp", "mode": mode, "t": list(t), "s": s, "seed": seed}


def pinned_cases():
    w12 = [1.0, 1.5, 0.7, 0.3, 1.1, 0.9, 1.3, 0.6, 0.8, 1.2, 0.4, 1.7]
    pts3 = [[0.1, 0.2, 0.3], [0.9, 0.1, 0.5], [0.4, 0.8, 0.2], [0.7, 0.7, 0.9], [0.2, 0.5, 0.6]]
    g3 = {"kind": "grid", "pts": pts3, "w": w12}
    gflat = {"kind": "gridflat", "pts": [[0.0], [0.25], [0.5], [0.75], [1.0]], "w": w12}
    oned = {"kind": "oned", "pts": [0.1, 0.3, 0.5, 0.7, 0.9], "w": w12, "dom": "wide"}
    per = {"kind": "periodic", "cell": {"dim": 2, "flat": False, "pts": [[0.1, 0.1], [0.6, 0.2], [0.3, 0.8]], "w": w12[:8], "rv": [[1.0, 0.0], [0.2, -1.0]], "wrap": False, "rvnone": True}}
    per1 = {"kind": "periodic", "cell": {"dim": 1, "flat": True, "pts": [[0.1], [0.6], [0.3]], "w": w12[:8], "rv": [[-1.0]], "wrap": True, "rvnone": True}}
    atom = {"kind": "atom", "dr": [0.5, 0.7], "rw": [1.0, 1.0, 1.0], "degs": [3, 5], "single": False, "center": [0.3, -1.2, 0.8], "rotate": 0, "method": "lebedev"}
    mol = {"kind": "mol", "atoms": [dict(atom, center=[0.0, 0.0, -0.7]), dict(atom, center=[0.0, 0.0, 0.7], degs=[5, 3])], "aim": "becke", "store": False}
    npints = [_sel("npint", i=3, npk=k) for k in NP_INT_TYPES] + [_sel("npneg", i=0), _sel("npneg", i=2)]
    return [
        # FIXED-C10-729b6c1: NumPy integer as a single index on the three classes with __getitem__
        {"grid": g3, "steps": npints},
        {"grid": gflat, "steps": npints},
        {"grid": oned, "steps": npints},
        {"grid": per, "steps": npints[:3] + [_sel("npneg", i=0)]},
        {"grid": per1, "steps": npints[:3]},
        # FIXED-C10-549905a: a sphere without any point gives an empty LocalGrid on every grid type
        {"grid": g3, "steps": [_q("far", "mod", c=(1.0, 1.0, 1.0), r=0.1), _q("rand", "zero", c=(0.5, 0.5, 0.5)), _q("rand", "tiny", c=(0.5, 0.5, 0.5))]},
        {"grid": gflat, "steps": [_q("far", "mod", c=(1.0, 0.0, 0.0), r=0.1, cf="py"), _q("rand", "zero", c=(0.6, 0.0, 0.0), cf="np")]},
        {"grid": oned, "steps": [_q("far", "mod", c=(1.0, 0.0, 0.0), r=0.1, cf="py")]},
        {"grid": atom, "steps": [_q("far", "mod", c=(1.0, 1.0, 1.0), r=0.1)]},
        {"grid": mol, "steps": [_q("far", "mod", c=(1.0, 1.0, 1.0), r=0.1)]},
        {"grid": {"kind": "uniform", "origin": [0.0, 0.0, 0.0], "diag": [0.5, 0.5, 0.5], "off": [0.0] * 9, "shape": [2, 3, 2], "weight": "Trapezoid"}, "steps": [_q("far", "mod", c=(1.0, 1.0, 1.0), r=0.1)]},
        {"grid": {"kind": "tensor", "axes": [{"pts": [0.0, 1.0], "w": [1.0, 1.0, 1.0]}, {"pts": [0.0, 0.5, 1.0], "w": [1.0, 1.0, 1.0]}]}, "steps": [_q("far", "mod", c=(1.0, 1.0, 1.0), r=0.1)]},
        {"grid": {"kind": "angular", "degree": 5, "method": "lebedev", "cache": False}, "steps": [_q("rand", "mod", c=(0.0, 0.0, 0.0), r=0.5), _q("rand", "mod", c=(0.0, 0.0, 0.0), r=1.5)]},
        # FIXED-C10-215bd9c: the k-d tree is rebuilt after grid.points is reassigned
        {"grid": g3, "steps": [_q("rand", "mod", c=(0.0, 0.0, 0.0), r=0.8), _setp("translate", t=(3.0, 3.0, 3.0)), _q("rand", "mod", c=(0.0, 0.0, 0.0), r=0.8), _q("rand", "mod", c=(3.0, 3.0, 3.0), r=0.8)]},
        {"grid": oned, "steps": [_q("rand", "mod", c=(0.5, 0.0, 0.0), r=0.25, cf="py"), _setp("scale", s=-2.0), _q("rand", "mod", c=(0.5, 0.0, 0.0), r=0.25, cf="py"), _q("rand", "mod", c=(-1.0, 0.0, 0.0), r=0.5, cf="py")]},
        {"grid": mol, "steps": [_q("rand", "mod", r=1.0), _setp("permute", seed=3), _q("rand", "mod", r=1.0), {"op": "setw", "mode": "fresh", "s": 1.0, "seed": 5}, _q("rand", "mod", r=1.0)]},
        # FIXED-C10-3a0e7a9: AtomGrid.get_localgrid works and answers for the centre-shifted points
        {"grid": atom, "steps": [_q("rand", "mod", c=(0.3, -1.2, 0.8), r=0.6), _q("rand", "inf"), _q("rand", "mod", c=(0.0, 0.0, 0.0), r=0.6), _q("point", "zero", pi=4), _q("rand", "nn", c=(0.3, -1.0, 0.8), k=7),
                                  {"op": "setw", "mode": "scale", "s": 2.0, "seed": 0}, _q("rand", "mod", c=(0.3, -1.2, 0.8), r=0.6)]},
        # plain examples of the selection clause
        {"grid": g3, "steps": [_sel("int", i=2), _sel("neg", i=0), _sel("slice", sl=(1, None, 2)), _sel("slice", sl=(None, None, -1)), _sel("arr", idx=(0, 7, 7, 3)), _sel("mask", mask=(True, False, True)), _sel("mask", mask=(False,))]},
        {"grid": oned, "steps": [_sel("slice", sl=(1, 4, None), adopt=True), _q("rand", "mod", c=(0.5, 0.0, 0.0), r=0.15, cf="py"), _sel("mask", mask=(False, True), adopt=True), _sel("int", i=0)]},
        {"grid": per, "steps": [_sel("slice", sl=(None, 2, None)), _sel("arr", idx=(1, 1, 2)), _sel("mask", mask=(True, False, True), adopt=True), {"op": "setw", "mode": "scale", "s": 3.0, "seed": 0}, _sel("neg", i=0)]},
    ]


def selftest():
    pr.selftest()
    # the selection model on a hand case
    idx, sel, _ = _selection(_sel("slice", sl=(None, None, -2)), 5)
    assert sel == [4, 2, 0]
    idx, sel, _ = _selection(_sel("arr", idx=(0, 7, 9)), 5)  # raw -5, 2, 4 -> positions 0, 2, 4
    assert idx.tolist() == [-5, 2, 4] and sel == [0, 2, 4]
    idx, sel, _ = _selection(_sel("neg", i=1), 5)
    assert idx == -2 and sel == [3]
    idx, sel, _ = _selection(_sel("mask", mask=(True, False)), 5)
    assert sel == [0, 2, 4]


def subchecks(tier, seed):
    quick = tier == "quick"
    pinned = [] if os.environ.get("VERIF_NO_PINNED") else pinned_cases()  # development aid: generator-only sensitivity
    return [
        SubCheck("local-history", body, strategy=_history_strategy(LOCAL_KINDS, select_weight=1), examples=6000 if quick else 120000,
                 cases=pinned, shards=16 if quick else 64),
        SubCheck("selection", body, strategy=_history_strategy(SELECT_KINDS, select_weight=6, query_weight=1), examples=3000 if quick else 60000,
                 shards=16 if quick else 32),
    ]
