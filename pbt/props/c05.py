"""C05 - an atomic grid is exactly the product of its radial grid and per-shell spheres; presets build.

Oracle: the unit-sphere points/weights are read from the shipped data files by
pbt.oracles.data_loader (table from the file names, 4*pi rule for Lebedev/designs applied by the
loader), the request -> degree resolution is a linear search in that table, the sector of a node is
counted with a plain loop, harmonics for the factorisation clause come from pbt.oracles.sph, and
the preset tables are read from the .npz files with np.load by this module (format decided from the
dtype of the table: integer = shells per sector, float = sector radii).
"""
import functools
import math
import os
import re

import numpy as np
from hypothesis import strategies as st

from .. import gen_atom as ga
from ..core import EPS, SubCheck
from ..oracles import data_loader as dl
from ..oracles import sph

PROPERTY = "C05"
RULE = (
    "structure: Hypothesis descriptors {radial nodes (1..8 quick / 1..14 thorough, ascending, first node exactly 0 / "
    "below 1e-8 / small / ordinary) and positive weights, method (4), route (one degree, per-shell degrees, sizes=, one "
    "size, from_pruned with d_sectors or s_sectors; requests include unsupported values that must round up), centre "
    "(None or in [-5,5]^3), rotate (0 or a seed up to 2^32-n-1), list/ndarray argument}; non-trivial = mixed per-shell "
    "degrees or rotate != 0 or a node at r = 0 or centre != 0; pruned cases with a node within 1e-9 of a sector boundary "
    "are skipped as ambiguous; distinct = distinct descriptor. presets: complete enumeration of the 17 shipped preset "
    "files x every element that has a table in the file (Lebedev, radial grid of the prescribed size = sum of the "
    "per-sector shell counts, 50 for sg_1, 30 nodes where nothing is prescribed) plus, for the presets that prescribe "
    "nothing, rgrid=None (the library's default radial grid) for every element, plus a few centre/rotate forwarding cases; non-trivial = the table has more than one sector. presets-methods: the same enumeration for the other three "
    "angular methods (thorough: all; quick: a seeded sixth of the elements)"
)
RULE = RULE + " " + 'structure: 40 % of the cases have descending or rotated (non-ascending) radial node order; NumPy-integer rotation seeds whenever sequences are passed as arrays.'

ASSUMPTIONS = [
    "the shipped angular data files are the definition of 'the unit angular grid of a degree' (their exactness is C02's business)",
    "the request->degree table is the one encoded in the data file names (C12 checks the library's look-up against it)",
    "ahrens_beylkin requests are kept below the defective degree-39 file (known finding of C02) so that the factorisation clause is meaningful",
    "a preset table with integer entries lists shells per sector, one with float entries lists sector radii (read from the .npz with np.load)",
    "nodes within 1e-9 of a pruned sector boundary are ambiguous (the docstring says <= for inner, < for the last boundary) and are skipped",
    "warnings emitted by the library are ignored",
]

GEO_C = 1e3  # geometry/weights are a handful of multiplications: 1e3*eps*scale
QUAD_TOL = 1e-9  # exactness of the shipped angular data is ~3e-12 (C02), see DESIGN tolerance policy


# ---------------------------------------------------------------------------------------------
# structure
# ---------------------------------------------------------------------------------------------
def _structure_strategy(tier):
    nmax = 8 if tier == "quick" else 14
    return st.fixed_dictionaries(
        {
            "atom": ga.atom(nmin=1, nmax=nmax, small=False, orders=("asc", "asc", "desc", "perm")),
            "seed2": st.integers(0, 2**31),
            "g": st.lists(st.floats(-2.0, 2.0), min_size=3, max_size=3),
            "gexp": st.floats(0.1, 2.0),
        }
    )


def _unit_for(method, degree):
    return dl.load(method, int(degree))


def check_product(ctx, ag, desc, degs, center, rotate, gram=True, prefix=""):
    """The core of the statement: every point and weight tied to its (shell, angular node) pair."""
    method = desc["method"]
    r = np.array(desc["r"], dtype=float)
    w = np.array(desc["w"], dtype=float)
    n = len(r)
    c = np.zeros(3) if center is None else np.array(center, dtype=float)
    cn = float(np.linalg.norm(c))
    P, W, ind = np.asarray(ag.points), np.asarray(ag.weights), np.asarray(ag.indices)
    got_degs = [int(d) for d in ag.degrees]
    if got_degs != [int(d) for d in degs]:
        ctx.fail(prefix + "shell-degree", f"degrees {got_degs}, expected {list(degs)} for {desc['route']} {desc.get('req', desc.get('sec'))}")
        return False
    sizes = [dl.size_of_degree(method, d) for d in degs]
    want_ind = [0]
    for s in sizes:
        want_ind.append(want_ind[-1] + s)
    if ind.shape != (n + 1,) or [int(v) for v in ind] != want_ind:
        ctx.fail(prefix + "index-table", f"indices {ind.tolist()[:12]}, expected {want_ind[:12]}")
        return False
    if P.shape != (want_ind[-1], 3) or W.shape != (want_ind[-1],) or ag.size != want_ind[-1]:
        ctx.fail(prefix + "total-size", f"points {P.shape}, weights {W.shape}, size {ag.size}, expected {want_ind[-1]}")
        return False
    ok = True
    for i in range(n):
        sl = slice(want_ind[i], want_ind[i + 1])
        up, uw = _unit_for(method, degs[i])
        d = P[sl] - c
        ri = float(r[i])
        pos_scale = GEO_C * EPS * (ri + cn)
        ok &= ctx.close(np.sqrt(np.sum(d * d, axis=1)), np.full(len(up), ri), pos_scale + 0.0, prefix + "shell-radius", f"shell {i} r={ri}: |p-c|")
        ref_w = w[i] * ri * ri * uw
        ok &= ctx.close(W[sl], ref_w, GEO_C * EPS * np.abs(ref_w), prefix + "shell-weights", f"shell {i} r={ri} w={w[i]}: weights vs w_i r_i^2 * angular weights")
        if ri > 0.0:
            U = d / ri
            dir_tol = GEO_C * EPS * (1.0 + cn / ri)
            if rotate == 0:
                ok &= ctx.close(U, up, dir_tol, prefix + "unrotated-shell-not-unit-grid", f"shell {i} degree {degs[i]}: (p-c)/r vs data file")
            elif gram:
                ok &= ctx.close(U @ U.T, up @ up.T, 4 * dir_tol, prefix + "shell-not-orthogonal-image", f"shell {i} degree {degs[i]}: Gram matrix of (p-c)/r vs unit grid")
    return bool(ok)


def body_structure(case, ctx):
    desc = case["atom"]
    method, route = desc["method"], desc["route"]
    r = np.array(desc["r"], dtype=float)
    w = np.array(desc["w"], dtype=float)
    n = len(r)
    c_in = desc["center"]
    c = np.zeros(3) if c_in is None else np.array(c_in, dtype=float)
    cn = float(np.linalg.norm(c))
    rot = int(desc["rotate"])
    degs, amb = ga.expected_degrees(desc)

    ctx.cls(method, "route:" + route, "n:" + ("1" if n == 1 else "2-4" if n <= 4 else "5+"))
    rmin_ = float(np.min(r))
    ctx.cls("r0:" + ("zero" if rmin_ == 0.0 else "tiny" if rmin_ < 1e-8 else "small" if rmin_ < 0.05 else "ordinary"))
    ctx.cls("nodes:" + str(case["atom"].get("node_order", "asc") if isinstance(case.get("atom"), dict) else "asc"))
    ctx.cls("centre:" + ("none" if c_in is None else "zero" if cn == 0.0 else "nonzero"))
    ctx.cls("rotate:" + ("0" if rot == 0 else "small" if rot <= 1000 else "max" if rot >= 2**32 - n - 2 else "large"))
    ctx.cls("degrees:" + ("mixed" if len(set(degs)) > 1 else "uniform"))
    reqs = desc.get("req", desc.get("sec"))
    table_vals = dl.sizes(method) if route in ("sizes", "sizes-const", "pruned-s") else dl.degrees(method)
    ctx.cls("request:" + ("rounds-up" if any(v not in table_vals for v in reqs) else "table-entries"))
    if amb:
        ctx.skip("radial node within 1e-9 of a sector boundary")
        return
    ctx.nt(ga.is_nontrivial(desc, degs))

    ag = ga.build(desc)
    if not check_product(ctx, ag, desc, degs, c_in, rot):
        return
    P, W, ind = np.array(ag.points), np.array(ag.weights), np.array(ag.indices)
    ctx.close(np.asarray(ag.center, dtype=float), c, 0.0, "centre-attribute", "ag.center")
    # .points is documented as centre + shell points (computed on read): shifting the array a caller was handed
    # must not move the grid
    handed = ag.points
    try:
        handed += 3.0
    except (ValueError, TypeError):
        pass
    ctx.check(np.array_equal(np.asarray(ag.points), P), "points-accessor-hands-out-internal-array", f"editing the array returned by .points in place changed the grid (centre {c.tolist()})")

    # -- reproducible from the seed ------------------------------------------------------------
    ag_b = ga.build(desc)
    if not (np.array_equal(ag_b.points, P) and np.array_equal(ag_b.weights, W) and np.array_equal(ag_b.indices, ind)):
        ctx.fail("same-seed-different-grid", f"rotate={rot}: two constructions with identical arguments differ")
    # -- another seed: same radii, same weights -------------------------------------------------
    seed2 = int(case["seed2"]) % (2**32 - n)
    ag_c = ga.build(desc, rotate=seed2)
    if np.asarray(ag_c.weights).shape != W.shape or not np.array_equal(np.asarray(ag_c.weights), W):
        ctx.fail("rotation-changes-weights", f"rotate={rot} vs {seed2}: weights differ")
    else:
        dc = np.asarray(ag_c.points) - c
        rad_ref = np.repeat(r, np.diff(ind))
        ctx.close(np.sqrt(np.sum(dc * dc, axis=1)), rad_ref, GEO_C * EPS * (rad_ref + cn), "rotation-changes-radii", f"rotate={seed2}")
    # -- translation -------------------------------------------------------------------------------
    ag_0 = ga.build(desc, center=None)
    P0 = np.asarray(ag_0.points)
    if P0.shape != P.shape:
        ctx.fail("translation", f"shape {P0.shape} vs {P.shape}")
    else:
        rad_ref = np.repeat(r, np.diff(ind))
        ctx.close(P - c, P0, (GEO_C * EPS * (rad_ref + cn))[:, None], "translation", f"points(c) - c vs points(0), c={c.tolist()}")
        if not np.array_equal(np.asarray(ag_0.weights), W):
            ctx.fail("translation-changes-weights", f"c={c.tolist()}")

    # -- per-shell grid on request -----------------------------------------------------------------
    for i in range(n):
        sl = slice(int(ind[i]), int(ind[i + 1]))
        up, uw = _unit_for(method, degs[i])
        sg = ag.get_shell_grid(i)
        sp, sw = np.asarray(sg.points), np.asarray(sg.weights)
        if sp.shape != (len(up), 3) or sw.shape != (len(up),):
            ctx.fail("shell-grid-size", f"shell {i}: {sp.shape} vs {len(up)} points")
            continue
        ctx.close(sp, P[sl] - c, GEO_C * EPS * (r[i] + cn), "shell-grid-points", f"get_shell_grid({i}).points vs points[slice]-centre (rotate={rot})")
        ctx.close(sw, W[sl], GEO_C * EPS * np.abs(W[sl]), "shell-grid-weights", f"get_shell_grid({i}).weights vs weights[slice]")
        sg2 = ag.get_shell_grid(i, r_sq=False)
        ref = w[i] * uw
        ctx.close(np.asarray(sg2.weights), ref, GEO_C * EPS * np.abs(ref), "shell-grid-weights-no-rsq", f"get_shell_grid({i}, r_sq=False).weights vs w_i * angular weights")
        ctx.close(np.asarray(sg2.points), P[sl] - c, GEO_C * EPS * (r[i] + cn), "shell-grid-points", f"get_shell_grid({i}, r_sq=False).points")

    # -- a shell addressed from the end: either a clean rejection or exactly that shell ---------------------------
    try:
        sg_neg = ag.get_shell_grid(-1)
    except (ValueError, IndexError, TypeError):
        sg_neg = None
    if sg_neg is not None:
        sl = slice(int(ind[n - 1]), int(ind[n]))
        if np.asarray(sg_neg.points).shape == P[sl].shape:
            ctx.close(np.asarray(sg_neg.points), P[sl] - c, GEO_C * EPS * (r[n - 1] + cn), "shell-grid-points", f"get_shell_grid(-1).points vs the last shell (rotate={rot})")
            ctx.close(np.asarray(sg_neg.weights), W[sl], GEO_C * EPS * np.abs(W[sl]), "shell-grid-weights", "get_shell_grid(-1).weights vs the last shell")
        else:
            ctx.fail("shell-grid-size", f"get_shell_grid(-1): {np.asarray(sg_neg.points).shape} vs last shell {P[sl].shape}")

    # -- spherical coordinates of the grid's own points about the grid centre and, afterwards, about another centre:
    # the radius column is |p - centre| for the centre that was ASKED for
    sph_own = np.asarray(ag.convert_cartesian_to_spherical(), dtype=float)
    other_c = c + np.array([0.4, -0.3, 0.2])
    sph_oth = np.asarray(ag.convert_cartesian_to_spherical(center=other_c.copy()), dtype=float)
    if sph_own.shape == (len(P), 3) and sph_oth.shape == (len(P), 3):
        ctx.close(sph_own[:, 0], np.linalg.norm(P - c, axis=1), GEO_C * EPS * (np.max(r) + cn + 1.0), "spherical-coordinates-radius", "convert_cartesian_to_spherical(): radius about the grid centre")
        ctx.close(sph_oth[:, 0], np.linalg.norm(P - other_c, axis=1), GEO_C * EPS * (np.max(r) + cn + 2.0), "spherical-coordinates-radius", f"convert_cartesian_to_spherical(center={other_c.tolist()}) after a call with the default centre")
    else:
        ctx.fail("spherical-coordinates-shape", f"{sph_own.shape} / {sph_oth.shape} for {len(P)} points")

    # -- factorisation of integrals of g(r) Y_lm ---------------------------------------------------
    dmin = int(min(degs))
    d = P - c
    rad = np.sqrt(np.sum(d * d, axis=1))
    unit = np.zeros_like(d)
    nz = rad > 0
    unit[nz] = d[nz] / rad[nz, None]
    unit[~nz] = np.array([0.0, 0.0, 1.0])
    a0, a1, a2 = case["g"]
    b = case["gexp"]

    def g(x):
        return (a0 + a1 * x + a2 * x * x) * np.exp(-b * x)

    Y = sph.real_sph_harm_xyz(dmin, unit)
    # g at the radial node of the shell (|p-c| = r_i was established above; evaluating g at the computed |p-c|
    # would put the cancellation error eps*|c|/r of a tiny off-origin shell into an ill-conditioned g)
    gv = np.repeat(g(r), np.diff(ind))
    radial_sum = float(np.sum(w * r * r * g(r)))
    absW = np.abs(W)
    rows = list(range(Y.shape[0]))
    if len(rows) > 200:  # keep l = 0, the top two degrees and a stride of the rest
        keep = set(range(0, len(rows), max(1, len(rows) // 120))) | set(range((dmin - 1) ** 2, (dmin + 1) ** 2)) | {0}
        rows = sorted(keep)
    worst = (0.0, None)
    rad_nodes = np.repeat(r, np.diff(ind))
    dir_noise = float(np.sum((absW * np.abs(gv))[nz] * cn / rad_nodes[nz])) if cn > 0 else 0.0
    for k in rows:
        vals = gv * Y[k]
        got = float(ag.integrate(vals))
        want = radial_sum * math.sqrt(4.0 * math.pi) if k == 0 else 0.0
        # condition scale of the quadrature sum + floor that does not collapse when Y_lm vanishes at every node
        # (rms of Y_lm over the sphere is 1/sqrt(4 pi))
        scale = float(np.sum(absW * np.abs(vals))) + float(np.sum(absW * np.abs(gv))) / math.sqrt(4.0 * math.pi)
        # + directions (p-c)/r of an off-origin shell carry the cancellation error eps*|c|/r_i; Y_l changes by <= ~l per radian
        tol = QUAD_TOL * scale + 1e2 * EPS * (math.isqrt(k) + 1) * dir_noise + 1e-300
        err = abs(got - want)
        if not (err <= tol):
            l = int(math.isqrt(k))
            ctx.fail("integral-does-not-factorise", f"row {k} (l={l}) of {method} degrees {sorted(set(degs))}: integrate(g Y)={got!r}, expected {want!r}, tol {tol:.2e}")
            break
        if err / tol > worst[0]:
            worst = (err / tol, k)
    ctx.info["quad_err_over_tol"] = worst[0]


# ---------------------------------------------------------------------------------------------
# presets
# ---------------------------------------------------------------------------------------------
def _prune_dir():
    return os.path.join(dl.data_root(), "prune_grid")


@functools.lru_cache(maxsize=None)
def preset_names():
    out = []
    for fn in sorted(os.listdir(_prune_dir())):
        m = re.match(r"^prune_grid_(\w+)\.npz$", fn)
        if m:
            out.append(m.group(1))
    return tuple(out)


@functools.lru_cache(maxsize=None)
def preset_table(preset):
    """{'elements': {z: (rad, npt)}, 'other': {...}} read straight from the file."""
    elements, other = {}, {}
    with np.load(os.path.join(_prune_dir(), f"prune_grid_{preset}.npz")) as z:
        keys = list(z.keys())
        for k in keys:
            m = re.match(r"^(\d+)_rad$", k)
            if m and f"{m.group(1)}_npt" in keys:
                elements[int(m.group(1))] = (np.array(z[k]), np.array(z[f"{m.group(1)}_npt"]))
            elif not re.match(r"^\d+_(rad|npt)$", k):
                other[k] = np.array(z[k])
    return {"elements": elements, "other": other}


def _own_radial(n, scale=1.0):
    """Gauss-Legendre nodes mapped to (0, inf) with r = R(1+x)/(1-x); my own construction (numpy leggauss)."""
    x, wx = np.polynomial.legendre.leggauss(int(n))
    r = scale * (1.0 + x) / (1.0 - x)
    w = wx * 2.0 * scale / (1.0 - x) ** 2
    return r, w


def prescribed_size(preset, atnum):
    """(n, prescribed?) - number of radial nodes the preset prescribes for this element."""
    tab = preset_table(preset)
    rad, _ = tab["elements"][atnum]
    if np.issubdtype(rad.dtype, np.integer):
        return int(np.sum(rad)), True
    if "r_points" in tab["other"]:
        return int(np.sum(tab["other"]["r_points"])), True
    return 30, False


def body_preset(case, ctx):
    from grid.atomgrid import AtomGrid, _get_rgrid_size
    from grid.basegrid import OneDGrid

    preset, z, method = case["preset"], int(case["atnum"]), case["method"]
    rad, npt = preset_table(preset)["elements"][z]
    per_shell = bool(np.issubdtype(rad.dtype, np.integer))
    n, prescribed = prescribed_size(preset, z)
    ctx.cls(method, "preset:" + preset, "table:" + ("shells-per-sector" if per_shell else "sector-radii"))
    ctx.cls("rgrid:" + ("prescribed-size" if prescribed else "free-size"))
    center = case.get("center")
    rot = int(case.get("rotate", 0))
    ctx.cls("forwarding:" + ("centre+rotate" if (center is not None or rot) else "defaults"))
    ctx.nt(len(npt) > 1)

    if prescribed:
        try:
            got_n = _get_rgrid_size(preset, z)
        except Exception as exc:  # noqa: BLE001
            ctx.fail("prescribed-size-helper-raised", f"_get_rgrid_size({preset!r}, {z}): {type(exc).__name__}: {exc}")
            got_n = None
        if got_n is not None and [int(v) for v in got_n] != [n]:
            ctx.fail("prescribed-size-helper", f"_get_rgrid_size({preset!r}, {z}) = {got_n}, the table prescribes {n}")

    default_rgrid = case.get("rgrid") == "default"
    if default_rgrid:
        ctx.cls("rgrid:library-default")
        rg = None
    else:
        r, w = _own_radial(n, scale=1.0 + 0.01 * z)
        rg = OneDGrid(r.copy(), w.copy(), (0, np.inf))
    kw = {"method": method}
    if center is not None:
        kw["center"] = np.array(center, dtype=float)
    if rot:
        kw["rotate"] = rot
    try:
        ag = AtomGrid.from_preset(z, preset, rg, **kw)
    except Exception as exc:  # noqa: BLE001 - "every preset builds for every element it tabulates"
        if default_rgrid and isinstance(exc, ValueError) and "Default radial grid parameters" in str(exc):
            ctx.cls("rgrid:no-library-default-for-element")  # documented rejection
            return
        msg = f"from_preset(atnum={z}, preset={preset!r}, rgrid of {n} nodes, method={method}) raised {type(exc).__name__}: {exc}; table rad={rad.tolist()[:8]} npt={npt.tolist()[:8]}"
        if (preset, z) == ("sg_3", 14):
            ctx.known("KF-C05-sg3-silicon", "preset-does-not-build", msg)
        else:
            ctx.fail("preset-does-not-build", msg)
        return

    if default_rgrid:  # the radial grid the library chose is the radial grid of the statement
        r = np.array(ag.rgrid.points, dtype=float)
        w = np.array(ag.rgrid.weights, dtype=float)
        n = len(r)
    ind = np.asarray(ag.indices)
    if ind.shape != (n + 1,):
        ctx.fail("preset-shell-count", f"{preset}/{z}: {len(ind) - 1} shells for {n} radial nodes")
        return
    got_sizes = np.diff(ind)
    # tabulated size of every shell
    tab_sizes = []
    if per_shell:
        for cnt, s in zip(rad.tolist(), npt.tolist()):
            tab_sizes += [int(s)] * int(cnt)
        if len(rad) != len(npt):
            # The table is self-contradictory (one size per sector count is the format), so "tabulated" is undefined.
            # Buggy model of the recorded data finding: more sizes than counts, the surplus sizes are dropped and
            # the leading ones are paired with the counts.
            msg = f"{preset}/{z}: {len(rad)} sector counts {rad.tolist()} vs {len(npt)} sizes {npt.tolist()}; built shell sizes {got_sizes.tolist()}"
            paired = len(npt) > len(rad) and len(tab_sizes) == n and all(got_sizes[i] == dl.resolve_size(method, tab_sizes[i]) for i in range(n))
            if (preset, z) in (("sg_0", 7), ("sg_0", 15)) and paired:
                ctx.known("KF-C05-sg0-table-lengths", "preset-table-inconsistent", msg)
            else:
                ctx.fail("preset-table-inconsistent", msg)
                return
    else:
        for ri in r:
            k, amb = 0, False
            for b in rad.tolist():
                if abs(ri - b) < ga.BOUNDARY_EPS:
                    amb = True
                if ri > b:
                    k += 1
            tab_sizes.append(None if amb else int(npt[k]))
    coarser = [(i, int(got_sizes[i]), tab_sizes[i]) for i in range(n) if tab_sizes[i] is not None and got_sizes[i] < tab_sizes[i]]
    if coarser:
        ctx.fail("preset-shell-coarser-than-tabulated", f"{preset}/{z} {method}: (shell, size, tabulated) {coarser[:5]}")
    if any(t is None for t in tab_sizes):
        ctx.cls("boundary-node-shells-not-compared")
    # coarser in degree, too: the degree of the shell must reach the degree of the tabulated size
    degs = [int(d) for d in ag.degrees]
    for i in range(n):
        if tab_sizes[i] is None:
            continue
        need = dl.degree_of_size(method, dl.resolve_size(method, tab_sizes[i]))
        if degs[i] < need:
            ctx.fail("preset-shell-coarser-than-tabulated", f"{preset}/{z} {method}: shell {i} degree {degs[i]} < {need} (tabulated size {tab_sizes[i]})")
            break
    # "such a grid": product structure of what was built (degrees as reported; sizes from my table)
    for dgr in set(degs):
        if dgr not in dl.degrees(method):
            ctx.fail("preset-degree-not-supported", f"{preset}/{z}: degree {dgr}")
            return
    desc = {"r": r.tolist(), "w": w.tolist(), "method": method, "route": "preset"}
    check_product(ctx, ag, desc, degs, center, rot, gram=(max(got_sizes) <= 700), prefix="preset-")
    # shells per request: only a few (each rebuilds an angular grid)
    c = np.zeros(3) if center is None else np.array(center, dtype=float)
    for i in sorted({0, n // 2, n - 1}):
        sg = ag.get_shell_grid(i)
        sl = slice(int(ind[i]), int(ind[i + 1]))
        Wsl = np.asarray(ag.weights)[sl]
        if np.asarray(sg.weights).shape != Wsl.shape:
            ctx.fail("preset-shell-grid-size", f"{preset}/{z} shell {i}")
            continue
        ctx.close(np.asarray(sg.weights), Wsl, GEO_C * EPS * np.abs(Wsl), "preset-shell-grid-weights", f"{preset}/{z} shell {i}")
        ctx.close(np.asarray(sg.points), np.asarray(ag.points)[sl] - c, GEO_C * EPS * (r[i] + np.linalg.norm(c)), "preset-shell-grid-points", f"{preset}/{z} shell {i}")


def cases_presets(method="lebedev", forwarding=True, pick=None):
    out = []
    for preset in preset_names():
        els = sorted(preset_table(preset)["elements"])
        for z in els:
            if pick is None or pick(preset, z):
                out.append({"preset": preset, "atnum": z, "method": method})
        if forwarding and not prescribed_size(preset, els[0])[1]:
            # rgrid=None: the documented default radial grid (power transform of a uniform rule) where nothing is prescribed
            for z in els:
                out.append({"preset": preset, "atnum": z, "method": method, "rgrid": "default"})
        if forwarding:
            for j, z in enumerate([els[0], els[len(els) // 3], els[-1]]):
                out.append({"preset": preset, "atnum": z, "method": method, "center": [0.5 * j - 1.0, 2.0, -0.25 * z], "rotate": [7, 2**32 - 400, 123456][j]})
    return out


def cases_presets_methods(tier, seed):
    out = []
    for method in ("spherical", "maxdet", "ahrens_beylkin"):
        if tier == "thorough":
            pick = None
        else:
            pick = lambda p, z, _m=method: (z + len(p) + len(_m) + seed) % 6 == 0 or (p, z) in (("sg_1", 19), ("sg_1", 18))  # noqa: E731
        out += cases_presets(method=method, forwarding=False, pick=pick)
    return out


# ---------------------------------------------------------------------------------------------
PINNED_STRUCTURE = [
    # r = 0 node, mixed degrees, seed at the upper limit, off-origin
    {"atom": {"r": [0.0, 0.5, 1.25], "w": [0.3, 1.0, 0.7], "method": "lebedev", "route": "list", "req": [4, 10, 6], "center": [1.0, -2.0, 0.5], "rotate": 2**32 - 4, "as_array": False}, "seed2": 11, "g": [1.0, -0.5, 0.25], "gexp": 0.8},
    # pruned with sizes, node just clear of a boundary
    {"atom": {"r": [0.1, 0.6, 1.1, 2.4], "w": [0.2, 0.4, 0.6, 0.8], "method": "spherical", "route": "pruned-s", "radius": 1.2, "r_sectors": [0.25, 1.0], "sec": [5, 40, 13], "center": None, "rotate": 0, "as_array": True}, "seed2": 5, "g": [0.5, 1.0, 0.0], "gexp": 1.0},
    {"atom": {"r": [1e-9, 0.7], "w": [1.0, 1.0], "method": "ahrens_beylkin", "route": "const", "req": [3], "center": None, "rotate": 3, "as_array": False}, "seed2": 0, "g": [1.0, 0.0, 0.0], "gexp": 0.5},
    {"atom": {"r": [0.3, 0.9, 1.6], "w": [1.0, 0.5, 0.25], "method": "maxdet", "route": "sizes", "req": [10, 100, 17], "center": [0.0, 0.0, 0.0], "rotate": 999, "as_array": False}, "seed2": 999, "g": [0.0, 1.0, -1.0], "gexp": 0.3},
]


def selftest():
    names = preset_names()
    assert len(names) >= 17, f"preset files not found: {names}"
    assert 19 in preset_table("sg_1")["elements"] and 14 in preset_table("sg_3")["elements"]
    for m in dl.METHODS:
        for d, s in dl.table(m)[:3]:
            p, w = dl.load(m, d)
            assert p.shape == (s, 3) and abs(float(np.sum(w)) - 4 * np.pi) < 1e-9, f"data loader broken for {m} {d}"
    sph.selftest()


def subchecks(tier, seed):
    quick = tier == "quick"
    return [
        SubCheck("structure", body_structure, strategy=_structure_strategy(tier), examples=8000 if quick else 150000, cases=PINNED_STRUCTURE, shards=16),
        SubCheck("presets", body_preset, cases=cases_presets("lebedev"), exhaustive=True, shards=32),
        SubCheck("presets-methods", body_preset, cases=cases_presets_methods(tier, seed), exhaustive=False, shards=32),
    ]
