"""C02 - every shipped angular grid is exact to its advertised degree.

Finite space: (method, degree) over the four tables = 450 constructible grids, and for each all
(l, m) with l <= degree.  Thorough enumerates it completely; quick runs every grid whose cost
N*(L+1)^2 is below a threshold plus a VERIF_SEED-chosen sample of the expensive ones.

Oracle: sum_i w_i Y_lm(p_i) = sqrt(4 pi) delta_l0 with harmonics from pbt.oracles.sph (own fully
normalised recurrence evaluated from the Cartesian points; never the library's harmonics), the size
from the data-file table, |p| = 1.
"""
import numpy as np

from ..core import SubCheck
from ..oracles import data_loader as dl
from ..oracles import sph

PROPERTY = "C02"
RULE = (
    "complete enumeration of (method, degree) over the four shipped tables (one case = one constructible grid, "
    "constructed through AngularGrid(degree=d, method=m, cache=False)); inside a case ALL (l,m) with l<=degree are "
    "integrated. quick: every grid with N*(L+1)^2 <= 2e8 plus a seeded quarter of the more expensive ones; thorough: all 450. "
    "non-trivial = advertised degree >= 10; distinct = distinct (method, degree)"
)
RULE = RULE + " " + 'Every grid with <= 2000 points is additionally rebuilt through cache-fill, cache-hit and the size= route after the arrays of the previously returned grid were destroyed in place; all routes must give the identical quadrature.'

ASSUMPTIONS = [
    "reference harmonics: own normalised three-term recurrence in float64 (self-tested against mpmath); quadrature sums accumulate rounding ~ eps*sum|w|*max|Y| << 1e-9",
    "which grids 'can be constructed' is taken from the data file names minus four unreachable extra files (pbt/oracles/data_loader.py)",
]

TOL = 1e-9  # healthy grids measured <= 3.3e-12; the two defective data files >= 5e-5
QUICK_COST = 2e8
PINNED = {("ahrens_beylkin", 39), ("ahrens_beylkin", 127)}  # known-finding probes: run in every tier


def body(case, ctx):
    from grid.angular import AngularGrid

    method, degree = case["method"], case["degree"]
    want_size = dl.size_of_degree(method, degree)
    ctx.cls(method, "deg>=50" if degree >= 50 else "deg<50")
    ctx.nt(degree >= 10)
    g = AngularGrid(degree=degree, method=method, cache=False)
    ctx.check(g.degree == degree, "reported-degree", f"{method} degree {degree}: .degree = {g.degree}")
    ctx.check(g.size == want_size and g.points.shape == (want_size, 3) and g.weights.shape == (want_size,),
              "size-not-advertised", f"{method} degree {degree}: size {g.size}, points {g.points.shape}, advertised {want_size}")
    if g.points.ndim != 2 or g.points.shape[1] != 3 or g.points.shape[0] != g.weights.shape[0]:
        return
    nrm = float(np.max(np.abs(np.linalg.norm(g.points, axis=1) - 1.0)))
    ctx.check(nrm <= 1e-12, "points-off-sphere", f"{method} degree {degree}: max ||p|-1| = {nrm:.2e}")
    worst, lm = sph.quadrature_defect(g.points, g.weights, degree)
    wsum = float(np.sum(g.weights))
    if not (worst <= TOL):
        msg = (f"{method} degree {degree} ({g.size} pts): max |sum w Y_lm - sqrt(4pi) d_l0| = {worst:.3e} at (l,m)={lm}; "
               f"sum w = {wsum / (4 * np.pi):.6f}*4pi")
        if (method, degree) == ("ahrens_beylkin", 39):
            ctx.known("KF-C02-ab39", "not-exact-to-degree", msg)
        elif (method, degree) == ("ahrens_beylkin", 127) and worst < 1e-3:
            ctx.known("KF-C02-ab127", "not-exact-to-degree", msg)
        else:
            ctx.fail("not-exact-to-degree", msg)
    if want_size <= 2000:
        # the same grid through the cache (filled, then hit) and through the size= route is the same quadrature
        for route in ("cache-fill", "cache-hit", "size", "cache-hit-after-uncached-build"):
            g2 = AngularGrid(size=want_size, method=method, cache=False) if route == "size" else AngularGrid(degree=degree, method=method, cache=True)
            same = g2.points.shape == g.points.shape and np.array_equal(g2.points, g.points) and np.array_equal(g2.weights, g.weights)
            ctx.check(same and g2.degree == degree, "route-dependent-grid", f"{method} degree {degree}: grid via {route} differs from the cache=False grid")
            # what the caller does with a grid it was handed (here: destroys its arrays in place) must not change
            # the quadrature the next construction returns
            g2.points[...] = 0.0
            g2.weights[...] = -1.0
    ctx.check(abs(wsum - 4 * np.pi) <= TOL * 4 or not (worst <= TOL), "weights-do-not-sum-to-4pi", f"{method} {degree}: sum w = {wsum!r}")


def _all_cases():
    out = []
    for m in dl.METHODS:
        for d, s in dl.table(m):
            out.append(({"method": m, "degree": d}, s * (d + 1) ** 2))
    out.sort(key=lambda t: -t[1])
    return out


def selftest():
    sph.selftest()
    # the oracle must see a defect when one exists: Lebedev-like octahedron with a perturbed weight
    p = np.array([[1, 0, 0], [-1, 0, 0], [0, 1, 0], [0, -1, 0], [0, 0, 1], [0, 0, -1.0]])
    w = np.full(6, 4 * np.pi / 6)
    assert sph.quadrature_defect(p, w, 3)[0] < 1e-13
    w2 = w.copy()
    w2[0] *= 1 + 1e-6
    assert sph.quadrature_defect(p, w2, 3)[0] > 1e-7
    assert sph.quadrature_defect(p, w, 4)[0] > 1e-2  # octahedron is not exact for l=4
    n = sum(len(dl.table(m)) for m in dl.METHODS)
    assert n == 450, f"expected 450 constructible grids, found {n}"


def subchecks(tier, seed):
    allc = _all_cases()
    if tier == "thorough":
        cases = [c for c, _ in allc]
        exhaustive = True
    else:
        cases = []
        k = 0
        for c, cost in allc:
            if cost <= QUICK_COST or (c["method"], c["degree"]) in PINNED:
                cases.append(c)
            else:
                if (k + seed) % 4 == 0:
                    cases.append(c)
                k += 1
        exhaustive = False
    return [SubCheck("exactness", body, cases=cases, exhaustive=exhaustive, shards=64)]
