"""C15 - ODE solvers return the solution of the stated problem under any transformation.

Manufactured problems: the exact solution y = sum c e^{px} cos(qx+s) and the coefficient functions
are drawn, the right-hand side is f := sum a_k y^(k), initial/boundary data are read off y.  The
library is asked to solve the problem directly and through a coordinate transformation; the returned
callable (a function of the ORIGINAL variable) is compared with y, y', y'' at 23 points, the prescribed
conditions are re-read from it, and the transformed solve is compared with the direct solve.

Oracle independence: y and its derivatives are analytic; the change of variables needed to state
boundary data in the solver variable (documented convention of solve_ode_bvp) and to scale the
tolerance is computed from closed forms typed from the transform docstrings and differentiated with
jet arithmetic (pbt/oracles/ode_manufactured.py, self-tested against 30-digit mpmath differentiation);
nothing from grid/ode.py and no derivative method of grid/rtransform.py is used on the reference side.
"""
import math

import numpy as np
from hypothesis import strategies as st

from ..core import SubCheck
from ..oracles import ode_manufactured as om

PROPERTY = "C15"
RULE = (
    "one case = one manufactured linear ODE problem (order 1..3; exact solution sum of 1-3 terms c e^{px}cos(qx+s); "
    "coefficients constants or a+b sin(wx+ph), |leading| >= 0.3; f := sum a_k y^(k)) + data (IVP: y^(k)(x0), forward or "
    "backward in x; BVP: value/derivative conditions at either end, families restricted to uniquely solvable ones: "
    "first order; second order with a2*a0 < 0 and one condition per end; operators factored as lead(x) prod (D - r_i(x)) "
    "with Hermite-type conditions) + a transform descriptor (none, Identity, LinearFinite, LinearInfinite, Exp, Power, "
    "Becke, Knowles, Handy, HandyMod, MultiExp, each forward or wrapped in InverseRTransform, random parameters, "
    "x-interval inside the domain, length <= min(2.5, 2/L) with L the Lipschitz bound of the companion system) + IVP method "
    "(RK45, DOP853, Radau, LSODA, RK23, BDF) + solver tolerance (IVP rtol=atol in 1e-8..1e-10, BVP tol in 1e-6..1e-9). non-trivial = (order >= 2 and a transform) or a non-constant coefficient; distinct = distinct descriptor"
)
RULE = RULE + " " + 'A quarter of the forward (non-inverted) exp/power/becke/knowles/handy/multiexp maps get a length scale of 1e-3, 1e-6 or 1e-9 (rmin, rmax, R multiplied); pinned small-scale third-order cases.'

ASSUMPTIONS = [
    "error model: |returned - exact| <= C * tol * G * S for y and every returned x-derivative, with "
    "S = max over the interval and over k of S_k(x), S_0 = 1+|y|, S_k = sum_j |M_kj(x)| (1+|d^j y/dr^j|), M the chain-rule "
    "matrix between the solver variable r and x (the solver controls y and its r-derivatives; an error committed anywhere in "
    "any component reaches every component later); BVP: C = 100, G = 1, tol = the tol handed to solve_ode_bvp "
    "(measured <= 0.005 of the bound over 9000 cases); IVP: tol = rtol = atol, G = exp(L*T) <= e^2 the growth bound of the "
    "companion system, and C by method because scipy controls the error per step so that the global error is "
    "(number of steps) x tol: C = 100 Radau, 300 DOP853, 1000 RK45/RK23, 3000 LSODA/BDF (measured max fraction of the bound "
    "over 9000 cases: Radau 0.002, DOP853 0.014, RK45 0.021, RK23 0.003, LSODA 0.005, BDF 0.008); initial data at x0 are "
    "re-read with C * tol * S_k(x0) (no growth factor)",
    "transform closed forms and their derivatives: own jets, self-tested against mpmath (30 digits)",
    "'The ode solver didn't converge' (ValueError) = inconclusive; BVP through a decreasing map (MultiExp, inverse of "
    "MultiExp) is not generated: which end 'lower/upper' means is not defined there; HyperbolicRTransform is not generated "
    "(its validity depends on the size of the array it is called with)",
    "scipy's solve_ivp/solve_bvp are trusted to meet their tolerances on the first-order system they are handed",
]

C_TOL = 100.0
# IVP: scipy controls the error per step; the global error is (number of steps) x that, propagated.  With C = 100 for
# every method the measured maxima were 0.3 (BDF), 0.27 (RK45), 0.17 (LSODA), 0.07 (DOP853, RK23), 0.001 (Radau) of the
# bound; the constants below restore a margin >= 45x for each method (see ASSUMPTIONS).
C_METHOD = {"DOP853": 300.0, "Radau": 100.0, "RK45": 1000.0, "RK23": 1000.0, "BDF": 3000.0, "LSODA": 3000.0}
NPTS = 23
TWO_PI = 6.283185307179586


# ---------------------------------------------------------------------------------------------
# strategies.  Every random quantity is drawn on demand from one of two primitive strategies (a unit float, a 31-bit
# integer) inside a composite and decoded (range = affine map, category = integer mod n).  Reason (measured):
# Hypothesis' span mutator copies draws between strategies of the same type; with sampled_from/ranged floats of
# different sizes the copy is out of range and is replaced by the simplest value, which gave 40 % "no transform" /
# "RK45" / x0 at the window edge.  With one common range per type a copied draw decodes to an ordinary value, the
# class histogram follows the weights below, and shrinking still works (0 = first category / lower end of the range).
_U = st.floats(0.0, 1.0, allow_nan=False, width=64)
_I = st.integers(0, 2**31 - 1)


class Genes:
    def __init__(self, draw):
        self.draw = draw

    def f(self, lo, hi):
        return float(lo + (hi - lo) * self.draw(_U))

    def n(self, k):
        return int(self.draw(_I) % k)

    def pick(self, seq):
        return seq[self.n(len(seq))]

    def flag(self):
        return bool(self.n(2))


def _dec_sol(g):
    j = 1 + g.n(3)
    terms = [(g.f(0.2, 1.0) * (1 if g.flag() else -1), g.f(-0.8, 0.8), g.f(0.0, 2.0), g.f(0.0, TWO_PI)) for _ in range(j)]
    return {"c": [t[0] for t in terms], "p": [t[1] for t in terms], "q": [t[2] for t in terms], "s": [t[3] for t in terms]}


def _dec_coef(g, vmax=1.5, amax=1.0, bmax=0.5, lead=None):
    """lead: None = ordinary coefficient; 'signed' / 'pos' = bounded away from zero (|.| >= 0.3)."""
    kind = g.pick(["const", "sin"])
    if lead:
        a = g.f(0.6, 1.5) * (-1 if (lead == "signed" and g.flag()) else 1)
        if kind == "const":
            return {"kind": "const", "v": a}
        return {"kind": "sin", "a": a, "b": g.f(-0.3, 0.3), "w": g.f(0.3, 1.5), "ph": g.f(0.0, TWO_PI)}
    if kind == "const":
        return {"kind": "const", "v": g.f(-vmax, vmax)}
    return {"kind": "sin", "a": g.f(-amax, amax), "b": g.f(-bmax, bmax), "w": g.f(0.3, 1.5), "ph": g.f(0.0, TWO_PI)}


_TF_NAMES = ["none", "identity", "linfin", "lininf", "exp", "power"] + 2 * ["becke", "knowles", "handy", "handymod", "multiexp"]


def _dec_tf(g, increasing_only=False):
    d = _dec_tf_unit(g, increasing_only)
    # a quarter of the forward (non-inverted) maps get a very small length scale: the problem in x is unchanged, the
    # solver variable r and all derivatives d^k r/dx^k shrink by the same factor (1e-3 .. 1e-9); nothing may be treated
    # as "zero" because it is small in absolute terms
    sc = g.pick([1.0, 1.0, 1.0, 1e-3, 1e-6, 1e-9]) if d["kind"] in ("exp", "power", "becke", "knowles", "handy", "multiexp") and not d.get("inv") else 1.0
    if sc != 1.0:
        for key in ("rmin", "rmax", "R"):
            if key in d:
                d[key] = d[key] * sc
        d["scaled"] = sc
    return d


def _dec_tf_unit(g, increasing_only=False):
    names = [k for k in _TF_NAMES if not (increasing_only and k == "multiexp")]
    kind = g.pick(names)
    if kind == "none":
        return {"kind": "none"}
    inv = g.flag()
    if kind == "identity":
        return {"kind": kind, "inv": inv}
    if kind == "linfin":
        rmin = g.f(0.0, 1.0)
        return {"kind": kind, "inv": inv, "rmin": rmin, "rmax": rmin + g.f(0.5, 6.0)}
    if kind == "lininf":
        rmin = g.f(0.0, 1.0)
        return {"kind": kind, "inv": inv, "rmin": rmin, "rmax": rmin + g.f(0.5, 6.0), "b": g.f(2.0, 10.0)}
    if kind == "exp":
        rmin = g.f(0.05, 1.0)
        return {"kind": kind, "inv": inv, "rmin": rmin, "rmax": rmin * g.f(3.0, 100.0), "b": g.f(3.0, 10.0)}
    if kind == "power":
        rmin, b = g.f(0.05, 1.0), g.f(3.0, 10.0)
        return {"kind": kind, "inv": False, "rmin": rmin, "rmax": rmin * (b + 1) ** g.f(1.2, 3.0), "b": b}
    rmin = g.pick([0.0, 1e-3, 0.1, 0.4])
    if kind in ("becke", "multiexp"):
        return {"kind": kind, "inv": inv, "rmin": rmin, "R": g.f(0.5, 2.0)}
    if kind == "knowles":
        return {"kind": kind, "inv": inv, "rmin": rmin, "R": g.f(0.5, 2.0), "k": 1 + g.n(4)}
    if kind == "handy":
        return {"kind": kind, "inv": inv, "rmin": rmin, "R": g.f(0.5, 2.0), "m": 1 + g.n(3)}
    m = 1 + g.n(3)
    return {"kind": "handymod", "inv": inv, "rmin": rmin, "rmax": rmin + 2.0**m + g.f(0.5, 20.0), "m": m}


_IVP_METHODS = ["RK45", "RK45", "DOP853", "DOP853", "Radau", "Radau", "LSODA", "RK23", "BDF"]


@st.composite
def _ivp_strategy(draw):
    g = Genes(draw)
    order = g.pick([1, 2, 2, 3, 3])
    tf = _dec_tf(g)
    method = g.pick(_IVP_METHODS)
    backward, as_array = g.flag(), g.flag()
    no_deriv = g.n(4) == 3
    tol = g.pick([1e-9, 1e-9, 1e-8, 1e-10])
    u0, ulen = g.f(0.0, 1.0), g.f(0.3, 1.0)
    sol = _dec_sol(g)
    low = [_dec_coef(g) for _ in range(order)]
    lead = _dec_coef(g, lead="signed")
    return {"order": order, "sol": sol, "coefs": low + [lead], "tf": tf, "u0": u0, "ulen": ulen, "backward": backward,
            "method": method, "tol": tol, "as_array": as_array, "no_deriv": no_deriv}


_BC = {
    ("first", 1): [[[0, 0]], [[1, 0]]],
    ("maxp", 2): [[[0, j0], [1, j1]] for j0 in (0, 1) for j1 in (0, 1)],
    ("fact", 2): [[[0, 0], [1, 0]], [[0, 0], [0, 1]], [[1, 0], [1, 1]]],
    ("fact", 3): [
        [[0, 0], [0, 1], [1, 0]],
        [[0, 0], [1, 0], [1, 1]],
        [[0, 0], [0, 1], [0, 2]],
        [[1, 0], [1, 1], [1, 2]],
    ],
}
_FAMILIES = [("first", 1), ("maxp", 2), ("maxp", 2), ("fact", 2), ("fact", 2), ("fact", 3), ("fact", 3), ("fact", 3)]


@st.composite
def _bvp_strategy(draw):
    g = Genes(draw)
    fam, order = g.pick(_FAMILIES)
    tf = _dec_tf(g, increasing_only=True)
    opts = _BC[(fam, order)]
    bc = opts[g.n(12) % len(opts)]
    perm, npts = g.n(6), 8 + g.n(33)
    tol = g.pick([1e-8, 1e-8, 1e-6, 1e-9])
    as_array, neg = g.flag(), g.flag()
    no_deriv = g.n(3) == 2
    u0, ulen = g.f(0.0, 1.0), g.f(0.3, 1.0)
    sol = _dec_sol(g)
    out = {"family": fam, "order": order, "sol": sol, "tf": tf, "bc": bc, "perm": perm, "npts": npts, "tol": tol,
           "as_array": as_array, "no_deriv": no_deriv, "u0": u0, "ulen": ulen}
    if fam == "first":
        out["coefs"] = [_dec_coef(g), _dec_coef(g, lead="signed")]
    elif fam == "maxp":
        # a2 > 0 > a0 (then optionally the whole equation times -1): maximum principle => uniquely solvable for any
        # value/derivative condition per end
        a0 = _dec_coef(g)
        if a0["kind"] == "const":
            a0["v"] = -g.f(0.1, 1.5)
        else:
            a0["a"], a0["b"] = -g.f(0.4, 1.5), g.f(-0.3, 0.3)
        out["coefs"], out["neg"] = [a0, _dec_coef(g), _dec_coef(g, lead="pos")], neg
    else:
        out["roots"] = [_dec_coef(g, vmax=1.2, amax=0.8, bmax=0.4) for _ in range(order)]
        out["lead"] = _dec_coef(g, lead="signed")
    return out


# ---------------------------------------------------------------------------------------------
# helpers shared by the bodies
def _cabs_max(cf):
    return abs(cf["v"]) if cf["kind"] == "const" else abs(cf["a"]) + abs(cf["b"])


def _cabs_min(cf):
    return abs(cf["v"]) if cf["kind"] == "const" else max(abs(cf["a"]) - abs(cf["b"]), 0.0)


def _window(tf):
    """Admissible x-window (inside the transform domain, away from its singular ends)."""
    k = tf["kind"]
    inv = tf.get("inv", False)
    if k == "none":
        return -3.0, 3.0
    if k in ("identity",):
        return 0.05, 4.0
    if k == "linfin":
        if inv:
            s = tf["rmax"] - tf["rmin"]
            return tf["rmin"] + 0.02 * s, tf["rmax"] - 0.02 * s
        return -0.95, 0.95
    if k == "lininf":
        if inv:
            s = tf["rmax"] - tf["rmin"]
            return tf["rmin"] + 0.02 * s, tf["rmax"] - 0.02 * s
        return 0.05, 4.0
    if k == "exp":
        if inv:
            return tf["rmin"] * 1.05, min(tf["rmax"] * 0.98, tf["rmin"] * 1.05 + 4.0)
        return 0.05, 4.0
    if k == "power":
        return 0.05, 4.0
    if k == "handymod" and inv:
        s = tf["rmax"] - tf["rmin"]
        return tf["rmin"] + 0.03 * s, tf["rmin"] + min(0.9 * s, 0.03 * s + 4.0)
    if inv:  # semi-infinite codomains [rmin, inf)
        return tf["rmin"] + 0.08, tf["rmin"] + 4.0
    if k == "becke":
        return -0.9, 0.6
    if k == "multiexp":
        return -0.8, 0.8
    return -0.7, 0.6  # knowles, handy, handymod forward


def _interval(case, lip):
    lo, hi = _window(case["tf"])
    tmax = min(hi - lo, 2.5, 2.0 / lip)
    t = max(case["ulen"] * tmax, min(0.2, tmax))
    a = lo + case["u0"] * (hi - lo - t)
    return float(a), float(a + t)


def _tf_label(tf):
    return "tf:" + tf["kind"] + ("-inv" if tf.get("inv") else "")


def _not_converged(exc):
    return isinstance(exc, (ValueError, RuntimeError)) and "converge" in str(exc)


def _local_scale(tf, xs, sol, order):
    """S_k(x) = sum_j |M_kj(x)| (1 + |d^j y/dr^j (x)|): size of a unit relative+absolute perturbation of the solver's
    variables (y and its r-derivatives) seen in the k-th x-derivative; row 0 is 1 + |y|.  Shape (order, len(xs))."""
    gj = om.tf_jet(tf, xs)
    ydx = [om.y_deriv(sol, xs, k) for k in range(order)]
    ydr = om.derivs_wrt_r(gj, ydx)
    rows = [1.0 + np.abs(ydr[0])]
    if order > 1:
        m = om.chain_matrix_abs(gj, order - 1)
        for k in range(1, order):
            rows.append(sum(m[k - 1, j - 1] * (1.0 + np.abs(ydr[j])) for j in range(1, order)))
    return np.array(rows)


def _tolerances(tf, xs, sol, order, tol, growth=None, c=C_TOL):
    """Per-row tolerance arrays (all rows equal): c * tol * growth * max_{k,x} S_k(x).  Local errors (IVP) / collocation
    residuals (BVP) committed anywhere, in any component of the solver's variables, reach every returned component."""
    sc = _local_scale(tf, xs, sol, order)
    return [np.full(xs.shape, c * tol * (growth or 1.0) * float(np.max(sc)))] * order


def _compare(ctx, out, xs, sol, order, tols, prefix, what):
    worst = 0.0
    for k in range(out.shape[0]):
        ref = om.y_deriv(sol, xs, k)
        err = np.abs(out[k] - ref)
        with np.errstate(invalid="ignore"):
            worst = max(worst, float(np.max(err / tols[k])) if np.all(np.isfinite(err)) else np.inf)
        ctx.close(out[k], ref, tols[k], f"{prefix}-{'solution' if k == 0 else 'derivative'}", f"{what} d^{k}y/dx^{k}")
    return worst


# ---------------------------------------------------------------------------------------------
def body_ivp(case, ctx):
    from grid.ode import solve_ode_ivp

    order, sol, coefs, tf = case["order"], case["sol"], case["coefs"], case["tf"]
    lead_min = _cabs_min(coefs[-1])
    lip = max(1.0, sum(_cabs_max(c) for c in coefs[:-1]) / lead_min)
    a, b = _interval(case, lip)
    growth = math.exp(lip * (b - a))
    span = (b, a) if case["backward"] else (a, b)
    tol = case["tol"]
    has_tf = tf["kind"] != "none"
    varcoef = any(c["kind"] != "const" for c in coefs)
    ctx.cls(f"order{order}", _tf_label(tf), case["method"], "coef:var" if varcoef else "coef:const", "backward" if case["backward"] else "forward")
    ctx.nt((order >= 2 and has_tf) or varcoef)

    def fx(x):
        return om.rhs(sol, coefs, x)

    lib_coefs = om.library_coeffs(coefs, case["as_array"])
    y0 = [float(om.y_deriv(sol, np.array(span[0]), k)) for k in range(order)]
    tfobj = om.build_transform(tf)
    no_deriv = bool(case["no_deriv"]) and has_tf
    xs = np.linspace(a, b, NPTS)

    # with as_array the SAME float64 array of initial values is handed to every solve of this case (through the
    # transform first, then directly): the caller's array must come back untouched, otherwise the later solves see
    # other initial data
    y0_shared = np.array(y0, dtype=float) if case["as_array"] else None

    def solve(transform, nd):
        y0_arg = y0_shared if y0_shared is not None else list(y0)
        res = solve_ode_ivp(span, fx, lib_coefs, y0_arg, transform, method=case["method"], no_derivatives=nd, rtol=tol, atol=tol)
        if y0_shared is not None and not np.array_equal(y0_shared, np.array(y0, dtype=float)):
            ctx.fail("ivp-initial-data-array-modified", f"solve_ode_ivp changed the caller's y0 array from {y0} to {y0_shared.tolist()} (transform {tf})")
            y0_shared[...] = y0
        return res

    try:
        f_t = solve(tfobj, no_deriv)
        out = np.asarray(f_t(xs), dtype=float)
    except Exception as exc:  # noqa: BLE001
        if _not_converged(exc):
            ctx.skip("no convergence")
            return
        raise
    if no_deriv:
        ctx.cls("no_derivatives")
        if not ctx.check(out.shape == xs.shape, "ivp-shape", f"no_derivatives=True returned shape {out.shape}, expected {xs.shape}"):
            return
        out = out[None, :]
    elif not ctx.check(out.shape == (order, NPTS), "ivp-shape", f"returned shape {out.shape}, expected {(order, NPTS)}"):
        return
    c_m = C_METHOD[case["method"]]
    tols = _tolerances(tf, xs, sol, order, tol, growth, c_m)
    sc0 = _local_scale(tf, np.array([span[0]]), sol, order)
    prefix = "ivp-tf" if has_tf else "ivp-direct"
    ctx.info["ratio"] = _compare(ctx, out, xs, sol, order, tols, prefix, f"{_tf_label(tf)} {case['method']}")
    ctx.info["growth"] = growth
    # prescribed initial data are reproduced at x0
    i0 = NPTS - 1 if case["backward"] else 0
    for k in range(out.shape[0]):
        ctx.close(out[k, i0], y0[k], c_m * tol * sc0[k, 0], "ivp-initial-data", f"d^{k}y/dx^{k}(x0)")
    if has_tf:
        try:
            out_d = np.asarray(solve(None, False)(xs), dtype=float)
        except Exception as exc:  # noqa: BLE001
            if _not_converged(exc):
                ctx.skip("no convergence (direct)")
                return
            raise
        tols_d = _tolerances({"kind": "none"}, xs, sol, order, tol, growth, c_m)
        for k in range(out.shape[0]):
            ctx.close(out[k], out_d[k], tols[k] + tols_d[k], "ivp-transformed-vs-direct", f"{_tf_label(tf)} d^{k}y/dx^{k}")


def _bvp_problem(case):
    """(coefficient descriptors or None, coefficient callables, lipschitz bound)."""
    fam = case["family"]
    if fam == "fact":
        roots, lead = case["roots"], case["lead"]
        fns = om.factored_coefs(roots, lead)
        lip = max(1.0, max(_cabs_max(r) for r in roots))
        allconst = lead["kind"] == "const" and all(r["kind"] == "const" for r in roots)
        return fns, allconst, lip
    coefs = [dict(c) for c in case["coefs"]]
    if case.get("neg"):
        for c in coefs:
            for key in ("v", "a", "b"):
                if key in c:
                    c[key] = -c[key]
    fns = [om.coef_callable(c) for c in coefs]
    lip = max(1.0, sum(_cabs_max(c) for c in coefs[:-1]) / _cabs_min(coefs[-1]))
    return fns, all(c["kind"] == "const" for c in coefs), lip


def body_bvp(case, ctx):
    from grid.ode import solve_ode_bvp

    order, sol, tf = case["order"], case["sol"], case["tf"]
    fns, allconst, lip = _bvp_problem(case)
    a, b = _interval(case, lip)
    tol = case["tol"]
    has_tf = tf["kind"] != "none"
    ctx.cls(f"order{order}", _tf_label(tf), case["family"], "coef:const" if allconst else "coef:var")
    ctx.nt((order >= 2 and has_tf) or not allconst)

    def fx(x):
        return sum(fns[k](x) * om.y_deriv(sol, x, k) for k in range(order + 1))

    if allconst:
        vals = [float(fn(np.array(0.0))) for fn in fns]
        lib_coefs = np.array(vals) if case["as_array"] else vals
    else:
        lib_coefs = list(fns)
    tfobj = om.build_transform(tf)
    ends = np.array([a, b])
    gj_ends = om.tf_jet(tf, ends)
    ydx_ends = [om.y_deriv(sol, ends, k) for k in range(order)]
    ydr_ends = om.derivs_wrt_r(gj_ends, ydx_ends)  # documented: derivative conditions are w.r.t. the new coordinate
    bcs = list(case["bc"])
    p = case["perm"] % math.factorial(len(bcs))
    perm = []
    pool = list(range(len(bcs)))
    for i in range(len(bcs), 0, -1):
        perm.append(pool.pop(p % i))
        p //= i
    bcs = [bcs[i] for i in perm]
    bd_cond = [(int(e), int(j), float(ydr_ends[j][e])) for e, j in bcs]
    ctx.cls("bc:" + "".join(f"{'ab'[e]}{j}" for e, j in sorted(bcs)))
    x = np.linspace(a, b, case["npts"])
    xs = np.linspace(a, b, NPTS)
    no_deriv = bool(case["no_deriv"])

    def solve(transform, nd, cond):
        return solve_ode_bvp(x, fx, lib_coefs, cond, transform, tol=tol, max_nodes=20000, initial_guess_y=np.zeros((order, x.size)), no_derivatives=nd)

    try:
        f_t = solve(tfobj, no_deriv, bd_cond)
        out = np.asarray(f_t(xs), dtype=float)
    except Exception as exc:  # noqa: BLE001
        if _not_converged(exc):
            ctx.skip("no convergence")
            return
        raise
    if no_deriv and has_tf:
        ctx.cls("no_derivatives")
        if not ctx.check(out.shape == xs.shape, "bvp-shape", f"no_derivatives=True returned shape {out.shape}, expected {xs.shape}"):
            return
        out = out[None, :]
    elif not ctx.check(out.shape == (order, NPTS), "bvp-shape", f"returned shape {out.shape}, expected {(order, NPTS)}"):
        return
    tols = _tolerances(tf, xs, sol, order, tol)
    prefix = "bvp-tf" if has_tf else "bvp-direct"
    ctx.info["ratio"] = _compare(ctx, out, xs, sol, order, tols, prefix, f"{_tf_label(tf)} {case['family']}")
    # prescribed conditions, re-read from the returned callable (x-derivatives -> r-derivatives by the chain rule)
    if out.shape[0] == order:
        idx = [0, NPTS - 1]
        got_r = om.derivs_wrt_r(gj_ends, [out[k, idx] for k in range(order)])
        # error of d^j y/dr^j recovered from x-derivatives carrying errors tols[k]: same triangular solve on the bounds
        g1, g2 = np.abs(gj_ends.d[1]), np.abs(gj_ends.d[2])
        slack = [tols[0][idx]]
        if order > 1:
            slack.append(tols[1][idx] / g1)
        if order > 2:
            slack.append((tols[2][idx] + g2 * slack[1]) / g1**2)
        for e, j, val in bd_cond:
            ctx.close(got_r[j][e], val, slack[j][e], "bvp-condition", f"d^{j}y/dr^{j} at end {e} ({_tf_label(tf)})")
    else:
        for e, j, val in bd_cond:
            if j == 0:
                ctx.close(out[0, [0, NPTS - 1][e]], val, tols[0][0], "bvp-condition", f"y at end {e} ({_tf_label(tf)})")
    if has_tf:
        cond_x = [(int(e), int(j), float(ydx_ends[j][e])) for e, j in bcs]
        try:
            out_d = np.asarray(solve(None, False, cond_x)(xs), dtype=float)
        except Exception as exc:  # noqa: BLE001
            if _not_converged(exc):
                ctx.skip("no convergence (direct)")
                return
            raise
        tols_d = _tolerances({"kind": "none"}, xs, sol, order, tol)
        for k in range(out.shape[0]):
            ctx.close(out[k], out_d[k], tols[k] + tols_d[k], "bvp-transformed-vs-direct", f"{_tf_label(tf)} d^{k}y/dx^{k}")


# ---------------------------------------------------------------------------------------------
_SOL0 = {"c": [0.7, -0.4], "p": [0.3, -0.5], "q": [1.1, 0.4], "s": [0.5, 2.0]}


def _pinned_ivp():
    base = {
        "sol": _SOL0,
        "u0": 0.3,
        "ulen": 0.8,
        "backward": False,
        "tol": 1e-9,
        "as_array": False,
        "no_deriv": False,
    }
    c2 = [{"kind": "const", "v": -1.0}, {"kind": "sin", "a": 0.5, "b": 0.3, "w": 1.0, "ph": 0.2}, {"kind": "const", "v": 1.0}]
    c3 = [{"kind": "const", "v": 0.4}] + c2
    out = []
    # regression cases of the two defects repaired in /repo (033fbb1: implicit methods with order >= 2; bc6281f:
    # LinearInfiniteRTransform derivative methods with a scalar argument)
    for method in ("Radau", "BDF"):
        out.append(dict(base, order=2, coefs=c2, tf={"kind": "none"}, method=method))
        out.append(dict(base, order=3, coefs=c3, tf={"kind": "becke", "inv": True, "rmin": 0.0, "R": 1.5}, method=method))
    out.append(dict(base, order=2, coefs=c2, tf={"kind": "lininf", "inv": False, "rmin": 0.2, "rmax": 3.0, "b": 5.0}, method="DOP853"))
    out.append(dict(base, order=1, coefs=c2[1:], tf={"kind": "lininf", "inv": True, "rmin": 0.2, "rmax": 3.0, "b": 5.0}, method="RK45"))
    # the library's own usage pattern: Poisson radial equation direction (backward, inverse Becke)
    out.append(dict(base, order=2, coefs=c2, tf={"kind": "becke", "inv": True, "rmin": 0.0, "R": 1.5}, method="DOP853", backward=True))
    # transforms of a very small length scale: r, dr/dx, d2r/dx2 ... are all ~1e-7..1e-10 in absolute terms, far from
    # zero in relative terms - every chain-rule term still matters for the returned derivatives (third order)
    for tf in ({"kind": "exp", "inv": False, "rmin": 1e-7, "rmax": 10.0, "b": 100.0},
               {"kind": "power", "inv": False, "rmin": 1e-9, "rmax": 10.0, "b": 100.0},
               {"kind": "becke", "inv": False, "rmin": 0.0, "R": 1e-10}):
        for order, coefs in ((3, c3), (2, c2)):
            out.append(dict(base, order=order, coefs=coefs, tf=tf, method="DOP853", tol=1e-10))
    return out


def _pinned_bvp():
    # regression: LinearInfiniteRTransform with derivatives returned (scalar deriv calls), the Poisson-like use
    # (inverse Becke, value conditions at both ends, default no_derivatives), a third-order problem through Knowles
    base = {"sol": _SOL0, "u0": 0.2, "ulen": 0.9, "npts": 20, "tol": 1e-8, "as_array": False, "perm": 0}
    r = [{"kind": "const", "v": 0.5}, {"kind": "sin", "a": -0.4, "b": 0.3, "w": 1.0, "ph": 1.0}, {"kind": "const", "v": -0.8}]
    lead = {"kind": "sin", "a": 1.0, "b": 0.2, "w": 0.7, "ph": 0.3}
    return [
        dict(base, family="fact", order=2, roots=r[:2], lead=lead, bc=[[0, 0], [0, 1]], no_deriv=False,
             tf={"kind": "lininf", "inv": False, "rmin": 0.2, "rmax": 3.0, "b": 5.0}),
        dict(base, family="fact", order=2, roots=r[:2], lead=lead, bc=[[0, 0], [1, 0]], no_deriv=True,
             tf={"kind": "becke", "inv": True, "rmin": 0.0, "R": 1.5}),
        dict(base, family="fact", order=3, roots=r, lead=lead, bc=[[0, 0], [1, 0], [1, 1]], no_deriv=False,
             tf={"kind": "knowles", "inv": False, "rmin": 0.1, "R": 1.2, "k": 2}),
    ]


def selftest():
    om.selftest()
    # the comparison must be able to fail: a solution shifted by 1e-5 is outside the tolerance model
    xs = np.linspace(0.2, 1.4, NPTS)
    tf = {"kind": "becke", "inv": True, "rmin": 0.0, "R": 1.5}
    tols = _tolerances(tf, xs, _SOL0, 3, 1e-9)
    assert all(np.all(t > 0) and np.all(t < 1e-5) for t in tols), "tolerance model out of range"


def subchecks(tier, seed):
    quick = tier == "quick"
    return [
        SubCheck("ivp", body_ivp, strategy=_ivp_strategy(), examples=3200 if quick else 60000, cases=_pinned_ivp(), shards=16, budget_s=240 if quick else 1500),
        SubCheck("bvp", body_bvp, strategy=_bvp_strategy(), examples=3200 if quick else 60000, cases=_pinned_bvp(), shards=16, budget_s=240 if quick else 1500),
    ]
