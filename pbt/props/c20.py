"""C20 - library calls never modify the caller's arrays, dictionaries or callback results.

Every case names one public operation of the registry (pbt/alias_registry.py), a small JSON argument
descriptor, an aliasing pattern and a callback mode.  The body runs the operation twice:

* reference run: pattern "plain", callbacks "fresh" - every argument a distinct, writable, freshly
  allocated object;
* test run: the pattern of the case -
    ro        all arrays write-protected,
    alias     the same array / list / grid object handed in for two parameters (where the operation
              declares that two parameters can hold the same values: points & centres, weights & values, ...),
    alias_ro  both,
    shared    the call is made twice with the very same argument objects (lists, dicts, arrays shared
              between calls),
  and the callback mode - the callback returns a fresh array, its own argument, ONE memoised array per
  input (cached constant), or a memoised read-only array.

Oracle (no library code involved): byte-wise snapshots (data, dtype, shape; recursive for lists / dicts)
of every caller-side object before and after each run must agree; every array a callback returned
must still hold the bytes it had when it was returned; the test run may not raise when the reference
run succeeded (in particular no "read-only" error); the canonical result of the test run equals that
of the reference run (np.array_equal, or 1e-13 relative for floating point reductions).
"""
import numpy as np
from hypothesis import strategies as st

from .. import alias_registry as reg
from ..core import SubCheck

PROPERTY = "C20"
RULE = (
    "one case = (operation name from a registry of public operations across all modules, argument descriptor "
    "{seed, n, v}: data seed, small size, variant selector, aliasing pattern in {plain, ro, alias, alias_ro, shared}, "
    "callback mode in {fresh, arg, cached, cached_ro}); Hypothesis samples operation x descriptor x pattern x mode, "
    "and a sweep runs every operation x every applicable pattern x mode for 2 descriptors; pinned cases cover the "
    "repaired defects (fx callback result, ode_params). non-trivial = the test run differs from the reference run in "
    "its aliasing: arrays read-only, or at least one parameter pair really shares an object (A.same was reached), or "
    "the call is repeated on shared objects, or a callback returned its argument / a memoised array at least once. "
    "distinct = distinct case descriptor"
)
RULE = RULE + " " + 'The AtomGrid.__init__ operation requests shipped and not-shipped (rounded-up) degrees/sizes.'

ASSUMPTIONS = [
    "'caller data' = every array, list, dict created on the caller's side for the call, including the arrays a "
    "receiver object (Grid, OneDGrid, AtomGrid, ...) was constructed from; objects the library allocates itself are "
    "not snapshotted",
    "a callback that returns its own argument hands the library's array back: it is held to the same 'unchanged "
    "after the call' rule as any other callback result (as the property statement says)",
    "results of the aliased run are compared with the run on fresh writable copies, not with an analytical value",
    "operations whose reference run raises ValueError/TypeError (deliberately invalid variants) are only checked for "
    "unchanged arguments and for raising the same exception type under aliasing",
]

_P = st.fixed_dictionaries({"seed": st.integers(0, 10**6), "n": st.integers(0, 11), "v": st.integers(0, 119)})
_OK_ERRORS = (ValueError, TypeError, NotImplementedError, ZeroDivisionError)


def _run(o, p, pattern, cbmode):
    """One run of the operation; returns dict(result|error, changed args, changed callback results, stats)."""
    A = reg.Args(pattern, cbmode)
    out = {"A": A, "error": None, "results": [], "changed": [], "cb_changed": []}
    try:
        thunk = o.fn(p, A)
        before = A.snapshot()
        try:
            # solve_ode_bvp (and through it the Poisson solvers) draws its default initial guess from the global
            # NumPy generator: pin it before every call so that two runs are comparable
            np.random.seed(20)
            out["results"].append(reg.canon(thunk()))
            if pattern == "shared":
                mid = A.snapshot()
                np.random.seed(20)
                out["results"].append(reg.canon(thunk()))
                for (name, b), (_, a) in zip(before, mid):
                    if a != b:
                        out["changed"].append((name + " (after the first of two calls)", reg.describe_change(b, a)))
        except Exception as exc:  # noqa: BLE001 - classified by the caller
            out["error"] = exc
        after = A.snapshot()
        # objects registered while the thunk ran (none today) are ignored: zip stops at the shorter list
        for (name, b), (_, a) in zip(before, after):
            if a != b and not any(c[0].startswith(name + " (") for c in out["changed"]):
                out["changed"].append((name, reg.describe_change(b, a)))
        out["cb_changed"] = A.changed_callback_results()
    finally:
        A.cleanup()
    return out


def _is_readonly_error(exc):
    msg = str(exc).lower()
    return "read-only" in msg or "readonly" in msg or "not writeable" in msg or "writeable" in msg


def body(case, ctx):
    name = case["op"]
    o = reg.OPS[name]
    p, pattern, cbmode = case["p"], case["pattern"], case["cb"]
    ref = _run(o, p, "plain", "fresh")
    tst = _run(o, p, pattern, cbmode)
    A = tst["A"]
    desc = f"{name} p={p} pattern={pattern} cb={cbmode}"

    # ---- classification ---------------------------------------------------------------------
    eff = pattern
    if pattern in ("alias", "alias_ro") and A.n_same == 0:
        eff = {"alias": "plain", "alias_ro": "ro"}[pattern]
    has_arrays = any(isinstance(obj, np.ndarray) for _, obj in A.slots)
    if eff == "ro" and not has_arrays:
        eff = "plain"
    cb_eff = cbmode if (A.n_cb and A.n_cb_calls) else "fresh"
    ctx.cls(f"pattern:{eff}", f"module:{_module_of(name)}")
    if A.n_cb:
        ctx.cls(f"callback:{cb_eff}")
    ctx.nt(eff != "plain" or cb_eff != "fresh")
    ctx.info["op"] = name

    # ---- 1. nothing the caller owns was modified (both runs) ----------------------------------
    for run_name, run in (("fresh writable arguments", ref), (f"pattern {pattern}/{cbmode}", tst)):
        for slot, how in run["changed"]:
            ctx.fail(f"argument-modified:{name}", f"{desc}: caller object '{slot}' was modified during the run with {run_name}: {how}")
        for cbname in run["cb_changed"]:
            ctx.fail(f"callback-result-modified:{name}", f"{desc}: an array returned by callback {cbname} was modified afterwards (run with {run_name})")

    # ---- 2. same behaviour ---------------------------------------------------------------------
    e0, e1 = ref["error"], tst["error"]
    for run_name, run in (("fresh writable arguments", ref), (f"pattern {pattern}/{cbmode}", tst)):
        if isinstance(run["error"], reg.CallbackAbort):
            if not run["cb_changed"]:
                if run is ref:
                    ctx.skip(f"solver ran away in the reference run of {name}")
                else:
                    ctx.fail(f"solver-runs-away-only-under-aliasing:{name}", f"{desc}: {run['error']}")
            return
    if e0 is not None:
        if not isinstance(e0, _OK_ERRORS):
            ctx.skip(f"reference call raised {type(e0).__name__} in {name}")
            return
        ctx.cls("outcome:rejects-invalid-input")
        if e1 is None:
            ctx.fail(f"accepted-only-under-aliasing:{name}", f"{desc}: reference run raised {type(e0).__name__}: {e0}; aliased run returned")
        elif type(e1) is not type(e0):
            ctx.fail(f"different-exception-under-aliasing:{name}", f"{desc}: {type(e0).__name__}: {e0} vs {type(e1).__name__}: {e1}")
        return
    if e1 is not None:
        if _is_readonly_error(e1):
            ctx.fail(f"read-only-error:{name}", f"{desc}: {type(e1).__name__}: {e1}")
        else:
            ctx.fail(f"raises-only-under-aliasing:{name}", f"{desc}: {type(e1).__name__}: {e1}")
        return
    ctx.cls("outcome:returns")
    r0 = ref["results"][0]
    for i, r1 in enumerate(tst["results"]):
        diffs = reg.compare(r1, r0, "result" if i == 0 else "result of the second call on the same objects")
        if diffs:
            ctx.fail(f"result-differs-under-aliasing:{name}", f"{desc}: {diffs[0]}" + (f" (+{len(diffs) - 1} more)" if len(diffs) > 1 else ""))
            break


def _module_of(name):
    head = name.split(".")[0].split("[")[0].split("/")[0]
    table = {
        "Grid": "basegrid", "LocalGrid": "basegrid", "OneDGrid": "basegrid", "TrefethenGeneral": "onedgrid",
        "AngularGrid": "angular", "AtomGrid": "atomgrid", "MolGrid": "molgrid", "BeckeWeights": "becke",
        "HirshfeldWeights": "hirshfeld", "UniformGrid": "cubic", "Tensor1DGrids": "cubic", "PeriodicGrid": "periodicgrid",
        "MultiDomainGrid": "ngrid", "solve_ode_bvp": "ode", "solve_ode_ivp": "ode", "solve_poisson_bvp": "poisson",
        "solve_poisson_ivp": "poisson", "interpolate_laplacian": "poisson", "solve_poisson_robust": "robust_poisson",
        "coulomb_gaussian_s": "coulomb", "coulomb_potential": "coulomb", "load_atomic_gaussian_params": "coulomb",
    }  # fmt: skip
    if head.endswith("RTransform"):
        return "rtransform"
    return table.get(head, "utils")


# ---------------------------------------------------------------------------
# generators
# ---------------------------------------------------------------------------
def _case_strategy(names):
    def for_op(name):
        o = reg.OPS[name]
        cb = st.sampled_from(reg.cbmodes_for(o))
        plain = ["ro", "shared"] + (["plain"] if o.cbs else [])
        base = st.fixed_dictionaries({"op": st.just(name), "p": _P, "pattern": st.sampled_from(plain), "cb": cb})
        av = reg.alias_variants(name)
        if not av:
            return base
        pa = st.fixed_dictionaries({"seed": st.integers(0, 10**6), "n": st.integers(0, 11), "v": st.sampled_from(av)})
        ali = st.fixed_dictionaries({"op": st.just(name), "p": pa, "pattern": st.sampled_from(["alias", "alias_ro"]), "cb": cb})
        return st.one_of(base, ali)

    return st.sampled_from(sorted(names)).flatmap(for_op)


def _strategy_cheap():
    """Pools with fixed shares: the 108 near-identical transform operations must not crowd out the rest, and the
    operations that can alias two parameters / take callbacks get more than their head count."""
    cheap = reg.names("cheap")
    tf = [n for n in cheap if _module_of(n) == "rtransform"]
    rest = [n for n in cheap if _module_of(n) != "rtransform"]
    ali = [n for n in rest if reg.OPS[n].alias]
    cbs = [n for n in cheap if reg.OPS[n].cbs]
    pools = [(rest, 3), (ali, 4), (cbs, 2), (tf, 2)]
    parts = []
    for names, weight in pools:
        for _ in range(weight):
            parts.append(_case_strategy(names).map(lambda c: c))  # one_of drops repeated strategy objects
    return st.one_of(*parts)


def sweep_cases(cost, descriptors):
    out = []
    for name in sorted(reg.names(cost)):
        o = reg.OPS[name]
        av = reg.alias_variants(name)
        for pat in reg.patterns_for(o):
            for cb in reg.cbmodes_for(o):
                if pat == "plain" and cb == "fresh":
                    continue
                for i, p in enumerate(descriptors):
                    q = dict(p)
                    if pat in ("alias", "alias_ro"):
                        q["v"] = av[(p["v"] + i) % len(av)]
                    out.append({"op": name, "p": q, "pattern": pat, "cb": cb})
    return out


def pinned_cases():
    """Regression cases for the repaired defects 2ee5925 (fx result) and e0d2b62 (ode_params)."""
    out = []
    for opname in ("solve_ode_bvp", "solve_ode_ivp"):
        for v in (0, 6, 3, 9, 1, 2, 5, 7):  # fx = identity / const / sin, without and with transform, list/array/callable coefficients
            for cb in ("arg", "cached", "cached_ro"):
                out.append({"op": opname, "p": {"seed": 1, "n": 3, "v": v}, "pattern": "ro", "cb": cb})
    for opname, nv in (("solve_poisson_bvp", 4), ("solve_poisson_ivp", 3), ("solve_poisson_robust", 4), ("solve_poisson_bvp[MolGrid]", 1)):
        for v in range(nv):
            for pat in ("shared", "ro"):
                out.append({"op": opname, "p": {"seed": 2, "n": 0, "v": v}, "pattern": pat, "cb": "fresh"})
    return out


# ---------------------------------------------------------------------------
def selftest():
    # the snapshot notices data, dtype, shape, list and dict changes
    a = np.arange(4.0)
    lst, dct = [1, [2, 3]], {"tol": 1e-4}
    A = reg.Args("plain", "fresh")
    A._reg("a", a), A._reg("l", lst), A._reg("d", dct)
    s0 = A.snapshot()
    assert A.snapshot() == s0
    a[2] = -0.0 if a[2] == 0 else a[2] * (1 + 2**-52)
    assert A.snapshot() != s0
    a[:] = np.arange(4.0)
    assert A.snapshot() == s0
    lst[1].append(4)
    assert A.snapshot() != s0
    lst[1].pop()
    dct.setdefault("max_nodes", 5)
    assert A.snapshot() != s0
    # aliasing factory
    B = reg.Args("alias_ro", "arg")
    x = B.arr("x", [1.0, 2.0])
    y = B.same("y", x)
    assert y is x and not x.flags.writeable
    C = reg.Args("ro", "cached_ro")
    x = C.arr("x", [1.0, 2.0])
    y = C.same("y", x)
    assert y is not x and np.array_equal(x, y) and not y.flags.writeable
    f = C.cb("f", const=2.0)
    r1, r2 = f(np.zeros(3)), f(np.ones(3))
    assert r1 is r2 and not r1.flags.writeable and C.changed_callback_results() == []
    g = reg.Args("plain", "arg").cb("g", ident=0)
    z = np.ones(2)
    assert g(z) is z
    # comparison
    assert reg.compare(np.array([1.0, np.nan]), np.array([1.0, np.nan])) == []
    assert reg.compare(np.array([1.0 + 1e-9]), np.array([1.0])) != []
    assert reg.compare([1, {"a": np.arange(3)}], [1, {"a": np.arange(3)}]) == []
    assert len(reg.OPS) >= 150, len(reg.OPS)


def subchecks(tier, seed):
    quick = tier == "quick"
    d1 = [{"seed": 11, "n": 3, "v": seed % 7}, {"seed": 12 + seed, "n": 6, "v": 3 + seed}]
    d_solver = [{"seed": 5, "n": 2, "v": (seed * 5) % 12}]
    n_cheap, n_solver = (24000, 160) if quick else (400000, 3000)
    return [
        SubCheck("operations", body, strategy=_strategy_cheap(), examples=n_cheap, cases=sweep_cases("cheap", d1), shards=16),
        SubCheck(
            "solvers",
            body,
            strategy=_case_strategy(reg.names("solver")),
            examples=n_solver,
            cases=pinned_cases() + (sweep_cases("solver", d_solver) if not quick else []),
            shards=16,
            shrink=not quick,  # a descriptor is six small fields; shrinking a 1 s solver case buys nothing in the quick tier
            max_rounds=2 if quick else 4,
        ),
    ]
