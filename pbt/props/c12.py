"""C12 - degree/size requests resolve to the smallest supported angular grid not below.

Oracle: the table read from the *file names* of the shipped data (pbt.oracles.data_loader),
searched with min{x in table : x >= request} over a plain sorted list - no bisect, none of
the dictionaries of grid/angular.py.
"""
import os

import numpy as np
from hypothesis import strategies as st

from ..core import SubCheck
from ..oracles import data_loader as dl

PROPERTY = "C12"
RULE = (
    "lookup: complete enumeration of every integer degree 0..max+3 and size 0..max+3 for the 4 methods, in blocks "
    "of 512 consecutive requests (one case = one block; non-trivial = the block contains a request that is not itself "
    "a table entry, i.e. must round up, or one above the maximum that must be rejected); the ~1100 table entries are "
    "additionally constructed as AngularGrid objects and compared with the file contents (thorough: all; quick: all "
    "with <= 6000 points plus a seeded sample). sequences: Hypothesis lists/arrays with repeats into "
    "convert_angular_sizes_to_degrees, AtomGrid(degrees=|sizes=) and AtomGrid.from_pruned; non-trivial = a sequence "
    "with >= 2 distinct requests of which at least one is not a table entry; distinct = distinct descriptor"
)
RULE = RULE + " " + "sequences: a route 'oversize' inserts one element above the method's maximum into a sequence (through the converter, AtomGrid(degrees|sizes) and from_pruned(d_sectors|s_sectors)); it must raise ValueError."

ASSUMPTIONS = [
    "the file names <method>_<degree>_<size>.npz in src/grid/data are the ground truth for what is 'supported'",
    "warnings emitted by the library are ignored",
]

BLOCK = 512


def _methods():
    return list(dl.METHODS)


# ---------------------------------------------------------------------------
def body_lookup(case, ctx):
    from grid.angular import AngularGrid

    method, kind, lo, hi = case["method"], case["kind"], case["lo"], case["hi"]
    degs, sizes = dl.degrees(method), dl.sizes(method)
    tab = dl.table(method)
    pairs = set(tab)
    supported = degs if kind == "degree" else sizes
    mx = max(supported)
    ctx.cls(f"{method}/{kind}")
    for req in range(lo, hi):
        want = None
        for x in supported:  # plain linear scan of the sorted list
            if x >= req:
                want = x
                break
        if want != req:
            ctx.nt()
        for arg in (req, np.int64(req)) if req % 97 == 0 else (req,):
            try:
                if kind == "degree":
                    d, s = AngularGrid._get_degree_and_size(degree=arg, size=None, method=method)
                else:
                    d, s = AngularGrid._get_degree_and_size(degree=None, size=arg, method=method)
            except ValueError:
                if req <= mx:
                    ctx.fail("lookup-rejected-valid", f"{method} {kind}={req} rejected although <= max {mx}")
                continue
            if req > mx:
                ctx.fail("lookup-accepted-above-max", f"{method} {kind}={req} > max {mx} accepted -> {(d, s)}")
                continue
            got = d if kind == "degree" else s
            if got != want:
                ctx.fail("lookup-not-smallest", f"{method} {kind}={req}: got {got}, smallest supported not below is {want}")
            if (int(d), int(s)) not in pairs:
                ctx.fail("lookup-not-a-table-pair", f"{method} {kind}={req}: ({d},{s}) is not a (degree,size) pair with a data file")


def cases_lookup():
    out = []
    for method in _methods():
        for kind, supported in (("degree", dl.degrees(method)), ("size", dl.sizes(method))):
            top = max(supported) + 4
            for lo in range(0, top, BLOCK):
                out.append({"method": method, "kind": kind, "lo": lo, "hi": min(top, lo + BLOCK)})
    return out


# ---------------------------------------------------------------------------
def body_build(case, ctx):
    """Construct the grid for a request and compare with the data file found by my own table."""
    from grid.angular import AngularGrid

    method, kind, req = case["method"], case["kind"], case["request"]
    if kind == "degree":
        want_d = dl.resolve_degree(method, req)
        g = AngularGrid(degree=req, method=method, cache=False)
    else:
        want_s = dl.resolve_size(method, req)
        want_d = dl.degree_of_size(method, want_s)
        g = AngularGrid(size=(np.int64(req) if req % 2 else req), method=method, cache=False)
    want_s = dl.size_of_degree(method, want_d)
    ctx.cls(f"{method}/{kind}")
    ctx.nt((req != want_d) if kind == "degree" else (req != want_s))
    ctx.check(g.degree == want_d, "build-degree", f"{method} {kind}={req}: .degree={g.degree}, expected {want_d}")
    ctx.check(g.size == want_s, "build-size", f"{method} {kind}={req}: .size={g.size}, expected {want_s}")
    ctx.check(os.path.isfile(dl.file_path(method, want_d)), "build-file-missing", dl.file_path(method, want_d))
    p, w = dl.load(method, want_d)
    ctx.check(p.shape == (want_s, 3), "file-size-mismatch", f"{method} degree {want_d}: file holds {p.shape[0]} points, name says {want_s}")
    ctx.check(g.points.shape == p.shape and np.array_equal(g.points, p), "build-points-not-file", f"{method} {kind}={req}")
    if g.weights.shape == w.shape:
        ctx.close(g.weights, w, 4 * np.finfo(float).eps * np.abs(w), "build-weights-not-file", f"{method} {kind}={req}")
    else:
        ctx.fail("build-weights-not-file", f"{method} {kind}={req} shape {g.weights.shape}")


def cases_build(tier, seed):
    out = []
    rng_pick = (seed * 2654435761) % (2**32)
    for method in _methods():
        tab = dl.table(method)
        for kind in ("degree", "size"):  # the smallest requests go through the constructor too (0 is falsy in Python)
            for req in (0, 1):
                out.append({"method": method, "kind": kind, "request": req})
        for i, (d, s) in enumerate(tab):
            cheap = s <= 6000
            sampled = ((i * 7919 + rng_pick) % 5) == 0
            if tier == "thorough" or cheap or sampled:
                out.append({"method": method, "kind": "degree", "request": d})
                out.append({"method": method, "kind": "size", "request": s})
                # a request strictly between this and the previous entry rounds up to this one
                if i > 0 and tab[i - 1][0] + 1 < d:
                    out.append({"method": method, "kind": "degree", "request": d - 1})
                if i > 0 and tab[i - 1][1] + 1 < s:
                    out.append({"method": method, "kind": "size", "request": s - 1})
    return out


# ---------------------------------------------------------------------------
def _seq_strategy():
    def for_method(method):
        lo = 0
        maxd = 60 if method != "ahrens_beylkin" else 80
        maxs = 1500
        req = st.one_of(
            st.integers(lo, maxd),
            st.sampled_from([d for d in dl.degrees(method) if d <= maxd]),
        )
        reqs = st.one_of(
            st.integers(0, maxs),
            st.sampled_from([s for s in dl.sizes(method) if s <= maxs]),
            st.sampled_from([s + 1 for s in dl.sizes(method) if s + 1 <= maxs]),
        )
        top_s, top_d = max(dl.sizes(method)), max(dl.degrees(method))
        oversize = st.fixed_dictionaries(
            {
                "method": st.just(method),
                "route": st.just("oversize"),
                "via": st.sampled_from(["convert", "atom-sizes", "atom-degrees", "pruned-sizes", "pruned-degrees"]),
                "seq": st.lists(st.integers(1, 200), min_size=1, max_size=5),
                "pos": st.integers(0, 5),
                "excess": st.sampled_from([1, 2, 7, 1000, 10**6]),
                "as_array": st.booleans(),
            }
        )
        return st.one_of(
            oversize,
            st.fixed_dictionaries(
                {
                    "method": st.just(method),
                    "route": st.just("convert"),
                    "sizes": st.lists(reqs, min_size=1, max_size=12),
                    "as_array": st.booleans(),
                }
            ),
            st.fixed_dictionaries(
                {
                    "method": st.just(method),
                    "route": st.sampled_from(["atom-degrees", "atom-sizes"]),
                    "seq": st.lists(st.one_of(req if True else req, ), min_size=1, max_size=6),
                    "as_array": st.booleans(),
                    "single": st.booleans(),
                }
            ),
            st.fixed_dictionaries(
                {
                    "method": st.just(method),
                    "route": st.sampled_from(["pruned-degrees", "pruned-sizes"]),
                    "nrad": st.integers(2, 7),
                    "r_sectors": st.lists(st.floats(0.1, 4.0), min_size=0, max_size=3),
                    "sec": st.lists(st.integers(0, 40), min_size=4, max_size=4),
                    "radius": st.floats(0.5, 2.0),
                }
            ),
        )

    return st.sampled_from(_methods()).flatmap(for_method)


def body_seq(case, ctx):
    from grid.angular import AngularGrid
    from grid.atomgrid import AtomGrid
    from grid.basegrid import OneDGrid

    method, route = case["method"], case["route"]
    ctx.cls(f"{route}")
    degs, sizes = dl.degrees(method), dl.sizes(method)
    if route == "oversize":
        # a sequence with one element above the method's maximum must be rejected, whichever route it takes
        via = case["via"]
        is_size = via in ("convert", "atom-sizes", "pruned-sizes")
        top = max(sizes) if is_size else max(degs)
        seq = [min(v, top) for v in case["seq"]]
        seq.insert(case["pos"] % (len(seq) + 1), top + case["excess"])
        n = len(seq)
        arg = np.array(seq) if case["as_array"] else list(seq)
        rg = OneDGrid(np.linspace(0.2, 2.0, n), np.ones(n), (0, np.inf))
        ctx.cls(f"oversize-via-{via}")
        ctx.nt()
        try:
            if via == "convert":
                out = AngularGrid.convert_angular_sizes_to_degrees(np.array(seq), method)
            elif via == "atom-sizes":
                out = AtomGrid(rg, degrees=None, sizes=arg, method=method).degrees
            elif via == "atom-degrees":
                out = AtomGrid(rg, degrees=arg, method=method).degrees
            elif via == "pruned-sizes":
                out = AtomGrid.from_pruned(rg, 1.0, r_sectors=list(np.linspace(0.3, 1.9, n - 1)) if n > 1 else [], d_sectors=None, s_sectors=list(seq), method=method).degrees
            else:
                out = AtomGrid.from_pruned(rg, 1.0, r_sectors=list(np.linspace(0.3, 1.9, n - 1)) if n > 1 else [], d_sectors=list(seq), method=method).degrees
        except ValueError:
            return
        ctx.fail("oversize-request-in-sequence-accepted", f"{method} via {via}: {seq} (max supported {top}) was accepted -> degrees {list(out)}")
        return
    if route == "convert":
        req = case["sizes"]
        arg = np.array(req) if case["as_array"] else list(req)
        if not case["as_array"]:
            # the converter compares ``sizes == size`` and therefore needs an array; lists are what
            # AtomGrid passes through only after its own isinstance check - feed arrays for lists of len>1
            arg = np.array(req)
        got = AngularGrid.convert_angular_sizes_to_degrees(arg, method)
        want = [dl.degree_of_size(method, dl.resolve_size(method, s)) for s in req]
        ctx.nt(len(set(req)) >= 2 and any(s not in sizes for s in req))
        ctx.check(list(map(int, got)) == want, "convert-elementwise", f"{method} sizes={req}: got {list(got)}, expected {want}")
        # the request array is the caller's: it still holds the sizes, and using it a second time resolves the same way
        ctx.check(list(map(int, arg)) == [int(v) for v in req], "request-sequence-overwritten", f"{method}: sizes array {req} became {list(arg)} after the conversion")
        got2 = AngularGrid.convert_angular_sizes_to_degrees(arg, method)
        ctx.check(list(map(int, got2)) == want, "convert-elementwise", f"{method} sizes={req}: second conversion of the same array gives {list(got2)}, expected {want}")
        return
    if route.startswith("atom"):
        seq = case["seq"][:1] if case["single"] else case["seq"]
        n = len(case["seq"])
        r = np.linspace(0.2, 2.0, n)
        rg = OneDGrid(r, np.ones(n), (0, np.inf))
        if route == "atom-degrees":
            arg = np.array(seq) if case["as_array"] else list(seq)
            ag = AtomGrid(rg, degrees=arg, method=method)
            full = seq * n if len(seq) == 1 else seq
            want = [dl.resolve_degree(method, d) for d in full]
            table_vals = degs
        else:
            sz = [3 * d * d // 2 + d for d in seq]  # some sizes, mostly not table entries
            arg = np.array(sz) if case["as_array"] else list(sz)
            ag = AtomGrid(rg, degrees=None, sizes=arg, method=method)
            full = sz * n if len(sz) == 1 else sz
            want = [dl.degree_of_size(method, dl.resolve_size(method, s)) for s in full]
            seq, table_vals = sz, sizes
        ctx.nt(len(set(seq)) >= 2 and any(v not in table_vals for v in seq))
        ctx.check(list(map(int, ag.degrees)) == want, "atomgrid-degrees", f"{method} {route} {seq}: degrees {list(ag.degrees)}, expected {want}")
        ctx.check([int(v) for v in arg] == [int(v) for v in seq], "request-sequence-overwritten", f"{method} {route}: the caller's sequence {seq} became {list(arg)}")
        ag_again = AtomGrid(rg, degrees=arg, method=method) if route == "atom-degrees" else AtomGrid(rg, degrees=None, sizes=arg, method=method)
        ctx.check(list(map(int, ag_again.degrees)) == want, "atomgrid-degrees", f"{method} {route} {seq}: a second AtomGrid from the same sequence object has degrees {list(ag_again.degrees)}, expected {want}")
        got_sizes = list(np.diff(ag.indices))
        ctx.check(got_sizes == [dl.size_of_degree(method, d) for d in want], "atomgrid-shell-sizes", f"{method} {route} {seq}: shell sizes {got_sizes}")
        return
    # pruned
    n = case["nrad"]
    r = np.linspace(0.15, 3.1, n)
    rg = OneDGrid(r, np.ones(n), (0, np.inf))
    rs = sorted(case["r_sectors"])
    radius = case["radius"]
    sec = case["sec"][: len(rs) + 1]
    bounds = np.array(rs) * radius
    if len(rs) and np.min(np.abs(r[:, None] - bounds[None, :])) < 1e-9:
        ctx.skip("radial node on a sector boundary")
        return
    which = [int(np.sum(ri > bounds)) if len(rs) else 0 for ri in r]
    if route == "pruned-degrees":
        ag = AtomGrid.from_pruned(rg, radius, r_sectors=rs, d_sectors=sec, method=method)
        want = [dl.resolve_degree(method, sec[k]) for k in which]
        ctx.nt(len(set(sec)) >= 2 and any(v not in degs for v in sec))
    else:
        ssec = [5 * v + 1 for v in sec]
        ag = AtomGrid.from_pruned(rg, radius, r_sectors=rs, s_sectors=ssec, d_sectors=None, method=method)
        want = [dl.degree_of_size(method, dl.resolve_size(method, ssec[k])) for k in which]
        ctx.nt(len(set(ssec)) >= 2 and any(v not in sizes for v in ssec))
    ctx.check(list(map(int, ag.degrees)) == want, "pruned-degrees", f"{method} {route} r_sectors={rs} radius={radius} sectors={sec}: degrees {list(ag.degrees)}, expected {want}")
    for req_d, got_d in zip([sec[k] for k in which], ag.degrees):
        if route == "pruned-degrees" and got_d < req_d:
            ctx.fail("pruned-coarser-than-asked", f"shell got degree {got_d} < requested {req_d}")


# ---------------------------------------------------------------------------
def selftest():
    for m in dl.METHODS:
        t = dl.table(m)
        assert len(t) > 10, f"data table for {m} not found"
        assert len(set(d for d, _ in t)) == len(t) and len(set(s for _, s in t)) == len(t)


def subchecks(tier, seed):
    return [
        SubCheck("lookup", body_lookup, cases=cases_lookup(), exhaustive=True, shards=16),
        SubCheck("build", body_build, cases=cases_build(tier, seed), exhaustive=(tier == "thorough"), shards=32),
        SubCheck("sequences", body_seq, strategy=_seq_strategy(), examples=1500 if tier == "quick" else 100000, shards=32),
    ]
