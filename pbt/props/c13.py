"""C13 - rectilinear grids: lexicographic tensor layout, invertible index maps, weights, cube files, interpolation.

Oracles (none shares code with grid/cubic.py):
  uniform_layout   itertools.product enumeration order is *the* lexicographic order: the n-th tuple is flat index n;
                   point(c) = origin + sum_d c_d a_d by an explicit matrix product over that enumeration.
  tensor_layout    the 1-D grids handed in are the reference: point = tuple of 1-D nodes, weight = product of the
                   1-D weights, integral of f(x)g(y)h(z) = product of the three 1-D sums (math.fsum loops);
                   all-Gauss-Legendre grids additionally against the exact monomial integrals.
  weights          |sum w - V| / V <= sum_d 1/M_d with V = |det(axes)| prod_d M_d, every scheme, both dimensions,
                   every shape 2..12 (enumerated) and random axes.
  from_molecule    fractional coordinates of the nuclei in the grid's own frame (linear solve): margin to each of
                   the six faces >= extension - spacing.
  closest_point    brute-force argmin of the distances to all nodes (ties by distance).
  cube_roundtrip   generate_cube -> from_cube against the rigorous printed-precision bounds; the same file
                   rewritten here in angstrom (negative first count, own CODATA constant) read back again.
  interpolate      tri-cubic polynomials / exp of them / trilinear functions evaluated in closed form with
                   numpy.polynomial (derivatives by polyder; Faa di Bruno for exp(g) typed out by hand).
"""
import contextlib
import io
import itertools
import math
import os
import tempfile
import traceback

import numpy as np
from hypothesis import strategies as st
from numpy.polynomial import polynomial as npoly

from ..core import EPS, SubCheck

PROPERTY = "C13"
RULE = (
    "Hypothesis draws, per sub-check: uniform_layout - dim 2|3, shape 2..12 per axis, origin, axes (positive diagonal, "
    "signed diagonal, skewed, skewed with negative entries), weight scheme; every flat index and every coordinate tuple of "
    "the grid is checked; non-trivial = non-cubic shape or non-diagonal axes. tensor_layout - 2|3 one-dimensional grids from "
    "{GaussLegendre, GaussChebyshev, ClenshawCurtis, Trapezoidal, MidPoint, GaussLaguerre, custom sorted nodes} with 2..9 "
    "points; non-trivial = at least two different 1-D grids. weights - every shape in {2..12}^2 and {2..12}^3 for each of the "
    "five schemes (enumerated in blocks sharing the first count) plus random shapes/axes; non-trivial = non-cubic shape. "
    "from_molecule - 1..6 atoms, charges from {1,6,7,8,9,17,35}, coordinates in [-3,3]^3, spacing 0.2..0.6, extension 1..4, "
    "rotate on/off; non-trivial = at least two atoms at different positions. closest_point - diagonal axes with signed steps, "
    "2-D/3-D, 1..8 query points inside the box incl. exact cell midpoints; non-trivial = a query that is not a node. "
    "cube_roundtrip - shapes (2..5, 2..5, 2..20) so that every residue of nz mod 6 occurs, skewed signed axes, 1..4 atoms, data = sign * 10^U(-20,20) (and zeros); always non-trivial. "
    "interpolate - UniformGrid (positive diagonal axes) or Tensor1DGrids with 7..10 points per axis, random tri-cubic "
    "coefficients, derivative orders 0..3 per axis, use_log, method cubic|linear, 1..4 query points anywhere in the box; "
    "non-trivial = a polynomial with all 64 (8 for linear) coefficients non-zero. distinct = distinct descriptor"
)
RULE = RULE + " " + 'cube_roundtrip also reads the angstrom file grid-only; interpolate: a decoy call on the same grid precedes the checked call.'

ASSUMPTIONS = [
    "the box volume V of a uniform grid is |det(axes)| * prod(shape) (the convention under which the Rectangle rule sums to V)",
    "margin of from_molecule is measured along the grid's own axes between a nucleus and the outermost grid planes",
    "printed precision of a cube file: 6 decimals for origin/steps/atoms (5e-7 each), 6 significant digits for data (5e-6 relative)",
    "1 bohr = 0.529177210903 angstrom (CODATA 2018) typed here; 2e-9 relative slack covers other CODATA vintages",
    "interpolation error model: C*eps*max|f|*(1+X/h)*prod_d (1+e_d)^3 (2/h_d)^nu_d (data rounding amplified by the derivative of a spline and by "
    "extrapolating e_d intervals beyond the interior nodes the splines are built on), C=100 (measured <= 0.35)",
    "closest_point and interpolate are only fed axis-aligned grids (closest_point rejects anything else; interpolate assumes it)",
    "numpy.polynomial polyval3d/polyder as closed-form evaluation of the test polynomials",
]

SCHEMES = ["Rectangle", "Trapezoid", "Fourier1", "Alternative", "Fourier2"]
BOHR_IN_ANGSTROM = 0.529177210903  # CODATA 2018


def _note(ctx, key, value):
    """Measured error level / tolerance (kept in ctx.info; read by the calibration script only)."""
    if np.isfinite(value):
        ctx.info[key] = max(ctx.info.get(key, 0.0), float(value))


# =============================================================================================
# strategies shared by several sub-checks
# =============================================================================================
def _pick(options):
    """Near-uniform choice through a hashed wide integer draw.  With ~40-400 examples per shard Hypothesis returns the
    first element of sampled_from / False / short lists far more often than the others (measured 3:1); with the hash
    only the option hit by the integer 0 keeps a surplus (~1.5x), so the most general option is listed first."""
    options = list(options)
    return st.integers(0, 2**31 - 1).map(lambda k: options[((((k + 1) * 2654435761) % 2**32) >> 9) % len(options)])


def _sized(elem, lo, hi):
    """List whose length is drawn first (uniformly), so that short lists do not dominate small shards."""
    return _pick(range(lo, hi + 1)).flatmap(lambda n: st.lists(elem, min_size=n, max_size=n))


_BOOL = _pick([True, False])  # (the first option is drawn ~1.5x as often: Hypothesis likes the integer 0)


def _shape(dim, lo=2, hi=12):
    return st.lists(st.integers(lo, hi), min_size=dim, max_size=dim)


_ORIGIN_COORD = st.one_of(st.floats(-10.0, 10.0), st.sampled_from([0.0, -1.5, 100.0, -37.25]))


@st.composite
def _axes(draw, dim, kinds=("skew+-", "diag+-", "skew", "diag+")):
    # every kind consumes the same draws: Hypothesis favours examples that need fewer choices (measured: 52 % 'diag+'
    # when the off-diagonal entries were drawn only for the skewed kinds)
    kind = draw(_pick(kinds))
    d = [draw(st.floats(0.05, 2.0)) for _ in range(dim)]
    sg = [draw(_pick([1.0, -1.0])) for _ in range(dim)]
    off = [[draw(st.floats(0.02, 0.3)) * draw(_pick([1.0, -1.0])) for _ in range(dim)] for _ in range(dim)]
    if kind.endswith("+-"):
        d = [v * s_ for v, s_ in zip(d, sg)]
        if all(v > 0 for v in d):
            d[draw(_pick(range(dim)))] *= -1.0
    a = [[0.0] * dim for _ in range(dim)]
    m = min(abs(v) for v in d)
    for i in range(dim):
        a[i][i] = d[i]
    if kind.startswith("skew"):
        for i in range(dim):
            for j in range(dim):
                if i != j:
                    a[i][j] = off[i][j] * m  # rows stay strictly diagonally dominant -> never singular
    return {"kind": kind, "a": a}


def _axes_kind(a):
    """diag / skew, with '+-' when a diagonal entry (the step along its own axis) is negative."""
    a = np.asarray(a, dtype=float)
    diag = np.count_nonzero(a - np.diag(np.diagonal(a))) == 0
    neg = bool(np.any(np.diagonal(a) < 0))
    return ("diag" if diag else "skew") + ("+-" if neg else "+")


def _lex(shape):
    """All coordinate tuples in lexicographic order (last index fastest): position in this list = flat index."""
    return list(itertools.product(*[range(int(m)) for m in shape]))


# =============================================================================================
# 1. UniformGrid layout and index maps
# =============================================================================================
def _uniform_layout_strategy():
    def for_dim(dim):
        return st.fixed_dictionaries(
            {
                "dim": st.just(dim),
                "shape": _shape(dim),
                "origin": st.lists(_ORIGIN_COORD, min_size=dim, max_size=dim),
                "axes": _axes(dim),
                "weight": st.sampled_from(["Rectangle", "Trapezoid", "Fourier1", "Alternative"]),
                "argtype": st.sampled_from(["tuple", "list", "array", "npint"]),
            }
        )

    return _pick([2, 3]).flatmap(for_dim)


def _check_index_maps(ctx, g, shape, argtype, what):
    """Both index maps against the itertools enumeration, for every node. Returns the coordinate list."""
    coords = _lex(shape)
    n = len(coords)
    if not ctx.check(g.size == n and tuple(int(v) for v in g.shape) == tuple(shape), "size-or-shape", f"{what}: size {g.size}, shape {tuple(g.shape)}, expected {n}, {tuple(shape)}"):
        return coords
    bad_i2c = bad_c2i = None
    for idx, c in enumerate(coords):
        arg_i = np.int64(idx) if argtype == "npint" else idx
        got_c = g.index_to_coordinates(arg_i)
        if len(got_c) != len(c) or any(int(a) != b or a != int(a) for a, b in zip(got_c, c)):
            bad_i2c = bad_i2c or (idx, tuple(got_c), c)
        arg_c = c if argtype == "tuple" else list(c) if argtype == "list" else np.array(c) if argtype == "array" else tuple(np.int64(v) for v in c)
        got_i = g.coordinates_to_index(arg_c)
        if got_i != idx:
            bad_c2i = bad_c2i or (c, got_i, idx)
        # composition both ways with the library's own outputs
        if int(g.coordinates_to_index(got_c)) != idx:
            bad_c2i = bad_c2i or (tuple(got_c), "c2i(i2c(idx))", idx)
    if bad_i2c:
        ctx.fail("index-to-coordinates", f"{what}: index_to_coordinates({bad_i2c[0]}) = {bad_i2c[1]}, lexicographic order gives {bad_i2c[2]}")
    if bad_c2i:
        ctx.fail("coordinates-to-index", f"{what}: coordinates_to_index({bad_c2i[0]}) = {bad_c2i[1]}, lexicographic order gives {bad_c2i[2]}")
    return coords


def body_uniform_layout(case, ctx):
    from grid.cubic import UniformGrid

    dim, shape = case["dim"], [int(m) for m in case["shape"]]
    origin = np.array(case["origin"], dtype=float)
    axes = np.array(case["axes"]["a"], dtype=float)
    g = UniformGrid(origin.copy(), axes.copy(), np.array(shape, dtype=int), weight=case["weight"])
    kind = _axes_kind(axes)
    ctx.cls(f"{dim}D", f"axes:{kind}", "cubic-shape" if len(set(shape)) == 1 else "non-cubic-shape")
    ctx.nt(len(set(shape)) > 1 or kind.startswith("skew"))
    what = f"UniformGrid(shape={shape}, axes {kind})"
    ctx.check(g.ndim == dim, "ndim", f"{what}: ndim={g.ndim}")
    coords = _check_index_maps(ctx, g, shape, case["argtype"], what)
    if g.points.shape != (len(coords), dim):
        ctx.fail("points-shape", f"{what}: points shape {g.points.shape}")
        return
    cc = np.array(coords, dtype=float)
    expect = origin[None, :] + cc @ axes
    scale = np.abs(origin)[None, :] + cc @ np.abs(axes)
    ctx.close(g.points, expect, 8 * EPS * scale + 1e-300, "uniform-point-position", f"{what}: points[n] vs origin + sum c_d a_d for the n-th lexicographic tuple")
    ctx.check(g.weights.shape == (len(coords),), "weights-shape", f"{what}: weights shape {g.weights.shape}")
    if kind.startswith("diag"):
        along = g.get_points_along_axes()
        ok = len(along) == dim
        for d in range(dim) if ok else ():
            ref = origin[d] + np.arange(shape[d]) * axes[d, d]
            ctx.close(along[d], ref, 8 * EPS * (abs(origin[d]) + np.arange(shape[d]) * abs(axes[d, d])) + 1e-300, "points-along-axes", f"{what}: axis {d}")
        ctx.check(ok, "points-along-axes", f"{what}: {len(along)} arrays")


# =============================================================================================
# 2. Tensor1DGrids layout, weights, separable integrals
# =============================================================================================
RULES_1D = ["GaussLegendre", "GaussChebyshev", "ClenshawCurtis", "Trapezoidal", "MidPoint", "GaussLaguerre", "custom"]
_FUNCS = [
    ("1", lambda x: np.ones_like(x)),
    ("x", lambda x: x),
    ("x^2-0.3", lambda x: x * x - 0.3),
    ("x^3+x", lambda x: x**3 + x),
    ("cos", lambda x: np.cos(x)),
    ("exp(-x^2)", lambda x: np.exp(-x * x)),
    ("1/(1+x^2)", lambda x: 1.0 / (1.0 + x * x)),
]


def _oned(spec):
    """Build a OneDGrid from its descriptor."""
    import grid.onedgrid as og
    from grid.basegrid import OneDGrid

    if spec["rule"] == "custom":
        rng = np.random.default_rng(spec["seed"])
        pts = np.cumsum(rng.uniform(0.05, 1.0, spec["n"])) + rng.uniform(-4, 2)
        wts = rng.uniform(0.1, 1.5, spec["n"])
        return OneDGrid(pts, wts, (pts[0] - 1.0, pts[-1] + 1.0))
    return getattr(og, spec["rule"])(spec["n"])


def _oned_spec(nlo=2, nhi=9, rules=RULES_1D):
    return st.fixed_dictionaries({"rule": st.sampled_from(list(rules)), "n": st.integers(nlo, nhi), "seed": st.integers(0, 2**31 - 1)})


def _tensor_layout_strategy():
    return st.fixed_dictionaries(
        {
            "grids": st.tuples(_pick([2, 3, 3]), _pick(range(5))).flatmap(
                lambda t: st.lists(_oned_spec(rules=["GaussLegendre"]) if t[1] == 0 else _oned_spec(), min_size=t[0], max_size=t[0])
            ),
            "funcs": st.lists(st.integers(0, len(_FUNCS) - 1), min_size=3, max_size=3),
            "degrees": st.lists(st.integers(0, 17), min_size=3, max_size=3),
            "argtype": st.sampled_from(["tuple", "list", "array", "npint"]),
        }
    )


def body_tensor_layout(case, ctx):
    from grid.cubic import Tensor1DGrids

    specs = case["grids"]
    dim = len(specs)
    oned = [_oned(s) for s in specs]
    t = Tensor1DGrids(*oned)
    shape = [int(o.size) for o in oned]
    what = "Tensor1DGrids(" + ", ".join(f"{s['rule']}{s['n']}" for s in specs) + ")"
    ctx.cls(f"{dim}D", "cubic-shape" if len(set(shape)) == 1 else "non-cubic-shape", *[f"rule:{s['rule']}" for s in specs])
    ctx.nt(len({(s["rule"], s["n"], s["seed"] if s["rule"] == "custom" else 0) for s in specs}) > 1)
    coords = _check_index_maps(ctx, t, shape, case["argtype"], what)
    if t.points.shape != (len(coords), dim) or t.weights.shape != (len(coords),):
        ctx.fail("points-shape", f"{what}: points {t.points.shape} weights {t.weights.shape}")
        return
    xs = [np.asarray(o.points, dtype=float) for o in oned]
    ws = [np.asarray(o.weights, dtype=float) for o in oned]
    exp_p = np.array([[xs[d][c[d]] for d in range(dim)] for c in coords])
    exp_w = np.array([math.prod(float(ws[d][c[d]]) for d in range(dim)) for c in coords])
    ctx.equal(t.points, exp_p, "tensor-point-is-not-tuple-of-1d-nodes", f"{what}")
    ctx.close(t.weights, exp_w, 4 * EPS * np.abs(exp_w), "tensor-weight-is-not-product", f"{what}")
    along = t.get_points_along_axes()
    if ctx.check(len(along) == dim, "points-along-axes", f"{what}: {len(along)} arrays"):
        for d in range(dim):
            ctx.equal(np.asarray(along[d]), xs[d], "points-along-axes", f"{what}: axis {d}")
    # separable integrand
    fs = [_FUNCS[i] for i in case["funcs"][:dim]]
    vals = np.ones(len(coords))
    for d in range(dim):
        vals = vals * fs[d][1](t.points[:, d])
    got = t.integrate(vals)
    one = [math.fsum(float(w) * float(v) for w, v in zip(ws[d], fs[d][1](xs[d]))) for d in range(dim)]
    mag = [math.fsum(abs(float(w) * float(v)) for w, v in zip(ws[d], fs[d][1](xs[d]))) for d in range(dim)]
    ctx.close(got, math.prod(one), 16 * EPS * len(coords) * math.prod(mag) + 1e-300, "separable-integral-not-product", f"{what}: integrand " + "*".join(f[0] for f in fs))
    # exact anchor: all axes Gauss-Legendre, monomials within the degree of exactness
    if all(s["rule"] == "GaussLegendre" for s in specs):
        ctx.cls("all-GaussLegendre-exact")
        degs = [min(case["degrees"][d], 2 * shape[d] - 1) for d in range(dim)]
        vals = np.ones(len(coords))
        for d in range(dim):
            vals = vals * t.points[:, d] ** degs[d]
        exact = math.prod((2.0 / (k + 1) if k % 2 == 0 else 0.0) for k in degs)
        ctx.close(t.integrate(vals), exact, 1e3 * EPS * 2.0**dim, "gauss-legendre-tensor-exactness", f"{what}: monomial degrees {degs}")


# =============================================================================================
# 3. weight schemes
# =============================================================================================
def _fourier2_model(shape, axes):
    """Buggy model of KF-C13-fourier2: the sum typed in the code/docstring of the 'Fourier2' scheme (3-D)."""
    one = []
    for m in shape:
        w = np.zeros(m)
        for i in range(1, m + 1):
            acc = 0.0
            for p in range(1, m):
                acc += math.sin((2.0 * i - 1) / m * p * math.pi) * math.sin(p * math.pi / 2.0) ** 2 / p
            w[i - 1] = 4.0 * acc / (math.pi * m) + 2.0 * math.sin(math.pi * m / 2.0) ** 2 * math.sin((i - 0.5) * math.pi) / (m**2 * math.pi)
        one.append(w)
    vol = abs(np.linalg.det(np.asarray(axes, dtype=float))) * math.prod(shape) * math.prod((m - 1) / m for m in shape)
    return np.einsum("i,j,k->ijk", *one).ravel() * vol


def _weights_one(ctx, dim, scheme, shape, origin, axes):
    from grid.cubic import UniformGrid

    what = f"UniformGrid(shape={list(shape)}, weight={scheme!r}, {dim}-D)"
    vol = abs(float(np.linalg.det(axes))) * math.prod(shape)
    bound = sum(1.0 / m for m in shape)
    try:
        g = UniformGrid(origin.copy(), axes.copy(), np.array(shape, dtype=int), weight=scheme)
    except IndexError as exc:
        frames = [(os.path.basename(f.filename), f.name) for f in traceback.extract_tb(exc.__traceback__)]
        msg = f"{what} raised IndexError: {exc}"
        if scheme == "Fourier2" and dim == 2 and frames and frames[-1][0] == "cubic.py" and frames[-1][1] in ("_fourier2", "_choose_weight_scheme"):
            ctx.known("KF-C13-fourier2", "scheme-does-not-construct", msg)
        else:
            ctx.fail("scheme-does-not-construct", msg)
        return
    w = np.asarray(g.weights, dtype=float)
    if w.shape != (math.prod(shape),) or not np.all(np.isfinite(w)):
        ctx.fail("weights-shape", f"{what}: weights shape {w.shape} / non-finite")
        return
    # layout: the weight belongs to the node, not to its position in the flat array - the same grid described with
    # its axes listed in reverse order (shape reversed with them) carries the same weight at the same node
    perm = list(range(dim))[::-1]
    try:
        g_rev = UniformGrid(origin.copy(), axes[perm].copy(), np.array([shape[k] for k in perm], dtype=int), weight=scheme)
        w_rev = np.asarray(g_rev.weights, dtype=float).reshape([shape[k] for k in perm]).transpose(perm)
        ctx.close(w.reshape(shape), w_rev, 1e-12 * (np.max(np.abs(w)) + 1e-300), "weights-not-attached-to-nodes",
                  f"{what}: weights differ from those of the same grid with the axes listed in reverse order")
    except IndexError:
        pass  # only the recorded Fourier2 2-D defect, reported above
    dev = abs(float(np.sum(w)) - vol) / vol
    _note(ctx, f"{scheme} dev/bound", dev / bound)
    if dev <= bound * (1 + 1e-12):
        return
    msg = f"{what}: sum(w) = {float(np.sum(w))!r}, box volume {vol!r}, relative deviation {dev:.4f} > sum 1/M = {bound:.4f}"
    if scheme == "Fourier2" and dim == 3:
        model = _fourier2_model(shape, axes)
        if np.all(np.abs(w - model) <= 1e-12 * (np.max(np.abs(model)) + 1e-300)):
            ctx.known("KF-C13-fourier2", "weight-sum-off-volume", msg + " (weights equal the sum typed in the docstring)")
            return
        msg += "; weights do NOT equal the recorded buggy model"
    ctx.fail("weight-sum-off-volume", msg)


def body_weights(case, ctx):
    dim, scheme = case["dim"], case["scheme"]
    origin = np.array(case["origin"], dtype=float)
    axes = np.array(case["axes"], dtype=float)
    ctx.cls(f"{dim}D/{scheme}", f"axes:{_axes_kind(axes)}")
    for shape in case["shapes"]:
        shape = [int(m) for m in shape]
        ctx.nt(len(set(shape)) > 1)
        _weights_one(ctx, dim, scheme, shape, origin, axes)


def cases_weights():
    """Every shape in {2..12}^dim for every scheme; one case = all shapes with the same first count."""
    out = []
    ax = {2: [[0.31, 0.04], [-0.05, 0.27]], 3: [[0.31, 0.04, -0.02], [-0.05, 0.27, 0.03], [0.01, -0.06, -0.42]]}
    for dim in (2, 3):
        for scheme in SCHEMES:
            for first in range(2, 13):
                shapes = [[first, *rest] for rest in itertools.product(range(2, 13), repeat=dim - 1)]
                out.append({"dim": dim, "scheme": scheme, "shapes": shapes, "origin": [0.25, -1.0, 2.0][:dim], "axes": ax[dim]})
    return out


def _weights_strategy():
    def for_dim(dim):
        return st.fixed_dictionaries(
            {
                "dim": st.just(dim),
                "scheme": _pick(SCHEMES),
                "shapes": st.lists(_shape(dim), min_size=1, max_size=3),
                "origin": st.lists(_ORIGIN_COORD, min_size=dim, max_size=dim),
                "axes": _axes(dim).map(lambda a: a["a"]),
            }
        )

    return _pick([2, 3]).flatmap(for_dim)


# =============================================================================================
# 4. from_molecule
# =============================================================================================
def _from_molecule_model(z, at, spacing, extension, rotate):
    """Buggy model of KF-C13-from-molecule-margin: the PRESENT algorithm (box sized from the extent, centred on the
    centre of charge; extent measured along the columns of the eigenvector matrix, axes are its rows)."""
    totz = np.sum(z)
    com = np.dot(z, at) / totz
    if rotate:
        itensor = np.zeros([3, 3])
        for i in range(z.shape[0]):
            xyz = at[i] - com
            r = np.linalg.norm(xyz) ** 2.0
            tmp = np.diag([r, r, r])
            tmp -= np.outer(xyz.T, xyz)
            itensor += z[i] * tmp
        _, v = np.linalg.eigh(itensor)
        newc = np.dot((at - com), v)
        axes = spacing * v
    else:
        newc = at
        axes = np.diag([spacing, spacing, spacing])
    shape = np.array(np.ceil((np.amax(newc, axis=0) - np.amin(newc, axis=0) + 2.0 * extension) / spacing), int)
    origin = com - np.dot((0.5 * shape), axes)
    return origin, axes, shape


_ATOM = st.fixed_dictionaries(
    {"z": st.sampled_from([1.0, 6.0, 7.0, 8.0, 9.0, 17.0, 35.0]), "xyz": st.lists(st.floats(-3.0, 3.0).map(lambda v: round(v, 4)), min_size=3, max_size=3)}
)


def _molecule_strategy():
    return st.fixed_dictionaries(
        {
            "atoms": _sized(_ATOM, 1, 6),
            "spacing": st.floats(0.2, 0.6).map(lambda v: round(v, 3)),
            "extension": st.floats(1.0, 4.0).map(lambda v: round(v, 3)),
            "rotate": _BOOL,
            "weight": st.sampled_from(["Trapezoid", "Rectangle", "Alternative", "default"]),
        }
    )


def body_from_molecule(case, ctx):
    from grid.cubic import UniformGrid

    z = np.array([a["z"] for a in case["atoms"]], dtype=float)
    at = np.array([a["xyz"] for a in case["atoms"]], dtype=float)
    sp, ext, rot = float(case["spacing"]), float(case["extension"]), bool(case["rotate"])
    kw = {} if case["weight"] == "default" else {"weight": case["weight"]}
    g = UniformGrid.from_molecule(z.copy(), at.copy(), spacing=sp, extension=ext, rotate=rot, **kw)
    natom = len(z)
    distinct_pos = len({tuple(a["xyz"]) for a in case["atoms"]})
    ctx.cls(f"rotate={rot}", f"atoms:{min(natom, 3)}{'+' if natom >= 3 else ''}")
    ctx.nt(distinct_pos >= 2)
    axes = np.asarray(g.axes, dtype=float)
    origin = np.asarray(g.origin, dtype=float)
    shape = np.array([int(m) for m in g.shape])
    if axes.shape != (3, 3) or abs(np.linalg.det(axes)) < 1e-12:
        ctx.fail("from-molecule-axes", f"axes {axes.tolist()}")
        return
    # the grid really is origin + c @ axes (first, last node), so that (origin, axes, shape) describes the box
    last = origin + (shape - 1) @ axes
    ctx.close(g.points[0], origin, 1e-12 * (1 + np.abs(origin)), "from-molecule-points", "first node is not the origin")
    ctx.close(g.points[-1], last, 1e-10 * (1 + np.abs(last)), "from-molecule-points", "last node is not origin + (M-1) a")
    step = np.linalg.norm(axes, axis=1)
    frac = np.linalg.solve(axes.T, (at - origin).T).T  # at - origin = frac @ axes
    lo = np.min(frac, axis=0) * step
    hi = ((shape - 1) - np.max(frac, axis=0)) * step
    margin = float(min(lo.min(), hi.min()))
    need = ext - sp
    _note(ctx, "margin shortfall (bohr)", max(0.0, need - margin))
    if margin >= need - 1e-9:
        ctx.cls("margin-holds")
        return
    ctx.cls("margin-violated")
    msg = (
        f"from_molecule(z={z.tolist()}, xyz={at.tolist()}, spacing={sp}, extension={ext}, rotate={rot}): nearest face is "
        f"{margin:.4f} from a nucleus, requested extension - spacing = {need:.4f} (margins low {np.round(lo, 4).tolist()} high {np.round(hi, 4).tolist()})"
    )
    mo, ma, ms = _from_molecule_model(z, at, sp, ext, rot)
    same = tuple(ms) == tuple(shape) and np.allclose(mo, origin, rtol=0, atol=1e-9) and np.allclose(ma, axes, rtol=0, atol=1e-9)
    if same:
        ctx.known("KF-C13-from-molecule-margin", "from-molecule-margin", msg)
    else:
        ctx.fail("from-molecule-margin", msg + "; the grid is NOT the one the recorded present algorithm builds")


# =============================================================================================
# 5. closest_point
# =============================================================================================
def _closest_strategy():
    def for_dim(dim):
        return st.fixed_dictionaries(
            {
                "dim": st.just(dim),
                "shape": _shape(dim, 2, 9),
                "origin": st.lists(_ORIGIN_COORD, min_size=dim, max_size=dim),
                "steps": st.lists(st.tuples(st.floats(0.05, 2.0), st.sampled_from([1.0, 1.0, -1.0])).map(lambda t: t[0] * t[1]), min_size=dim, max_size=dim),
                # fractional position along each axis in units of (M-1) steps; "mid" entries are snapped to k + 1/2
                "q": _sized(st.lists(st.floats(0.0, 1.0), min_size=dim, max_size=dim), 1, 8),
                "snap": _pick(["none", "none", "mid", "node"]),
            }
        )

    return _pick([2, 3]).flatmap(for_dim)


def body_closest(case, ctx):
    from grid.cubic import UniformGrid

    dim, shape = case["dim"], [int(m) for m in case["shape"]]
    origin = np.array(case["origin"], dtype=float)
    steps = np.array(case["steps"], dtype=float)
    g = UniformGrid(origin.copy(), np.diag(steps), np.array(shape, dtype=int))
    ctx.cls(f"{dim}D", "negative-step" if np.any(steps < 0) else "positive-steps", f"snap:{case['snap']}")
    pts = np.asarray(g.points, dtype=float)
    span = float(np.linalg.norm(np.abs(steps) * (np.array(shape) - 1)))
    for q in case["q"]:
        t = np.array(q, dtype=float) * (np.array(shape) - 1)
        if case["snap"] == "mid":
            t = np.minimum(np.floor(t), np.array(shape) - 2) + 0.5
        elif case["snap"] == "node":
            t = np.rint(t)
        p = origin + t * steps
        dist = np.sqrt(np.sum((pts - p[None, :]) ** 2, axis=1))
        ctx.nt(bool(dist.min() > 1e-9 * span))
        idx = g.closest_point(p.copy(), "closest") if case["snap"] == "mid" else g.closest_point(p.copy())
        what = f"closest_point({p.tolist()}) on shape={shape} origin={origin.tolist()} steps={steps.tolist()}"
        if not (np.ndim(idx) == 0 and float(idx) == int(idx) and 0 <= int(idx) < g.size):
            ctx.fail("closest-point-index-invalid", f"{what} returned {idx!r} (size {g.size})")
            continue
        tol = 64 * EPS * (np.max(np.abs(p)) + np.max(np.abs(origin)) + span)
        if dist[int(idx)] > dist.min() + tol:
            ctx.fail(
                "closest-point-not-nearest",
                f"{what} returned node {int(idx)} at distance {dist[int(idx)]!r}; node {int(np.argmin(dist))} is at {dist.min()!r}",
            )


# =============================================================================================
# 6. cube files
# =============================================================================================
def _cube_strategy():
    return st.fixed_dictionaries(
        {
            # x, y small; the fastest axis z up to 20 so that every residue of nz modulo the six values per
            # line of the cube format occurs (line breaks of the data block depend on it)
            "shape": st.tuples(st.integers(2, 5), st.integers(2, 5), st.one_of(st.integers(2, 7), st.integers(2, 20))).map(list),
            "origin": st.lists(_ORIGIN_COORD, min_size=3, max_size=3),
            "axes": _axes(3).map(lambda a: a["a"]),
            "atoms": _sized(
                st.fixed_dictionaries(
                    {
                        "z": st.integers(1, 118),
                        "core": st.floats(0.5, 118.0),
                        "xyz": st.lists(st.floats(-50.0, 50.0), min_size=3, max_size=3),
                    }
                ),
                1,
                4,
            ),
            "pseudo": _BOOL,
            "dseed": st.integers(0, 2**31 - 1),
            "zeros": _BOOL,
            "weight": st.sampled_from(["Trapezoid", "Rectangle", "default"]),
        }
    )


def _angstrom_copy(src, dst, natom):
    """Rewrite a bohr cube file in the angstrom convention: lengths * 0.529..., first voxel count negated."""
    with open(src) as fh:
        lines = fh.read().split("\n")

    def conv(line, neg=False):
        t = line.split()
        n = int(t[0])
        return f"{-n if neg else n:5d} " + " ".join(f"{float(v) * BOHR_IN_ANGSTROM:18.12f}" for v in t[1:])

    def conv_atom(line):
        t = line.split()
        return f"{int(t[0]):5d} {t[1]} " + " ".join(f"{float(v) * BOHR_IN_ANGSTROM:18.12f}" for v in t[2:])

    out = lines[:2] + [conv(lines[2]), conv(lines[3], neg=True), conv(lines[4]), conv(lines[5])]
    out += [conv_atom(l) for l in lines[6 : 6 + natom]] + lines[6 + natom :]
    with open(dst, "w") as fh:
        fh.write("\n".join(out))
    # what the rewritten header says, in bohr, parsed by this module (not by the library)
    hdr = [[float(v) for v in l.split()[1:]] for l in lines[2:6]]
    atoms = [[float(v) for v in l.split()[2:]] for l in lines[6 : 6 + natom]]
    return np.array(hdr[0]), np.array(hdr[1:]), np.array(atoms).reshape(natom, 3)


def body_cube(case, ctx):
    from grid.cubic import UniformGrid

    shape = [int(m) for m in case["shape"]]
    origin = np.array(case["origin"], dtype=float)
    axes = np.array(case["axes"], dtype=float)
    kw = {} if case["weight"] == "default" else {"weight": case["weight"]}
    g = UniformGrid(origin.copy(), axes.copy(), np.array(shape, dtype=int), **kw)
    rng = np.random.default_rng(case["dseed"])
    n = g.size
    data = rng.choice([-1.0, 1.0], n) * 10.0 ** rng.uniform(-20, 20, n)
    if case["zeros"]:
        data[rng.integers(0, n, max(1, n // 5))] = 0.0
    atnums = np.array([a["z"] for a in case["atoms"]], dtype=int)
    atcoords = np.array([a["xyz"] for a in case["atoms"]], dtype=float)
    cores = [a["core"] for a in case["atoms"]]
    use_core = bool(case["pseudo"])
    pseudo = np.array(cores, dtype=float) if use_core else None
    natom = len(atnums)
    ctx.cls(f"axes:{_axes_kind(axes)}", "pseudo-numbers" if use_core else "no-pseudo-numbers", f"atoms:{natom}")
    ctx.nt()
    nsteps = 1 + sum(m - 1 for m in shape)
    with tempfile.TemporaryDirectory(prefix="verif_c13_") as tmp:
        fn = os.path.join(tmp, "a.cube")
        g.generate_cube(fn, data.copy(), atcoords.copy(), atnums.copy(), pseudo_numbers=None if pseudo is None else pseudo.copy())
        g2, cd = UniformGrid.from_cube(fn, return_data=True, **kw)
        g2b = UniformGrid.from_cube(fn, **kw)
        fn2 = os.path.join(tmp, "b.cube")
        h_origin, h_axes, h_atoms = _angstrom_copy(fn, fn2, natom)
        with contextlib.redirect_stdout(io.StringIO()):
            g3, cd3 = UniformGrid.from_cube(fn2, return_data=True, **kw)
            g3b = UniformGrid.from_cube(fn2, **kw)  # grid only: the unit conversion must not depend on the flag
    what = f"cube round trip shape={shape}"
    # --- bohr file: printed precision ------------------------------------------------------------
    if not ctx.check(tuple(int(m) for m in g2.shape) == tuple(shape) and g2.points.shape == g.points.shape, "cube-shape", f"{what}: read back shape {tuple(g2.shape)}"):
        return
    xmax = float(np.max(np.abs(g.points)))
    tol_p = 5e-7 * nsteps * (1 + 1e-9) + 64 * EPS * nsteps * (xmax + 1)
    err_p = float(np.max(np.abs(g2.points - g.points)))
    _note(ctx, "cube point err / bound", err_p / tol_p)
    ctx.close(g2.points, g.points, tol_p, "cube-grid-points", f"{what}: bound 5e-7*(1+sum(M-1)) = {tol_p:.3e}")
    ctx.close(np.asarray(g2.origin), origin, 5e-7 * (1 + 1e-9) + 8 * EPS * np.abs(origin), "cube-origin", what)
    ctx.close(np.asarray(g2.axes), axes, 5e-7 * (1 + 1e-9) + 8 * EPS * np.abs(axes), "cube-axes", what)
    ctx.equal(g2b.points, g2.points, "cube-return-data-flag-changes-grid", what)
    rd = np.asarray(cd["data"], dtype=float)
    if ctx.check(rd.shape == data.shape, "cube-data-shape", f"{what}: data shape {rd.shape}"):
        _note(ctx, "cube data relerr / 5e-6", float(np.max(np.abs(rd - data) / np.where(data == 0, 1.0, np.abs(data)))) / 5e-6)
        ctx.close(rd, data, 5e-6 * (1 + 1e-9) * np.abs(data), "cube-data", f"{what}: data to 6 significant digits")
    ctx.equal(np.asarray(cd["atnums"]), atnums, "cube-atnums", what)
    ctx.close(cd["atcoords"], atcoords, 5e-7 * (1 + 1e-9) + 8 * EPS * np.abs(atcoords), "cube-atcoords", what)
    ctx.close(cd["atcorenums"], pseudo if use_core else atnums.astype(float), 5e-7 * (1 + 1e-9), "cube-atcorenums", what)
    # --- the same content in angstrom ----------------------------------------------------------------
    if not ctx.check(tuple(int(m) for m in g3.shape) == tuple(shape), "cube-angstrom-shape", f"{what}: angstrom file read back shape {tuple(g3.shape)}"):
        return
    cc = np.array(_lex(shape), dtype=float)
    hdr_pts = h_origin[None, :] + cc @ h_axes  # the bohr header as printed, expanded here
    rel = 2e-9  # 12 decimals printed; CODATA vintages differ by < 1e-9 relative
    scale = np.abs(h_origin)[None, :] + cc @ np.abs(h_axes)
    ctx.close(g3.points, hdr_pts, rel * scale + 1e-11 * nsteps, "cube-angstrom-grid", f"{what}: angstrom file (negative first count) vs the bohr header")
    ctx.close(cd3["atcoords"], h_atoms, rel * np.abs(h_atoms) + 1e-11, "cube-angstrom-atoms", what)
    if ctx.check(g3b.points.shape == g3.points.shape, "cube-angstrom-return-data-flag-changes-grid", f"{what}: shape {g3b.points.shape}"):
        ctx.equal(g3b.points, g3.points, "cube-angstrom-return-data-flag-changes-grid", what)
    ctx.equal(np.asarray(cd3["data"]), rd, "cube-angstrom-data", what)
    ctx.equal(np.asarray(cd3["atnums"]), atnums, "cube-angstrom-atnums", what)
    ctx.close(cd3["atcorenums"], cd["atcorenums"], 0.0, "cube-angstrom-atcorenums", what)


# =============================================================================================
# 7. interpolation
# =============================================================================================
CI = 100.0  # constant of the interpolation error model (measured worst 0.35 in units of eps*S over 16000 cases)


def _interp_strategy():
    uniform = st.fixed_dictionaries(
        {
            "grid": st.just("uniform"),
            "shape": _shape(3, 7, 10),
            "origin": st.lists(st.one_of(st.floats(-3.0, 3.0), st.sampled_from([0.0, 25.0])), min_size=3, max_size=3),
            "steps": st.lists(st.floats(0.1, 1.0), min_size=3, max_size=3),
        }
    )
    tensor = st.fixed_dictionaries(
        {"grid": st.just("tensor"), "grids": st.lists(_oned_spec(7, 10, ["GaussLegendre", "ClenshawCurtis", "Trapezoidal", "custom", "GaussChebyshev"]), min_size=3, max_size=3)}
    )
    mode = st.one_of(
        st.fixed_dictionaries({"method": st.just("cubic"), "use_log": st.just(False), "nu": st.lists(st.integers(0, 3), min_size=3, max_size=3)}),
        st.fixed_dictionaries({"method": st.just("cubic"), "use_log": st.just(False), "nu": st.sampled_from([[0, 0, 0], [1, 0, 0], [0, 1, 0], [0, 0, 1], [2, 0, 0], [0, 0, 2]])}),
        st.fixed_dictionaries(
            {"method": st.just("cubic"), "use_log": st.just(True), "nu": st.tuples(st.integers(0, 2), st.integers(0, 3)).map(lambda t: [t[1] if d == t[0] else 0 for d in range(3)])}
        ),
        st.fixed_dictionaries({"method": st.just("linear"), "use_log": st.just(False), "nu": st.just([0, 0, 0])}),
    )
    return st.tuples(st.one_of(uniform, tensor), mode, st.integers(0, 2**31 - 1), st.lists(st.lists(st.floats(0.0, 1.0), min_size=3, max_size=3), min_size=1, max_size=4)).map(
        lambda t: {**t[0], **t[1], "dseed": t[2], "q": t[3]}
    )


def _exp_derivative(n, f, g1, g2, g3):
    """d^n/dx^n exp(g) from the derivatives of g (Faa di Bruno, typed out)."""
    if n == 0:
        return f
    if n == 1:
        return f * g1
    if n == 2:
        return f * (g2 + g1**2)
    return f * (g3 + 3 * g1 * g2 + g1**3)


def body_interp(case, ctx):
    from grid.cubic import Tensor1DGrids, UniformGrid

    if case["grid"] == "uniform":
        shape = [int(m) for m in case["shape"]]
        origin = np.array(case["origin"], dtype=float)
        steps = np.array(case["steps"], dtype=float)
        g = UniformGrid(origin.copy(), np.diag(steps), np.array(shape, dtype=int))
        nodes = [origin[d] + np.arange(shape[d]) * steps[d] for d in range(3)]
    else:
        oned = [_oned(s) for s in case["grids"]]
        g = Tensor1DGrids(*oned)
        nodes = [np.asarray(o.points, dtype=float) for o in oned]
        shape = [len(x) for x in nodes]
    method, use_log, nu = case["method"], bool(case["use_log"]), [int(v) for v in case["nu"]]
    ctx.cls(f"grid:{case['grid']}", f"method:{method}" + ("+log" if use_log else ""), f"nu:{sum(nu)}" if sum(nu) < 4 else "nu:4+", "mixed-derivative" if sum(v > 0 for v in nu) > 1 else "pure-or-no-derivative")
    lo = np.array([x[0] for x in nodes])
    hi = np.array([x[-1] for x in nodes])
    cen, half = 0.5 * (lo + hi), 0.5 * (hi - lo)
    hmin = np.array([np.min(np.diff(x)) for x in nodes])
    xmax = max(float(np.max(np.abs(x))) for x in nodes)
    rng = np.random.default_rng(case["dseed"])
    deg = 1 if method == "linear" else 3
    coef = rng.uniform(-1, 1, (deg + 1,) * 3)
    coef = np.where(np.abs(coef) < 0.05, 0.05, coef)
    if use_log:
        coef = coef * (3.0 / np.sum(np.abs(coef)))  # |log f| <= 3
    ctx.nt()
    u = lambda p: (p - cen[None, :]) / half[None, :]  # noqa: E731  normalised coordinates in [-1, 1]

    def poly(p, d=(0, 0, 0)):
        c = coef
        for ax in range(3):
            if d[ax]:
                c = npoly.polyder(c, m=d[ax], axis=ax)
        uu = u(p)
        return npoly.polyval3d(uu[:, 0], uu[:, 1], uu[:, 2], c) / np.prod(half ** np.array(d))

    # anywhere in the box, kept 1e-9 of its width away from the faces (the linear method rejects outside points)
    q = lo[None, :] + (1e-9 + np.array(case["q"], dtype=float) * (1 - 2e-9)) * (hi - lo)[None, :]
    outer = np.any((q < np.array([x[1] for x in nodes])[None, :]) | (q > np.array([x[-3] for x in nodes])[None, :]), axis=1)
    if np.any(outer):
        ctx.cls("a-query-in-outer-cells")
    if not np.all(outer):
        ctx.cls("a-query-inside-spline-nodes")
    gvals = poly(g.points)
    vals = np.exp(gvals) if use_log else gvals
    what = f"interpolate(method={method!r}, use_log={use_log}, nu={nu}) on {case['grid']} grid shape={shape}"
    cond = 1.0 + xmax / float(np.min(hmin))
    # the splines are built on nodes 1..M-3 and extrapolated beyond: a cubic piece continued e intervals
    # past its last node amplifies the data rounding by at most (1+e)^3 per axis
    lam = np.ones(len(q))
    for d in range(3):
        x = nodes[d]
        e = np.maximum(0.0, np.maximum((x[1] - q[:, d]) / (x[2] - x[1]), (q[:, d] - x[-3]) / (x[-3] - x[-4])))
        lam = lam * (1.0 + e) ** 3
    if method == "linear":
        got = np.asarray(g.interpolate(q.copy(), vals.copy(), method="linear"), dtype=float)
        ref = poly(q)
        tol = CI * EPS * np.max(np.abs(vals)) * cond
        _note(ctx, "linear err/(eps*S)", np.max(np.abs(got - ref)) / (tol / CI))
        ctx.close(got, ref, tol, "linear-does-not-reproduce-trilinear", what)
        return
    kw = dict(nu_x=nu[0], nu_y=nu[1], nu_z=nu[2])
    if sum(nu) == 0 and case["dseed"] % 2:
        kw = {}
    if use_log:
        kw["use_log"] = True
    # a decoy call on the same grid object first (other data, other points, no derivative): whatever the grid remembers
    # from it must not leak into the call that is checked
    # ... the decoy data sit in the SAME values array that is then re-filled in place with the data under test
    vbuf = (np.abs(vals[::-1]) * 0.5 + 0.25).copy()
    g.interpolate(q[::-1].copy() * 0.999 + 0.001 * q.mean(axis=0), vbuf, **({"use_log": True} if use_log else {}))
    g.interpolate(q.copy(), vbuf, **kw)
    vbuf[...] = vals
    got = np.asarray(g.interpolate(q.copy(), vbuf, **kw), dtype=float)
    ctx.check(np.array_equal(vbuf, vals), "interpolate-modified-values", f"{what}: interpolate changed the values array in place")
    if got.shape != (len(q),):
        ctx.fail("interpolate-shape", f"{what}: {len(q)} points -> output shape {got.shape}")
        return
    amp = lambda k, ax: (2.0 / hmin[ax]) ** k  # noqa: E731
    if not use_log:
        ref = poly(q, nu)
        s = np.max(np.abs(vals)) * cond * lam * math.prod(amp(nu[ax], ax) for ax in range(3))
        _note(ctx, f"cubic nu={sum(nu)} err/(eps*S)", np.max(np.abs(got - ref) / (EPS * s)))
        ctx.close(got, ref, CI * EPS * s, "cubic-does-not-reproduce-tricubic", f"{what} at {q.tolist()}")
        return
    ax = int(np.argmax(nu))
    n = nu[ax]
    dd = lambda k: tuple(k if a == ax else 0 for a in range(3))  # noqa: E731
    f = np.exp(poly(q))
    g1, g2, g3 = poly(q, dd(1)), poly(q, dd(2)), poly(q, dd(3))
    ref = _exp_derivative(n, f, g1, g2, g3)
    gmax = max(1.0, float(np.max(np.abs(gvals))))
    delta = [CI * EPS * gmax * cond * lam * amp(k, ax) for k in range(4)]
    bell = ref / f
    sens = {0: [], 1: [np.ones_like(f)], 2: [2 * np.abs(g1), np.ones_like(f)], 3: [3 * np.abs(g2) + 3 * g1**2, 3 * np.abs(g1), np.ones_like(f)]}[n]
    tol = f * (delta[0] * np.abs(bell) + sum(sk * delta[k + 1] for k, sk in enumerate(sens)))
    _note(ctx, f"log nu={n} err/tol*CI", np.max(np.abs(got - ref) / tol) * CI)
    ctx.close(got, ref, tol, "log-cubic-does-not-reproduce-exp-of-tricubic", f"{what} at {q.tolist()}")


# =============================================================================================
def selftest():
    import mpmath as mp

    # lexicographic enumeration: last index fastest
    assert _lex([2, 3])[:4] == [(0, 0), (0, 1), (0, 2), (1, 0)]
    # Faa di Bruno formulas against mp.diff for g = 0.3 x^3 - 0.2 x^2 + 0.5 x
    gg = lambda x: 0.3 * x**3 - 0.2 * x**2 + 0.5 * x  # noqa: E731
    x0 = mp.mpf("0.7")
    g1, g2, g3 = (float(mp.diff(gg, x0, k)) for k in (1, 2, 3))
    f0 = float(mp.exp(gg(x0)))
    for n in range(4):
        ref = float(mp.diff(lambda x: mp.exp(gg(x)), x0, n))
        assert abs(_exp_derivative(n, f0, g1, g2, g3) - ref) < 1e-12 * abs(ref), n
    # polyder/polyval3d closed form against a hand derivative of x^3 y^2 z
    c = np.zeros((4, 4, 4))
    c[3, 2, 1] = 1.0
    d = npoly.polyder(npoly.polyder(c, m=2, axis=0), m=1, axis=1)
    assert abs(npoly.polyval3d(0.5, 2.0, 3.0, d) - 6 * 0.5 * 2 * 2.0 * 3.0) < 1e-13
    # the Fourier2 model reproduces "sums to zero"
    assert abs(np.sum(_fourier2_model([3, 4, 5], np.eye(3)))) < 1e-12


def subchecks(tier, seed):
    q = tier == "quick"
    pin_closest = [
        # regression of fix 31a3a44 (negative diagonal step), 3-D and 2-D
        {"dim": 3, "shape": [4, 5, 3], "origin": [1.0, -2.0, 0.5], "steps": [-0.5, 0.25, -1.0], "q": [[0.3, 0.6, 0.8], [0.9, 0.1, 0.2]], "snap": "none"},
        {"dim": 2, "shape": [6, 3], "origin": [0.0, 0.0], "steps": [0.3, -0.7], "q": [[0.55, 0.7], [0.1, 0.26]], "snap": "none"},
    ]
    pin_weights = [
        # pinned probes of KF-C13-fourier2
        {"dim": 3, "scheme": "Fourier2", "shapes": [[3, 4, 5]], "origin": [0.0, 0.0, 0.0], "axes": [[0.3, 0, 0], [0, 0.3, 0], [0, 0, 0.3]]},
        {"dim": 2, "scheme": "Fourier2", "shapes": [[3, 4]], "origin": [0.0, 0.0], "axes": [[0.3, 0], [0, 0.3]]},
    ]
    pin_molecule = [
        # pinned probes of KF-C13-from-molecule-margin: asymmetric charges (rotate off) and rotate on
        {"atoms": [{"z": 35.0, "xyz": [0.0, 0.0, -2.0]}, {"z": 1.0, "xyz": [0.0, 0.0, 2.0]}], "spacing": 0.25, "extension": 2.0, "rotate": False, "weight": "default"},
        {"atoms": [{"z": 8.0, "xyz": [0.3, -1.0, 2.5]}, {"z": 1.0, "xyz": [1.4, 0.2, -2.1]}, {"z": 6.0, "xyz": [-2.0, 1.0, 0.4]}], "spacing": 0.3, "extension": 2.5, "rotate": True, "weight": "default"},
        # symmetric molecule: the margin holds
        {"atoms": [{"z": 1.0, "xyz": [0.0, 0.0, -1.0]}, {"z": 1.0, "xyz": [0.0, 0.0, 1.0]}], "spacing": 0.25, "extension": 2.0, "rotate": False, "weight": "default"},
    ]
    return [
        SubCheck("uniform_layout", body_uniform_layout, strategy=_uniform_layout_strategy(), examples=3000 if q else 30000, shards=16),
        SubCheck("tensor_layout", body_tensor_layout, strategy=_tensor_layout_strategy(), examples=4000 if q else 40000, shards=16),
        SubCheck("weights", body_weights, strategy=_weights_strategy(), examples=3000 if q else 30000, cases=pin_weights + cases_weights(), shards=16),
        SubCheck("from_molecule", body_from_molecule, strategy=_molecule_strategy(), examples=1800 if q else 18000, cases=pin_molecule, shards=16),
        SubCheck("closest_point", body_closest, strategy=_closest_strategy(), examples=6000 if q else 60000, cases=pin_closest, shards=16),
        SubCheck("cube_roundtrip", body_cube, strategy=_cube_strategy(), examples=3000 if q else 30000, shards=16),
        SubCheck("interpolate", body_interp, strategy=_interp_strategy(), examples=4000 if q else 40000, shards=16),
    ]
