"""C06 - atom-in-molecule weights form a partition of unity on every geometry.

Oracle for Becke: pbt/oracles/becke_ref.py (explicit loops over ordered atom pairs, written from the
docstring/paper definition, self-tested against 40-digit arithmetic).  Oracle for Hirshfeld: my own
natural cubic spline (Thomas algorithm) through the shipped pro-atom tables, share = rho_A / sum_B rho_B.
"""
import math
import os

import numpy as np
from hypothesis import strategies as st

from ..core import EPS, SubCheck
from ..oracles import becke_ref

PROPERTY = "C06"
RULE = (
    "becke: Hypothesis molecules of 1..10 atoms, elements 1..86 (extra weight on the seven without Bragg radius and on "
    "the largest/smallest atoms), default or custom radii, order 1..5, geometries built by construction with pairwise "
    "distance >= 0.3 (random box, collinear, compact cluster + one far atom); points = seeded box points + the nuclei "
    "+ bond mid-points + points 1e-9 from a nucleus + points on an internuclear axis beyond a nucleus + far points "
    "(1e2..1e6 bohr), shuffled; segment table from generated cut fractions (empty segments allowed). Every case is run "
    "through __call__, generate_weights (pt_ind / select / both), compute_weights, compute_atom_weight, a relabelled "
    "copy and a rigidly moved copy. non-trivial = >= 4 atoms (chunked __call__), or heteronuclear radii, or an element "
    "without radius, or a nucleus among the points. hirshfeld: 1..6 atoms of H, C, N, O, points within 8 bohr of the "
    "molecule incl. nuclei; non-trivial = >= 2 atoms. distinct = distinct descriptor"
)
ASSUMPTIONS = [
    "the Bragg-Slater table returned by get_cov_radii(.., 'bragg') is data (self-test: equals Slater's 1964 radii to the printed 8 decimals; NaN exactly for Z=2,10,18,36,54,85,86)",
    "the shift parameter is clipped at |a| = 0.45, the default documented in BeckeWeights._calculate_alpha",
    "an element without radius takes the radius of Z-1, else Z-2, from the table in use (Bragg-Slater updated by the user's dict), as the library's warning documents",
    "the shipped pro-atom tables (data/proatoms/a00Z.npz: r, dn) are data; between the knots the pro-atom density is the natural cubic spline the module documents",
    "floating-point error model: a weight may differ from the exact value by C*eps*M*1.9*1.5^order*(1+|x|max/min R_AB)/min(1, sum_B P_B), C=64 (definition), C=100 (rigid motion); the 1/sum P factor is the amplification by the normalisation (added after a thorough run hit 1.15x the tolerance without it in an 8-atom cluster); identities (bounds, sum, nuclei, route agreement) 64*M*eps",
    "Hirshfeld error model: each spline value carries 4096*eps*(data magnitude damped by 0.3 per knot of distance); points where this makes the share uncertain by > 1e-6 (promolecular density ~ 0) are not compared",
    "warnings emitted by the library are ignored",
]

C_DEF = 64.0
C_RIGID = 100.0
C_SPLINE = 4096.0


# ---------------------------------------------------------------------------
# geometry / points from the descriptor
# ---------------------------------------------------------------------------
def _push_apart(raw, dmin=0.3):
    pos = []
    for p in raw:
        p = np.array(p, dtype=float)
        for _ in range(2000):
            if all(float(np.linalg.norm(p - q)) >= dmin for q in pos):
                break
            p = p + np.array([0.31, 0.0, 0.0])
        pos.append(p)
    return np.array(pos)


def build_atoms(geom):
    kind = geom["kind"]
    if kind == "random":
        return _push_apart(geom["xyz"])
    if kind == "cluster":
        raw = [list(0.9 * np.array(p)) for p in geom["xyz"]]
        if len(raw) > 1:
            raw[-1] = list(np.array(geom["xyz"][-1]) * geom["far"] + np.array([geom["far"], 0.0, 0.0]))
        return _push_apart(raw)
    # line
    u = np.array(geom["dir"], dtype=float)
    n = float(np.linalg.norm(u))
    u = u / n if n > 1e-3 else np.array([0.0, 0.0, 1.0])
    pos = [np.array(geom["origin"], dtype=float)]
    s = 0.0
    for g in geom["gaps"]:
        s += g
        pos.append(pos[0] + s * u)
    return np.array(pos)


def build_points(case, at):
    rng = np.random.default_rng(case["dseed"])
    m = len(at)
    centre = at.mean(axis=0)
    span = float(np.max(np.abs(at - centre))) if m > 1 else 0.0
    pts = [centre + rng.uniform(-1, 1, (case["nbox"], 3)) * (span + case["box"])]
    kinds = ["box"] * case["nbox"]
    if case["nuclei"]:
        pts.append(at.copy())
        kinds += [f"nuc{a}" for a in range(m)]
    if case["mid"] and m > 1:
        for a in range(m):
            b = int(rng.integers(0, m - 1))
            b = b if b < a else b + 1
            pts.append((0.5 * (at[a] + at[b]))[None, :])
            kinds.append("mid")
    if case["near"]:
        for a in range(m):
            v = rng.normal(size=3)
            pts.append((at[a] + 1e-9 * v / np.linalg.norm(v))[None, :])
            kinds.append("near")
    if case["axis"] and m > 1:
        for a in range(m):
            b = int(rng.integers(0, m - 1))
            b = b if b < a else b + 1
            t = float(rng.uniform(0.05, 3.0))
            pts.append((at[b] + t * (at[b] - at[a]))[None, :])
            kinds.append("axis")
    if case["far"] > 0:
        v = rng.normal(size=(3, 3))
        v /= np.linalg.norm(v, axis=1)[:, None]
        pts.append(centre + v * case["far"])
        kinds += ["far"] * 3
    pts = np.vstack(pts)
    perm = rng.permutation(len(pts))
    return np.ascontiguousarray(pts[perm]), [kinds[i] for i in perm]


def segment_table(case, n, m):
    cuts = sorted(min(n, max(0, int(round(f * n)))) for f in case["cuts"][: m - 1])
    while len(cuts) < m - 1:
        cuts.append(n)
    return np.array([0] + cuts + [n], dtype=int)


def rotation(axis, angle):
    a = np.array(axis, dtype=float)
    n = float(np.linalg.norm(a))
    a = a / n if n > 1e-3 else np.array([0.0, 0.0, 1.0])
    k = np.array([[0, -a[2], a[1]], [a[2], 0, -a[0]], [-a[1], a[0], 0]])
    return np.eye(3) + math.sin(angle) * k + (1 - math.cos(angle)) * (k @ k)


def move(x, rot, shift):
    """Row-wise R x + t with plain elementwise arithmetic (bitwise the same for a row whatever the array it sits in)."""
    out = np.empty_like(x)
    for i in range(3):
        out[:, i] = rot[i, 0] * x[:, 0] + rot[i, 1] * x[:, 1] + rot[i, 2] * x[:, 2] + shift[i]
    return out


def custom_radii(case, atnums):
    spec = case["radii"]
    if spec is None:
        return None
    zs = sorted(set(int(z) for z in atnums))
    vals = spec["vals"]
    out = {}
    if spec["mode"] == "all":
        for i, z in enumerate(zs):
            out[z] = float(vals[i % len(vals)])
    elif spec["mode"] == "some":
        for i, z in enumerate(zs):
            if i % 2 == 0:
                out[z] = float(vals[i % len(vals)])
    else:  # "fallback": give the predecessor of every radius-less element a custom radius
        for i, z in enumerate(zs):
            if z in becke_ref.NO_RADIUS and z - 1 not in becke_ref.NO_RADIUS:
                out[z - 1] = float(vals[i % len(vals)])
    return out


# ---------------------------------------------------------------------------
# Becke
# ---------------------------------------------------------------------------
def body_becke(case, ctx):
    from grid.becke import BeckeWeights
    from grid.utils import get_cov_radii

    atnums = np.array(case["atnums"], dtype=int)
    m = len(atnums)
    order = int(case["order"])
    at = np.ascontiguousarray(build_atoms(case["geom"]))
    pts, kinds = build_points(case, at)
    n = len(pts)
    idx = segment_table(case, n, m)
    custom = custom_radii(case, atnums)
    lib_table = get_cov_radii(np.arange(1, 87), "bragg")
    table = becke_ref.effective_table([float("nan")] + [float(v) for v in lib_table], custom)
    radii = [becke_ref.radius_of(z, table) for z in atnums]
    bw = BeckeWeights(radii=custom, order=order)

    # ---- classification ----------------------------------------------------
    nchunk = -(-n // max(1, (10 * n) // (m * m)))
    hetero = len(set(radii)) > 1
    norad = any(math.isnan(table.get(int(z), float("nan"))) for z in atnums)
    has_nuc = case["nuclei"]
    ctx.cls(
        f"atoms:{'1' if m == 1 else '2-3' if m < 4 else '4-6' if m < 7 else '7-10'}",
        f"geom:{case['geom']['kind']}",
        f"chunks:{'1' if nchunk == 1 else '2-3' if nchunk < 4 else '4+'}",
        f"order:{order}",
        "radii:custom" if custom else "radii:bragg",
    )
    if hetero:
        ctx.cls("heteronuclear")
    if norad:
        ctx.cls("element-without-radius")
    if has_nuc:
        ctx.cls("points:nuclei")
    if case["far"] > 0:
        ctx.cls(f"points:far{case['far']:g}")
    if np.any(np.diff(idx) == 0):
        ctx.cls("empty-segment")
    if any(abs(becke_ref.shift_parameter(radii[a], radii[b])) == becke_ref.CUTOFF for a in range(m) for b in range(a)):
        ctx.cls("shift-clipped")
    ctx.nt(m >= 4 or hetero or norad or has_nuc)

    # ---- definition ----------------------------------------------------------
    ref = becke_ref.weights(pts, at, radii, order)  # (n, m)
    cond = becke_ref.condition(pts, at, order, radii)  # (n,)
    tol_def = C_DEF * EPS * cond
    tol_id = 64.0 * m * EPS  # same arithmetic on a sub-array / another order of a product of m factors
    owner = np.repeat(np.arange(m), np.diff(idx))
    ref_seg = ref[np.arange(n), owner]

    per = np.empty((n, m))
    for a in range(m):
        per[:, a] = bw.compute_atom_weight(pts, at, atnums, a)
        ctx.close(per[:, a], ref[:, a], tol_def, "atom-weight-vs-definition", f"compute_atom_weight(select={a}) M={m} order={order}")
        sel = [a, [a], np.int64(a)][a % 3]
        g = bw.generate_weights(pts, at, atnums, select=sel)
        ctx.close(g, per[:, a], tol_id, "generate_weights-select-vs-atom-weight", f"select={sel!r}")
        c = bw.compute_weights(pts, at, atnums, select=[a, [a], np.int64(a)][(a + 1) % 3])
        ctx.close(c, per[:, a], tol_id, "compute_weights-select-vs-atom-weight", f"select={a}")
    # bounds, partition of unity, nuclei (identities; no reference involved)
    tol_b = 64.0 * m * EPS  # m roundings of a quotient and their sum
    lo, hi = float(np.min(per)), float(np.max(per))
    ctx.check(lo >= -tol_b and hi <= 1.0 + tol_b and not np.isnan(per).any(), "bounds", f"weights in [{lo!r}, {hi!r}] (nan: {bool(np.isnan(per).any())}) M={m} order={order}")
    ctx.close(per.sum(axis=1), np.ones(n), tol_b, "partition-of-unity", f"sum over {m} atoms")
    for p, kind in enumerate(kinds):
        if kind.startswith("nuc"):
            want = np.zeros(m)
            want[int(kind[3:])] = 1.0
            ctx.close(per[p], want, tol_b, "nucleus-values", f"weights at the nucleus of atom {kind[3:]}")

    # ---- segment routes ------------------------------------------------------
    call = bw(pts, at, atnums, idx)
    ctx.close(call, ref_seg, tol_def, "call-vs-definition", f"__call__ M={m} N={n} chunks={nchunk} indices={idx.tolist()}")
    ctx.close(call, per[np.arange(n), owner], tol_id, "call-vs-atom-weight", f"__call__ M={m} N={n} chunks={nchunk} indices={idx.tolist()}")
    gen = bw.generate_weights(pts, at, atnums, pt_ind=idx if case["dseed"] % 2 else idx.tolist())
    ctx.close(gen, call, tol_id, "generate_weights-ptind-vs-call", f"indices={idx.tolist()}")
    cmpw = bw.compute_weights(pts, at, atnums, pt_ind=idx.tolist() if case["dseed"] % 2 else idx)
    ctx.close(cmpw, call, tol_id, "compute_weights-ptind-vs-call", f"indices={idx.tolist()}")
    # segment i evaluated for atom select[i] (the reading pinned by the suite for generate_weights)
    rng = np.random.default_rng(case["dseed"] + 1)
    select = [int(v) for v in (rng.permutation(m) if case["dseed"] % 3 else rng.integers(0, m, m))]
    seg_of = np.repeat(np.arange(m), np.diff(idx))
    want = per[np.arange(n), np.array(select, dtype=int)[seg_of]] if n else np.zeros(0)
    g2 = bw.generate_weights(pts, at, atnums, select=select, pt_ind=idx.tolist())
    ctx.close(g2, want, tol_id, "generate_weights-select-ptind", f"select={select} pt_ind={idx.tolist()}")
    _compute_weights_select(bw, pts, at, atnums, select, idx, per, want, tol_id, ctx)

    # ---- relabelling -----------------------------------------------------------
    perm = np.random.default_rng(case["dseed"] + 2).permutation(m)
    at_p, z_p = np.ascontiguousarray(at[perm]), atnums[perm]
    for a in range(m):
        w = bw.compute_atom_weight(pts, at_p, z_p, a)
        ctx.close(w, per[:, perm[a]], 2 * tol_id, "relabelling-atom-weight", f"perm={perm.tolist()} new index {a}")
    blocks = [np.arange(idx[a], idx[a + 1]) for a in perm]
    order_p = np.concatenate(blocks) if n else np.zeros(0, dtype=int)
    idx_p = np.concatenate([[0], np.cumsum([len(b) for b in blocks])]).astype(int)
    call_p = bw(np.ascontiguousarray(pts[order_p]), at_p, z_p, idx_p)
    ctx.close(call_p, call[order_p], 2 * tol_id, "relabelling-call", f"perm={perm.tolist()} indices={idx_p.tolist()}")

    # ---- rigid motion ------------------------------------------------------------
    mo = case["motion"]
    rot = rotation(mo["axis"], mo["angle"])
    at_m, pts_m = move(at, rot, mo["shift"]), move(pts, rot, mo["shift"])
    tol_r = C_RIGID * EPS * (cond + becke_ref.condition(pts_m, at_m, order, radii))
    call_m = bw(pts_m, at_m, atnums, idx)
    ctx.close(call_m, call, tol_r, "rigid-motion-call", f"angle={mo['angle']} shift={mo['shift']} M={m} order={order}")
    a0 = case["dseed"] % m
    w_m = bw.compute_atom_weight(pts_m, at_m, atnums, a0)
    ctx.close(w_m, per[:, a0], tol_r, "rigid-motion-atom-weight", f"atom {a0}")
    ctx.info["err_def"] = float(np.max(np.abs(call - ref_seg) / tol_def)) if n else 0.0

    # ---- points on an integer lattice handed over as an integer-dtype array: the same points as those floats --------
    if n:
        lat = np.rint(pts).astype(np.int32 if case["dseed"] % 2 else np.int64)
        latf = lat.astype(float)
        if not np.any(np.all(latf[:, None, :] == at[None, :, :], axis=2)):  # keep lattice points off the nuclei
            for route in ("compute_atom_weight", "generate_weights", "call"):
                try:
                    if route == "compute_atom_weight":
                        wi, wf = bw.compute_atom_weight(lat, at, atnums, a0), bw.compute_atom_weight(latf, at, atnums, a0)
                    elif route == "generate_weights":
                        wi, wf = bw.generate_weights(lat, at, atnums, pt_ind=idx), bw.generate_weights(latf, at, atnums, pt_ind=idx)
                    else:
                        wi, wf = bw(lat, at, atnums, idx), bw(latf, at, atnums, idx)
                except (TypeError, ValueError):
                    ctx.cls("integer-points:rejected-loudly")
                    continue
                ctx.close(wi, wf, 2 * tol_id, "integer-dtype-points", f"{route} on integer-dtype lattice points vs the same points as float64 (M={m})")
            ctx.cls("integer-points:compared")


def _compute_weights_select(bw, pts, at, atnums, select, idx, per, want, tol_id, ctx):
    """compute_weights(select=list, pt_ind=...) - documented word for word like generate_weights."""
    m, n = len(atnums), len(pts)
    trivial = select == list(range(m))
    # model of the present behaviour (finding KF-C06-compute-weights-select): ``for i in select`` uses the atom
    # index i as the segment index as well, accumulating with +=
    buggy = np.zeros(n)
    buggy_raises = False
    for i in select:
        if i + 1 >= len(idx):
            buggy_raises = True
            break
        buggy[idx[i] : idx[i + 1]] += per[idx[i] : idx[i + 1], i]
    try:
        got = bw.compute_weights(pts, at, atnums, select=select, pt_ind=idx.tolist())
    except IndexError as exc:
        if not trivial and buggy_raises:
            ctx.known("KF-C06-compute-weights-select", "compute_weights-select-ptind", f"IndexError for select={select} pt_ind={idx.tolist()}: {exc}")
            return
        raise
    if np.all(np.abs(got - want) <= tol_id):
        return
    if not trivial and not buggy_raises and np.all(np.abs(got - buggy) <= tol_id):
        ctx.known(
            "KF-C06-compute-weights-select",
            "compute_weights-select-ptind",
            f"select={select} pt_ind={idx.tolist()}: segment i is evaluated for atom i, not select[i] "
            f"(max deviation from generate_weights {float(np.max(np.abs(got - want))):.2e})",
        )
        return
    ctx.fail("compute_weights-select-ptind", f"select={select} pt_ind={idx.tolist()}: differs from generate_weights by {float(np.max(np.abs(got - want))):.3e}")


def pick(options):
    """Choice drawn through a wide integer: Hypothesis skews small explicit ranges towards their first element (measured:
    47 % order 1, 80 % homonuclear); reducing a 31-bit draw modulo the table length gives a flat distribution and still
    shrinks towards options[0]."""
    options = list(options)
    return st.integers(0, 2**31 - 1).map(lambda v: options[v % len(options)])


_Z_TABLE = list(range(1, 87)) + list(becke_ref.NO_RADIUS) + [1, 9, 8, 3, 11, 19, 37, 55, 56, 1, 55]
_M_TABLE = [2, 1, 3, 4, 5, 6, 7, 8, 9, 10, 4, 5, 6, 8, 10, 3]


def becke_strategy(tier):
    big = tier == "thorough"
    z = pick(_Z_TABLE)
    coord = st.floats(-4.0, 4.0, allow_nan=False, width=64)
    unit = st.floats(-1.0, 1.0, allow_nan=False)
    vec = lambda s: st.lists(s, min_size=3, max_size=3)  # noqa: E731
    flag = pick([False, True])

    def geom(m):
        return pick(["random", "line", "cluster"]).flatmap(
            lambda kind: st.fixed_dictionaries({"kind": st.just("random"), "xyz": st.lists(vec(coord), min_size=m, max_size=m)})
            if kind == "random"
            else st.fixed_dictionaries(
                {
                    "kind": st.just("line"),
                    "origin": vec(coord),
                    "dir": vec(unit),
                    "gaps": st.lists(st.floats(0.3, 5.0), min_size=m - 1, max_size=m - 1),
                }
            )
            if kind == "line"
            else st.fixed_dictionaries(
                {"kind": st.just("cluster"), "xyz": st.lists(vec(unit), min_size=m, max_size=m), "far": st.floats(20.0, 60.0)}
            )
        )

    def for_m(m):
        atn = pick([False, False, False, False, True]).flatmap(
            lambda homo: z.map(lambda v: [v] * m) if homo else st.lists(z, min_size=m, max_size=m)
        )
        radii = pick([None, "all", None, "some", None, "fallback"]).flatmap(
            lambda mode: st.none()
            if mode is None
            else st.fixed_dictionaries({"mode": st.just(mode), "vals": st.lists(st.floats(0.3, 6.0), min_size=1, max_size=5)})
        )
        return st.fixed_dictionaries(
            {
                "order": pick([3, 1, 2, 4, 5]),
                "atnums": atn,
                "radii": radii,
                "nuclei": flag,
                "mid": flag,
                "near": flag,
                "axis": flag,
                "far": pick([0, 1e2, 0, 1e4, 1e6]),
                "box": pick([4.0, 1.0, 10.0]),
                "nbox": st.integers(2, 400 if big else 60),
                "dseed": st.integers(0, 2**31 - 1),
                "geom": geom(m),
                "cuts": st.lists(st.floats(0.0, 1.0), min_size=m - 1, max_size=m - 1),
                "motion": st.fixed_dictionaries(
                    {
                        "axis": vec(unit),
                        "angle": st.floats(-math.pi, math.pi),
                        "shift": vec(st.floats(-50.0, 50.0)),
                    }
                ),
            }
        )

    return pick(_M_TABLE).flatmap(for_m)


def pinned_becke():
    base = {
        "order": 3,
        "radii": None,
        "nbox": 20,
        "box": 4.0,
        "nuclei": True,
        "mid": True,
        "near": True,
        "axis": True,
        "far": 1e4,
        "dseed": 11,
        "motion": {"axis": [0.3, -0.5, 0.8], "angle": 1.1, "shift": [3.0, -7.0, 11.0]},
    }
    out = []
    # probe of the known finding: select is a non-identity permutation (dseed % 3 != 0)
    out.append(dict(base, atnums=[1, 8, 6], geom={"kind": "random", "xyz": [[0, 0, 0], [0, 0, 2.0], [1.0, 1.0, 0]]}, cuts=[0.3, 0.6]))
    # every element without radius next to its stand-in: weights are those of a homonuclear pair
    for z in becke_ref.NO_RADIUS:
        out.append(dict(base, atnums=[z, z - 1 if z != 86 else z - 2], geom={"kind": "line", "origin": [0.1, 0.2, 0.3], "dir": [1, 1, 0], "gaps": [1.7]}, cuts=[0.5]))
    # ten atoms, several chunks, empty first and last segment
    out.append(
        dict(
            base,
            atnums=[55, 1, 9, 8, 86, 3, 17, 2, 26, 82],
            geom={"kind": "line", "origin": [0, 0, 0], "dir": [0, 0, 1], "gaps": [0.3, 0.9, 1.4, 2.0, 0.5, 3.0, 1.1, 0.7, 2.2]},
            cuts=[0.0, 0.1, 0.2, 0.25, 0.5, 0.5, 0.9, 1.0, 1.0],
            order=5,
        )
    )
    return out


# ---------------------------------------------------------------------------
# Hirshfeld
# ---------------------------------------------------------------------------
_HIRSH_Z = (1, 6, 7, 8)


def _proatom(z, _cache={}):
    if z not in _cache:
        import grid

        path = os.path.join(os.path.dirname(os.path.abspath(grid.__file__)), "data", "proatoms", f"a{z:03d}.npz")
        with np.load(path) as f:
            r, y = np.array(f["r"], dtype=float), np.array(f["dn"], dtype=float)
        _cache[z] = (r, y, natural_spline_moments(r, y), interval_scale(y))
    return _cache[z]


def natural_spline_moments(x, y):
    """Second derivatives of the natural cubic spline (zero at both ends), Thomas algorithm."""
    n = len(x) - 1
    h = np.diff(x)
    mom = np.zeros(n + 1)
    if n < 2:
        return mom
    sub = h[:-1].copy()
    diag = 2.0 * (h[:-1] + h[1:])
    sup = h[1:].copy()
    rhs = 6.0 * ((y[2:] - y[1:-1]) / h[1:] - (y[1:-1] - y[:-2]) / h[:-1])
    k = n - 1
    cp, dp = np.zeros(k), np.zeros(k)
    cp[0], dp[0] = sup[0] / diag[0], rhs[0] / diag[0]
    for i in range(1, k):
        den = diag[i] - sub[i] * cp[i - 1]
        cp[i] = sup[i] / den
        dp[i] = (rhs[i] - sub[i] * dp[i - 1]) / den
    sol = np.zeros(k)
    sol[-1] = dp[-1]
    for i in range(k - 2, -1, -1):
        sol[i] = dp[i] - cp[i] * sol[i + 1]
    mom[1:n] = sol
    return mom


def interval_scale(y):
    """Magnitude that governs the rounding error of the spline on interval i (between knots i and i+1).

    The moments solve a diagonally dominant tridiagonal system whose inverse decays by at least 2+sqrt(3) per knot, so
    the data value at knot j enters interval i damped by 0.3^distance; the pro-atom tables fall by 30-100x per knot in
    the tail, so the left neighbours dominate there."""
    n = len(y)
    ay = np.abs(y)
    out = np.zeros(n - 1)
    for i in range(n - 1):
        j = np.arange(n)
        dist = np.maximum(0, np.maximum(i - j, j - (i + 1)))
        out[i] = float(np.max(ay * 0.3**dist))
    return out


def spline_eval(x, y, mom, t, scale_tab=None):
    """Value of the spline at t and, if scale_tab is given, the error scale of the interval."""
    i = np.clip(np.searchsorted(x, t, side="right") - 1, 0, len(x) - 2)
    h = x[i + 1] - x[i]
    a, b = x[i + 1] - t, t - x[i]
    val = mom[i] * a**3 / (6 * h) + mom[i + 1] * b**3 / (6 * h) + (y[i] / h - mom[i] * h / 6) * a + (y[i + 1] / h - mom[i + 1] * h / 6) * b
    return val, (scale_tab[i] if scale_tab is not None else None)


def body_hirshfeld(case, ctx):
    from grid.hirshfeld import HirshfeldWeights

    atnums = np.array(case["atnums"], dtype=int)
    m = len(atnums)
    at = _push_apart(case["xyz"], dmin=0.3)
    rng = np.random.default_rng(case["dseed"])
    centre = at.mean(axis=0)
    span = float(np.max(np.abs(at - centre))) if m > 1 else 0.0
    pts = [centre + rng.uniform(-1, 1, (case["nbox"], 3)) * (span + case["box"])]
    if case["nuclei"]:
        pts.append(at.copy())
    pts = np.vstack(pts)
    pts = np.ascontiguousarray(pts[rng.permutation(len(pts))])
    n = len(pts)
    idx = segment_table(case, n, m)
    ctx.cls(f"atoms:{m}", "points:nuclei" if case["nuclei"] else "points:box", f"box:{case['box']:g}")
    ctx.nt(m >= 2)

    rho = np.empty((n, m))
    scale = np.empty((n, m))
    rmax_ok = np.ones(n, dtype=bool)
    for a in range(m):
        r, y, mom, stab = _proatom(int(atnums[a]))
        d = pts - at[a]
        dist = np.sqrt(d[:, 0] ** 2 + d[:, 1] ** 2 + d[:, 2] ** 2)
        rmax_ok &= dist <= r[-1]
        rho[:, a], scale[:, a] = spline_eval(r, y, mom, dist, stab)
    tot = rho.sum(axis=1)
    # error model: either spline is evaluated with an error of a few eps of the local data magnitude
    with np.errstate(divide="ignore", invalid="ignore"):
        tol = C_SPLINE * EPS * scale.sum(axis=1) / np.abs(tot) * (1.0 + np.abs(rho).max(axis=1) / np.abs(tot))
    good = rmax_ok & (tot > 0) & np.isfinite(tol) & (tol < 1e-6)
    if not np.all(good):
        ctx.cls("some-points-ill-conditioned")
    # "sum to one" needs no reference density: it must hold at EVERY point where the library returns finite weights,
    # also far outside the region where the share itself can be compared
    hw0 = HirshfeldWeights()
    tot_all, abs_all = np.zeros(n), np.zeros(n)
    for a in range(m):
        ia = np.zeros(m + 1, dtype=int)
        ia[a + 1 :] = n
        wa_ = hw0(pts, at, atnums, ia)
        tot_all += wa_
        abs_all += np.abs(wa_)
    fin = np.isfinite(tot_all)
    if np.any(fin):
        # error model: each weight rho_A/S carries a relative rounding error, so the sum deviates from 1 by at most
        # ~eps * sum_A |w_A| (large only where the extrapolated pro-atom splines change sign and S nearly cancels)
        ctx.close(tot_all[fin], np.ones(int(fin.sum())), (256.0 * m * EPS * abs_all + 1e-12)[fin], "hirshfeld-sum-anywhere", f"sum over {m} atoms at all {int(fin.sum())} points with finite weights (box {case['box']})")
    if not np.any(good):
        ctx.skip("every point ill-conditioned (promolecular density ~ 0)")
        return
    share = rho / tot[:, None]
    hw = HirshfeldWeights()
    owner = np.repeat(np.arange(m), np.diff(idx))
    got = hw(pts, at, atnums, idx)
    ctx.close(got[good], share[np.arange(n), owner][good], tol[good], "hirshfeld-share", f"M={m} atnums={atnums.tolist()} indices={idx.tolist()}")
    total = np.zeros(n)
    for a in range(m):
        ia = np.zeros(m + 1, dtype=int)
        ia[a + 1 :] = n
        wa = hw(pts, at, atnums, ia)
        ctx.close(wa[good], share[good, a], tol[good], "hirshfeld-share", f"atom {a} on all points")
        total += wa
    ctx.close(total[good], np.ones(int(good.sum())), (64.0 * m * EPS * np.abs(rho).sum(axis=1) / np.abs(tot))[good], "hirshfeld-sum", f"sum over {m} atoms")


def hirshfeld_strategy():
    def for_m(m):
        return st.fixed_dictionaries(
            {
                "atnums": st.lists(st.sampled_from(_HIRSH_Z), min_size=m, max_size=m),
                "xyz": st.lists(st.lists(st.floats(-3.0, 3.0), min_size=3, max_size=3), min_size=m, max_size=m),
                "nbox": st.integers(2, 60),
                "box": st.sampled_from([1.0, 3.0, 8.0, 8.0, 30.0, 100.0]),
                "nuclei": st.booleans(),
                "cuts": st.lists(st.floats(0.0, 1.0), min_size=m - 1, max_size=m - 1),
                "dseed": st.integers(0, 2**31 - 1),
            }
        )

    return st.integers(1, 6).flatmap(for_m)


# ---------------------------------------------------------------------------
def selftest():
    becke_ref.selftest()
    # natural spline: reproduces a cubic with zero end curvature; interpolates; zero end moments
    x = np.array([0.0, 0.3, 0.7, 1.5, 2.0, 3.1])
    y = np.sin(x)
    mom = natural_spline_moments(x, y)
    assert mom[0] == 0.0 and mom[-1] == 0.0
    v, _ = spline_eval(x, y, mom, x[:-1])
    assert np.allclose(v, y[:-1], atol=1e-15)
    # C2 continuity of the first derivative at the inner knots (finite differences of the pieces)
    for k in range(1, len(x) - 1):
        hl, hr = x[k] - x[k - 1], x[k + 1] - x[k]
        dl = (y[k] - y[k - 1]) / hl + hl * (2 * mom[k] + mom[k - 1]) / 6
        dr = (y[k + 1] - y[k]) / hr - hr * (2 * mom[k] + mom[k + 1]) / 6
        assert abs(dl - dr) < 1e-13
    xs = np.linspace(0, 4, 9)
    line = 2 * xs - 1
    ml = natural_spline_moments(xs, line)
    assert np.allclose(ml, 0, atol=1e-13)
    for z in _HIRSH_Z:
        r, yv, _, _ = _proatom(z)
        assert r[0] == 0.0 and np.all(np.diff(r) > 0) and np.all(yv > 0) and len(r) == len(yv) >= 50


def subchecks(tier, seed):
    quick = tier == "quick"
    return [
        SubCheck("becke", body_becke, strategy=becke_strategy(tier), examples=4800 if quick else 120000, cases=pinned_becke(), shards=16),
        SubCheck("hirshfeld", body_hirshfeld, strategy=hirshfeld_strategy(), examples=1600 if quick else 20000, shards=16),
    ]
