"""C14 - multipole moments equal the direct quadrature of their defining integrands.

Oracle: for every centre and every row a plain sum  sum_i w_i f_i b(r_i - R)  with the basis function b
evaluated independently of grid/basegrid.py and grid/utils.py:
  cartesian    prod_k (x_k - X_k)^(n_k)            python loop over the axes
  radial       |r - R|^n
  pure         regular real solid harmonic R_lm(r - R) = sqrt(4pi/(2l+1)) |r-R|^l Y_lm, from the recurrence of
               pbt.oracles.sph evaluated at the Cartesian unit vector (no cart->sph conversion of the library), and
               from the explicit Cartesian polynomial table for l <= 3
  pure-radial  |r - R|^n R_lm(r - R)               (the property statement; rows (n, l, m), l < n)
and an order list produced by my own enumeration (Cartesian: all exponent tuples of the given total degree sorted
in descending lexicographic order; pure: m = 0, 1, -1, ..., l, -l).
Dipole helper: sum_a Z_a (R_a - R_c) - sum_i w_i rho_i (r_i - R_c), R_c = centre of mass from an independent table
of principal-isotope masses (Z <= 18).
"""
import itertools
import math

import numpy as np
from hypothesis import strategies as st

from ..core import EPS, SubCheck
from ..oracles import sph

PROPERTY = "C14"
RULE = (
    "moments: Hypothesis draws type_mom (4 types), dimension d (1,2,3 for cartesian, 3 otherwise), N=1..24 points, "
    "1..4 centres (each: random | a grid point itself | the origin), order 0..6 (1..6 for pure-radial), weight mode "
    "(positive | signed) and a data seed from which points, weights and function values are derived; plus pinned "
    "hand-computed 1-D/2-D/3-D Cartesian regression cases. Non-trivial: >= 2 centres or order >= 3 or d < 3. "
    "orders: complete enumeration of generate_orders_horton_order for order 0..12 x 4 types x dims (exhaustive in that box). "
    "dipole: 1..5 atoms with Z in 1..18 at random/collinear/coincident positions, random positive density on a random "
    "Grid, modes neutral (weights rescaled so that the charge integrates to sum Z: origin-independent), homonuclear "
    "(mass centre = centroid) and general (needs the mass table); non-trivial: >= 2 atoms with distinct positions. "
    "distinct = distinct descriptor."
)
RULE = RULE + " " + 'moments: every case reassigns points and weights of the same Grid object and checks a second moments() call; centre modes near-prev (previous centre + 1e-6) and same-as-prev.'

ASSUMPTIONS = [
    "moment definitions as in the property statement: pure = regular real solid harmonic R_lm(r-R); pure-radial = |r-R|^n R_lm(r-R) "
    "(the docstring of Grid.moments prints |r-R|^(n+1) S_lm for pure-radial, which matches neither the code nor the property for l != 1)",
    "real solid harmonics in the documented convention of grid.utils (no Condon-Shortley phase, Horton-2 order), anchored to the explicit Cartesian table for l <= 3",
    "0^0 = 1 for a grid point that coincides with a centre",
    "centre of mass uses principal-isotope masses; my own table (8 digits) agrees with the 6-decimal library table to 5e-7 relative, which is allowed for in the tolerance of the 'general' dipole mode only",
]

C_MOM = 200.0  # |got - ref| <= C_MOM * eps * (order + 2) * sum_i |w_i f_i| bound_i
# The library used to convert r - R to angles with phi = arccos(z/r): the rounding of z/r is a perturbation
# min(eps/sin(phi), sqrt(2 eps)) of phi, and |dR_lm/dphi| <= l r^l, so pure / pure-radial rows were off by up to
# 1.5e-8 |w f| r^l for grid points next to (not on) the z axis through a centre.  Reported and repaired in /repo
# (arctan2 form); ARCCOS_MODEL = True would re-admit exactly that error model.
ARCCOS_MODEL = False
_WORST = {}

TYPES = ["cartesian", "radial", "pure", "pure-radial"]

# principal-isotope masses (u), typed from the AME tables, independent of grid.utils.isotopic_masses
_MASS = {
    1: 1.00782503, 2: 4.00260325, 3: 7.01600344, 4: 9.01218306, 5: 11.00930536, 6: 12.0, 7: 14.00307400,
    8: 15.99491462, 9: 18.99840316, 10: 19.99244018, 11: 22.98976928, 12: 23.98504170, 13: 26.98153853,
    14: 27.97692653, 15: 30.97376200, 16: 31.97207117, 17: 34.96885268, 18: 39.96238312,
}  # fmt: skip


# ---------------------------------------------------------------------------
# own order enumeration
# ---------------------------------------------------------------------------
def my_orders_single(order, type_mom, dim):
    """Rows of ONE order value in the documented Horton order."""
    if type_mom == "cartesian":
        tuples = [t for t in itertools.product(range(order + 1), repeat=dim) if sum(t) == order]
        return [list(t) for t in sorted(tuples, reverse=True)]
    if type_mom == "radial":
        return [[order]]
    if type_mom == "pure":
        out = [[order, 0]]
        for m in range(1, order + 1):
            out += [[order, m], [order, -m]]
        return out
    if type_mom == "pure-radial":
        out = []
        for l in range(order):
            for _, m in sph.lm_list(l)[l * l :]:
                out.append([order, l, m])
        return out
    raise ValueError(type_mom)


def my_orders(max_order, type_mom, dim):
    start = 1 if type_mom == "pure-radial" else 0
    out = []
    for o in range(start, max_order + 1):
        out += my_orders_single(o, type_mom, dim)
    return out


# ---------------------------------------------------------------------------
# moments
# ---------------------------------------------------------------------------
def _build(case):
    if "explicit" in case:
        e = case["explicit"]
        pts = np.array(e["points"], dtype=float)
        return pts, np.array(e["weights"], dtype=float), np.array(e["f"], dtype=float), np.array(e["centers"], dtype=float)
    d, n = int(case["d"]), int(case["n"])
    rng = np.random.default_rng(int(case["dseed"]))
    pts = rng.normal(size=(n, d)) * float(case["scale"])
    w = rng.uniform(0.1, 1.0, n) if case["wmode"] == "pos" else rng.normal(size=n)
    f = rng.normal(size=n) * float(case.get("fscale", 1.0))
    cents = []
    for j, mode in enumerate(case["cmodes"]):
        rc = rng.normal(size=d) * float(case["scale"])
        if mode == "gridpoint":
            cents.append(pts[j % n].copy())
        elif mode == "origin":
            cents.append(np.zeros(d))
        elif mode in ("near-prev", "same-as-prev") and cents:
            # a centre displaced from the previous one by 1e-6 (a finite-difference stencil) or identical to it:
            # every column is the moment about ITS centre
            step = np.zeros(d)
            if mode == "near-prev":
                step[j % d] = 1e-6
            cents.append(cents[-1] + step)
        else:
            cents.append(rc)
    cents = np.array(cents, dtype=float).reshape(len(cents), d)
    # points on / next to the z axis through the first centre (poles of the spherical conversion)
    for k, (delta, z) in enumerate(case.get("axis_pts", []) if d == 3 else []):
        a = rng.uniform(0, 2 * math.pi)
        pts[k % n] = cents[0] + np.array([delta * math.cos(a), delta * math.sin(a), z])
    return pts, w, f, cents


def _reference(pts, w, f, cents, max_order, type_mom):
    """(L, M) reference values and (L, M) condition scales sum_i |w_i f_i| * bound(|b_i|)."""
    d = pts.shape[1]
    orders = my_orders(max_order, type_mom, d)
    ref = np.zeros((len(orders), len(cents)))
    scl = np.zeros((len(orders), len(cents)))
    wf = w * f
    for ic, c in enumerate(cents):
        disp = pts - c[None, :]
        r = np.sqrt(np.sum(disp * disp, axis=1))
        solid = sph.solid_harm_xyz(max_order, disp) if type_mom in ("pure", "pure-radial") else None
        acos = np.zeros(len(pts))
        if ARCCOS_MODEL and d == 3:
            with np.errstate(divide="ignore", invalid="ignore"):
                sinphi = np.where(r > 0, np.sqrt(disp[:, 0] ** 2 + disp[:, 1] ** 2) / np.where(r > 0, r, 1.0), 0.0)
                acos = np.where(sinphi > 0, np.minimum(100.0 / np.where(sinphi > 0, sinphi, 1.0), 10.0 / math.sqrt(EPS)), 0.0)
        for row, o in enumerate(orders):
            if type_mom == "cartesian":
                b = np.ones(len(pts))
                for k in range(d):
                    b = b * (np.ones(len(pts)) if o[k] == 0 else disp[:, k] ** o[k])
                bound = np.abs(b)
            elif type_mom == "radial":
                b = np.ones(len(pts)) if o[0] == 0 else r ** o[0]
                bound = b
            elif type_mom == "pure":
                l, m = o
                b = solid[sph.row_index(l, m)]
                bound = np.ones(len(pts)) if l == 0 else r**l * (1.0 + l * acos / (max_order + 2.0) / C_MOM)
            else:
                n_, l, m = o
                b = r**n_ * solid[sph.row_index(l, m)]
                bound = r ** (n_ + l) * (1.0 + l * acos / (max_order + 2.0) / C_MOM)
            ref[row, ic] = float(np.sum(wf * b))
            scl[row, ic] = float(np.sum(np.abs(wf) * bound))
    return orders, ref, scl


def body_moments(case, ctx):
    from grid.basegrid import Grid

    type_mom, max_order = case["type"], int(case["order"])
    pts, w, f, cents = _build(case)
    d = pts.shape[1]
    ctx.cls(f"{type_mom}/d={d}", f"order:{max_order}", f"centres:{len(cents)}")
    if "explicit" in case:
        ctx.cls("pinned")
    else:
        for mode in case["cmodes"]:
            ctx.cls("centre:" + mode)
        ctx.cls("weights:" + case["wmode"])
    ctx.nt(len(cents) >= 2 or max_order >= 3 or d < 3)
    if d == 3:
        for c in cents:
            dd = pts - c
            rr = np.sqrt(np.sum(dd * dd, axis=1))
            sp = np.sqrt(dd[:, 0] ** 2 + dd[:, 1] ** 2)
            if np.any((rr > 0) & (sp == 0)):
                ctx.cls("point:on-axis")
            if np.any((sp > 0) & (sp < 1e-3 * rr)):
                ctx.cls("point:near-axis")
            if np.any(rr == 0):
                ctx.cls("point:at-centre")
    grid = Grid(pts.copy(), w.copy())
    order_arg = np.int64(max_order) if case.get("np_int") else max_order
    got, got_orders = grid.moments(order_arg, cents.copy(), f.copy(), type_mom=type_mom, return_orders=True)
    got_plain = grid.moments(order_arg, cents.copy(), f.copy(), type_mom=type_mom)
    orders, ref, scl = _reference(pts, w, f, cents, max_order, type_mom)
    got = np.asarray(got, dtype=float)
    # ---- the order list
    go = np.asarray(got_orders)
    want = np.array(orders, dtype=int)
    if type_mom == "radial":
        go, want = go.reshape(-1), want.reshape(-1)  # the library returns shape (1,) for order 0 and (L,1) otherwise
    if go.shape != want.shape or not np.array_equal(go, want):
        ctx.fail(f"order-list:{type_mom}", f"{type_mom} d={d} order={max_order}: returned orders {go.tolist()} != documented Horton order {want.tolist()}")
    # ---- values
    if got.shape != ref.shape:
        ctx.fail(f"moments-shape:{type_mom}", f"{type_mom} d={d} order={max_order} centres={len(cents)}: shape {got.shape}, expected {ref.shape}")
        return
    ctx.check(
        np.asarray(got_plain).shape == got.shape and np.array_equal(np.asarray(got_plain, dtype=float), got),
        "return_orders-changes-values",
        f"{type_mom}: moments(..., return_orders=False) differs from the first item with return_orders=True",
    )
    unit = (max_order + 2.0) * scl + 1e-300
    with np.errstate(invalid="ignore"):
        ratio = np.abs(got - ref) / (EPS * unit)
    ratio = np.where(np.isnan(ratio), np.inf, ratio)
    wst = float(np.max(ratio))
    _WORST[type_mom] = max(_WORST.get(type_mom, 0.0), wst)
    if wst > C_MOM:
        row, ic = np.unravel_index(int(np.argmax(ratio)), ratio.shape)
        ctx.fail(
            f"moment-value:{type_mom}",
            f"{type_mom} d={d} order={max_order} row {row} (order {orders[row]}) centre #{ic} {cents[ic].tolist()}: got {got[row, ic]!r}, "
            f"direct quadrature {ref[row, ic]!r} (|diff|={abs(got[row, ic] - ref[row, ic]):.3e} = {wst:.3g} eps*scale, allowed {C_MOM:g}); {int(np.sum(ratio > C_MOM))} entries bad",
        )
    # ---- explicit Cartesian table of the solid harmonics (l <= 3) as a second, recurrence-free reference
    if type_mom == "pure":
        lt = min(max_order, 3)
        k = (lt + 1) ** 2
        for ic, c in enumerate(cents):
            tab = sph.regular_solid_explicit(pts - c[None, :])[:k]
            ref2 = tab @ (w * f)
            r2 = np.abs(got[:k, ic] - ref2) / (EPS * unit[:k, ic])
            if np.max(r2) > C_MOM:
                ctx.fail("moment-value:pure-vs-cartesian-table", f"row {int(np.argmax(r2))} centre #{ic}: got {got[int(np.argmax(r2)), ic]!r}, table {ref2[int(np.argmax(r2))]!r}")
    # ---- the same Grid object after its points and weights were reassigned: moments answer for the current grid
    # (anything remembered from the first call - harmonics, centred points - must not survive the reassignment)
    moved = pts[::-1] * 0.75 + 0.125
    w2 = w[::-1] * 1.5
    grid.points = moved.copy()
    grid.weights = w2.copy()
    got2 = np.asarray(grid.moments(order_arg, cents.copy(), f.copy(), type_mom=type_mom), dtype=float)
    _, ref2m, scl2 = _reference(moved, w2, f, cents, max_order, type_mom)
    if got2.shape != ref2m.shape:
        ctx.fail(f"moments-shape:{type_mom}", f"after reassignment: shape {got2.shape}, expected {ref2m.shape}")
    else:
        with np.errstate(invalid="ignore"):
            ratio2 = np.abs(got2 - ref2m) / (EPS * ((max_order + 2.0) * scl2 + 1e-300))
        ratio2 = np.where(np.isnan(ratio2), np.inf, ratio2)
        if float(np.max(ratio2)) > C_MOM:
            row, ic = np.unravel_index(int(np.argmax(ratio2)), ratio2.shape)
            ctx.fail(f"moment-value-after-reassignment:{type_mom}",
                     f"{type_mom} d={d} order={max_order}: second moments() call after grid.points/grid.weights were reassigned: row {row} centre #{ic} "
                     f"got {got2[row, ic]!r}, direct quadrature on the current grid {ref2m[row, ic]!r} ({float(np.max(ratio2)):.3g} eps*scale)")
    # ---- hand-computed expectations of pinned cases
    if "expect" in case:
        exp = np.array(case["expect"], dtype=float)
        if exp.shape != got.shape or np.max(np.abs(exp - got)) > 1e-12 * (1 + np.max(np.abs(exp))):
            ctx.fail("pinned-hand-value", f"{type_mom} d={d}: got {got.tolist()}, hand-computed {exp.tolist()}")
        if exp.shape == ref.shape and np.max(np.abs(exp - ref)) > 1e-12 * (1 + np.max(np.abs(exp))):
            raise AssertionError("pinned hand value disagrees with the oracle")


def _moments_strategy():
    def for_type(t):
        dims = st.sampled_from([1, 2, 3]) if t == "cartesian" else st.just(3)
        lo = 1 if t == "pure-radial" else 0
        return st.fixed_dictionaries(
            {
                "type": st.just(t),
                "d": dims,
                "n": st.one_of(st.integers(1, 6), st.integers(1, 24)),
                "dseed": st.integers(0, 2**32 - 1),
                "scale": st.sampled_from([1.0, 1.0, 0.1, 3.0]),
                "wmode": st.sampled_from(["pos", "signed"]),
                "cmodes": st.lists(st.sampled_from(["rand", "rand", "gridpoint", "origin", "near-prev", "same-as-prev"]), min_size=1, max_size=4),
                "order": st.integers(lo, 6),
                "np_int": st.booleans(),
                "fscale": st.sampled_from([1.0, 1.0, 1.0, 1e-35, 1e-60, 1e25]),
                "axis_pts": st.one_of(
                    st.just([]),
                    st.lists(st.tuples(st.sampled_from([0.0, 0.0, 1e-12, 1e-9, 1e-8, 1e-7, 1e-5, 1e-3]), st.sampled_from([1.0, -1.0, 0.3, -2.5])).map(list), min_size=1, max_size=3),
                ),
            }
        )

    return st.sampled_from(TYPES + ["cartesian"]).flatmap(for_type)


def _pinned_moments():
    out = []
    # 1-D: points 0,1,2; weights 1; f = 1,2,3; centre 1 ->  sum f, sum f (x-1), sum f (x-1)^2, sum f (x-1)^3
    out.append(
        {
            "type": "cartesian", "order": 3,
            "explicit": {"points": [[0.0], [1.0], [2.0]], "weights": [1.0, 1.0, 1.0], "f": [1.0, 2.0, 3.0], "centers": [[1.0], [0.0]]},
            "expect": [[6.0, 6.0], [2.0, 8.0], [4.0, 14.0], [2.0, 26.0]],
        }
    )  # fmt: skip
    # 1-D order 0 (the branch that used to return a range)
    out.append(
        {
            "type": "cartesian", "order": 0,
            "explicit": {"points": [[0.5], [-1.0]], "weights": [2.0, 1.0], "f": [1.0, 3.0], "centers": [[0.25]]},
            "expect": [[5.0]],
        }
    )  # fmt: skip
    # 2-D: points (1,0),(0,2); weights 1,2; f = 1,1; centre 0: rows (0,0),(1,0),(0,1),(2,0),(1,1),(0,2)
    out.append(
        {
            "type": "cartesian", "order": 2,
            "explicit": {"points": [[1.0, 0.0], [0.0, 2.0]], "weights": [1.0, 2.0], "f": [1.0, 1.0], "centers": [[0.0, 0.0]]},
            "expect": [[3.0], [1.0], [4.0], [1.0], [0.0], [8.0]],
        }
    )  # fmt: skip
    # 3-D: one point (1,2,3), weight 1, f = 1, centre 0: rows 1 | x y z | xx xy xz yy yz zz
    out.append(
        {
            "type": "cartesian", "order": 2,
            "explicit": {"points": [[1.0, 2.0, 3.0]], "weights": [1.0], "f": [1.0], "centers": [[0.0, 0.0, 0.0]]},
            "expect": [[1.0], [1.0], [2.0], [3.0], [1.0], [2.0], [3.0], [4.0], [6.0], [9.0]],
        }
    )  # fmt: skip
    # pure, one point (1,2,3): R_00=1, R_10=z, R_11=x, R_1-1=y
    out.append(
        {
            "type": "pure", "order": 1,
            "explicit": {"points": [[1.0, 2.0, 3.0]], "weights": [1.0], "f": [1.0], "centers": [[0.0, 0.0, 0.0]]},
            "expect": [[1.0], [3.0], [1.0], [2.0]],
        }
    )  # fmt: skip
    # radial, point (3,4,0): 1, 5, 25
    out.append(
        {
            "type": "radial", "order": 2,
            "explicit": {"points": [[3.0, 4.0, 0.0]], "weights": [1.0], "f": [1.0], "centers": [[0.0, 0.0, 0.0]]},
            "expect": [[1.0], [5.0], [25.0]],
        }
    )  # fmt: skip
    # pure-radial, point (0,0,2), order 2: rows (1,0,0) r ; (2,0,0) r^2 ; (2,1,0) r^2 z ; (2,1,1) r^2 x ; (2,1,-1) r^2 y
    out.append(
        {
            "type": "pure-radial", "order": 2,
            "explicit": {"points": [[0.0, 0.0, 2.0]], "weights": [1.0], "f": [1.0], "centers": [[0.0, 0.0, 0.0]]},
            "expect": [[2.0], [4.0], [8.0], [0.0], [0.0]],
        }
    )  # fmt: skip
    # grid points next to the z axis through the centre (regression of the arccos(z/r) conversion: (1e-8,0,1) gave 0)
    out.append(
        {
            "type": "pure", "order": 1,
            "explicit": {"points": [[1e-8, 0.0, 1.0], [0.0, 1e-7, -1.0]], "weights": [1.0, 1.0], "f": [1.0, 2.0], "centers": [[0.0, 0.0, 0.0]]},
            "expect": [[3.0], [-1.0], [1e-8], [2e-7]],
        }
    )  # fmt: skip
    out.append(
        {
            "type": "pure", "order": 1,
            "explicit": {"points": [[1.5, -1.0 + 1e-3, 3.0], [1.5 + 1e-7, -1.0, 1.0]], "weights": [1.0, 1.0], "f": [1.0, 1.0], "centers": [[1.5, -1.0, 2.0]]},
        }
    )  # fmt: skip
    out.append(
        {
            "type": "pure-radial", "order": 2,
            "explicit": {"points": [[0.5 + 3e-6, -1.0, 4.0]], "weights": [1.0], "f": [1.0], "centers": [[0.5, -1.0, 2.0]]},
        }
    )  # fmt: skip
    # every type/dimension/order once with generated data
    k = 0
    for t in TYPES:
        for d in ([1, 2, 3] if t == "cartesian" else [3]):
            for order in range(1 if t == "pure-radial" else 0, 7):
                k += 1
                out.append({"type": t, "d": d, "n": 7, "dseed": 1000 + k, "scale": 1.0, "wmode": "signed", "cmodes": ["rand", "gridpoint", "origin"], "order": order, "np_int": bool(k % 2)})
    # molecular-grid sizes: every point counts, also when there are more than 2^19 of them and their number is not a
    # multiple of any block size (generated grids have at most 24 points)
    for t, order, n in (("cartesian", 1, 600011), ("radial", 2, 524288 + 7), ("pure", 1, 300007)):
        out.append({"type": t, "d": 3, "n": n, "dseed": 77, "scale": 1.0, "wmode": "signed", "cmodes": ["rand"], "order": order, "np_int": False, "axis_pts": []})
    return out


# ---------------------------------------------------------------------------
# generate_orders_horton_order itself
# ---------------------------------------------------------------------------
def body_orders(case, ctx):
    from grid.utils import generate_orders_horton_order

    t, order, dim = case["type"], int(case["order"]), int(case["dim"])
    ctx.cls(f"{t}/dim={dim}")
    ctx.nt(order >= 2)
    got = np.asarray(generate_orders_horton_order(order, t, dim))
    want = np.array(my_orders_single(order, t, dim), dtype=int)
    if t == "radial":
        got, want = got.reshape(-1), want.reshape(-1)
    if t == "pure-radial" and order == 0:
        ctx.check(got.size == 0, "orders-list", f"pure-radial order 0 must be empty, got {got.tolist()}")
        return
    ctx.check(got.shape == want.shape and np.array_equal(got, want), f"orders-list:{t}", f"{t} order={order} dim={dim}: {got.tolist()} != {want.tolist()}")
    ctx.check(np.issubdtype(got.dtype, np.integer), "orders-dtype", f"{t} order={order} dim={dim}: dtype {got.dtype}")


def _cases_orders():
    out = []
    for t in TYPES:
        for dim in ([1, 2, 3] if t == "cartesian" else [3]):
            for order in range(0, 13):
                out.append({"type": t, "order": order, "dim": dim})
    return out


# ---------------------------------------------------------------------------
# dipole helper
# ---------------------------------------------------------------------------
def body_dipole(case, ctx):
    from grid.basegrid import Grid
    from grid.utils import dipole_moment_of_molecule

    mode = case["mode"]
    zs = [int(a[0]) for a in case["atoms"]]
    if mode == "homonuclear":
        zs = [zs[0]] * len(zs)
    coords = np.array([[float(x) for x in a[1:4]] for a in case["atoms"]], dtype=float)
    rng = np.random.default_rng(int(case["dseed"]))
    n = int(case["n"])
    pts = rng.normal(size=(n, 3)) * 2.0
    w = rng.uniform(0.05, 1.0, n)
    rho = rng.uniform(0.0, 2.0, n)
    ztot = float(sum(zs))
    if mode == "neutral":
        w = w * (ztot / float(np.sum(w * rho)))
    ctx.cls("mode:" + mode, f"atoms:{len(zs)}")
    distinct = len({tuple(c) for c in coords.tolist()}) >= 2
    ctx.nt(distinct)
    if len(set(zs)) > 1:
        ctx.cls("heteronuclear")
    grid = Grid(pts.copy(), w.copy())
    got = np.asarray(dipole_moment_of_molecule(grid, rho.copy(), coords.copy(), np.array(zs, dtype=int)), dtype=float)
    if got.shape != (3,):
        ctx.fail("dipole-shape", f"shape {got.shape}, expected (3,)")
        return
    if mode == "homonuclear":
        rc = np.sum(coords, axis=0) / len(zs)
    else:
        ms = np.array([_MASS[z] for z in zs])
        rc = np.sum(coords * ms[:, None], axis=0) / np.sum(ms)
    zarr = np.array(zs, dtype=float)
    nuc = np.sum(zarr[:, None] * (coords - rc[None, :]), axis=0)
    ele = np.sum((w * rho)[:, None] * (pts - rc[None, :]), axis=0)
    ref = nuc - ele
    q = float(np.sum(w * rho))
    extent = float(np.max(np.abs(coords - rc[None, :]))) if len(zs) > 1 else 0.0
    scale = float(np.sum(zarr * np.max(np.abs(coords - rc[None, :]), axis=1)) + np.sum(w * rho * np.max(np.abs(pts - rc[None, :]), axis=1))) + abs(ztot - q) * float(np.max(np.abs(rc)) + extent)
    tol = C_MOM * EPS * (scale + 1e-300)
    if mode == "general" and len(set(zs)) > 1:
        tol += 3e-6 * extent * abs(ztot - q)  # 6-decimal mass table of the library vs my 8-digit table
    err = float(np.max(np.abs(got - ref)))
    _WORST["dipole:" + mode] = max(_WORST.get("dipole:" + mode, 0.0), err / tol)
    if not err <= tol:
        ctx.fail(
            "dipole-value",
            f"mode={mode} Z={zs} coords={coords.tolist()}: got {got.tolist()}, nuclear - electronic first moment about the mass centre {rc.tolist()} = {ref.tolist()} (err {err:.3e}, tol {tol:.3e})",
        )


def _dipole_strategy():
    coord = st.one_of(st.floats(-3.0, 3.0), st.sampled_from([0.0, 1.0, -1.0]))
    atom = st.tuples(st.integers(1, 18), coord, coord, coord).map(list)
    return st.fixed_dictionaries(
        {
            "mode": st.sampled_from(["neutral", "homonuclear", "general", "general"]),
            "atoms": st.lists(atom, min_size=1, max_size=5),
            "n": st.integers(1, 30),
            "dseed": st.integers(0, 2**32 - 1),
        }
    )


def _pinned_dipole():
    return [
        {"mode": "general", "atoms": [[1, 0.0, 0.0, 0.0], [9, 0.0, 0.0, 1.7]], "n": 12, "dseed": 5},  # HF: mass vs charge centre
        {"mode": "general", "atoms": [[8, 0.0, 0.0, 0.2], [1, 0.0, 1.4, -0.9], [1, 0.0, -1.4, -0.9]], "n": 20, "dseed": 6},
        {"mode": "neutral", "atoms": [[6, 0.0, 0.0, 0.0], [8, 0.0, 0.0, 2.1]], "n": 9, "dseed": 7},
        {"mode": "homonuclear", "atoms": [[7, 0.0, 0.0, -1.0], [7, 0.0, 0.0, 1.0]], "n": 9, "dseed": 8},
        {"mode": "general", "atoms": [[2, 0.3, -0.2, 0.5]], "n": 5, "dseed": 9},
    ]


# ---------------------------------------------------------------------------
def selftest():
    sph.selftest()
    sph.selftest_extra()
    assert my_orders_single(2, "cartesian", 3) == [[2, 0, 0], [1, 1, 0], [1, 0, 1], [0, 2, 0], [0, 1, 1], [0, 0, 2]]  # docstring example
    assert my_orders_single(2, "cartesian", 2) == [[2, 0], [1, 1], [0, 2]]
    assert my_orders_single(3, "cartesian", 1) == [[3]]
    assert my_orders_single(2, "pure", 3) == [[2, 0], [2, 1], [2, -1], [2, 2], [2, -2]]
    assert my_orders_single(2, "pure-radial", 3) == [[2, 0, 0], [2, 1, 0], [2, 1, 1], [2, 1, -1]]
    assert len(my_orders(4, "cartesian", 3)) == 35 and len(my_orders(4, "pure", 3)) == 25
    # explicit table vs recurrence at random displacements (anchors the sign/normalisation convention of the oracle)
    rng = np.random.default_rng(0)
    d = rng.normal(size=(20, 3))
    assert np.max(np.abs(sph.regular_solid_explicit(d) - sph.solid_harm_xyz(3, d))) < 1e-12


def subchecks(tier, seed):
    q = tier == "quick"
    return [
        SubCheck("moments", body_moments, strategy=_moments_strategy(), examples=20000 if q else 300000, cases=_pinned_moments(), shards=16 if q else 64),
        SubCheck("orders", body_orders, cases=_cases_orders(), exhaustive=True, shards=4),
        SubCheck("dipole", body_dipole, strategy=_dipole_strategy(), examples=6000 if q else 80000, cases=_pinned_dipole(), shards=16 if q else 32),
    ]
