"""C11 - periodic local grids contain every periodic image inside the sphere exactly once.

Oracle (pbt.oracles.periodic_ref): every integer translation inside a box that provably
contains all images (bound from my own normal-equation pseudo-inverse, widened by 2, with a
run-time assertion that the outermost layer is never hit) is enumerated and filtered by the
plain Euclidean distance.  The library answer is decomposed into (parent index, integer
translation) pairs and compared as a set: nothing twice, every certain image present, nothing
outside; weights = parent weights, stored position = parent point + translation, centre stored.
Images within 1e-9*scale of the sphere are ambiguous and excluded from both directions.
"""
import os

import numpy as np
from hypothesis import strategies as st

from ..core import EPS, SubCheck
from ..oracles import periodic_ref as pr

PROPERTY = "C11"
RULE = (
    "one case = one PeriodicGrid (dimension 1..3 incl. 1-D arrays, 0..dim lattice vectors with entries in [-2,2] and "
    "smallest singular value >= 0.3 by rejection, 1..8 points in [-1.5,2.5]^d, wrap on/off) plus 1..3 queries "
    "(centre: random / a grid point / a periodic image of a grid point / far away; radius: 0, small, about one cell, "
    "several cells capped at ~20000 library translations); non-trivial = some query returns a parent index more than "
    "once (sphere larger than the cell), or the lattice has a negative component or is skewed, or a query with lattice "
    "vectors returns an empty grid; distinct = distinct descriptor; pinned regression cases for the three repaired defects"
)
ASSUMPTIONS = [
    "the parent points are the grid's public .points (after optional wrapping); wrapping itself is checked separately: "
    "wrapped points differ from the input by a lattice vector and have fractional coordinates in [0,1] within 1e-9",
    "Euclidean distances computed by sum of squares in double precision; pairs within 1e-9*max(1,|p|,|c|,r) of the sphere "
    "are excluded from the comparison (an untranslated point bit-identical to the centre counts as inside for every radius, also with lattice vectors)",
    "stored position compared with parent + T@realvecs to 1e-10*(1+|position|) (observed error <= 1e-15)",
    "PeriodicGridWarning and other warnings are ignored; an infinite radius is outside the domain (pinned ValueError)",
]

LIB_ITER_CAP = 20000.0


# ---------------------------------------------------------------------------
# descriptor -> objects (shared with C10 for the selection clause)
def cell_arrays(cell):
    """(P (N,d), W (N,), A (K,d)) from the JSON descriptor."""
    d = int(cell["dim"])
    P = np.array(cell["pts"], dtype=float).reshape(-1, d)
    W = np.array(cell["w"], dtype=float)[: len(P)]
    if len(W) < len(P):
        W = np.concatenate([W, 0.5 + np.arange(len(P) - len(W))])
    A = np.array(cell["rv"], dtype=float).reshape(-1, d) if len(cell["rv"]) else np.zeros((0, d))
    return P, W, A


def build_periodic(cell):
    """Construct the PeriodicGrid for a descriptor; returns (grid, P, W, A, flat)."""
    from grid.periodicgrid import PeriodicGrid

    P, W, A = cell_arrays(cell)
    d = P.shape[1]
    K = A.shape[0]
    flat = bool(cell.get("flat", False)) and d == 1
    if flat:
        pin = P[:, 0].copy()
        rvin = A[:, 0].copy() if K else (None if cell.get("rvnone", True) else np.zeros((0,)))
    else:
        pin = P.copy()
        rvin = A.copy() if K else (None if cell.get("rvnone", True) else np.zeros((0, d)))
    g = PeriodicGrid(pin, W.copy(), rvin, wrap=bool(cell.get("wrap", False)))
    return g, P, W, A, flat


def lattice_classes(A):
    out = []
    K = A.shape[0]
    if K == 0:
        return ["no-lattice"]
    if np.any(A < 0):
        out.append("negative-component")
    skew = False
    for k in range(K):
        if np.count_nonzero(np.abs(A[k]) > 1e-12) > 1:
            skew = True
    if skew:
        out.append("skewed")
    if not out:
        out.append("axis-aligned-positive")
    return out


def check_wrap(ctx, g, P, A, wrap, flat):
    """The public parent points: identical to the input without wrap, lattice-equivalent and in-cell with wrap."""
    Pg = np.asarray(g.points)
    want_shape = (len(P),) if flat else P.shape
    if Pg.shape != want_shape:
        ctx.fail("parent-points-shape", f"grid.points shape {Pg.shape}, expected {want_shape}")
        return None
    Pg2 = Pg.reshape(len(P), -1).astype(float)
    K = A.shape[0]
    if not wrap or K == 0:
        if not np.array_equal(Pg2, P):
            ctx.fail("parent-points-changed", "points differ from the constructor argument although nothing was to be wrapped")
        return Pg2
    B = pr.pinv_rows(A)
    for i in range(len(P)):
        T, res = pr.decompose(Pg2[i], P[i], A, B)
        if res > 1e-10 * (1 + np.max(np.abs(P[i])) + np.max(np.abs(Pg2[i]))):
            ctx.fail("wrap-not-a-lattice-translation", f"point {i}: wrapped - original is not an integer lattice combination (residual {res:.2e})")
            return Pg2
    frac = Pg2 @ B
    if np.any(frac < -1e-9) or np.any(frac > 1 + 1e-9):
        ctx.fail("wrap-not-in-cell", f"fractional coordinates after wrap span [{frac.min():.6g},{frac.max():.6g}]")
    return Pg2


def check_periodic_query(ctx, g, Pg2, W, A, flat, c, r, tag=""):
    """Compare one get_localgrid(c, r) with the brute-force enumeration.  c is a (d,) array."""
    from grid.basegrid import Grid, LocalGrid

    N, d = Pg2.shape
    K = A.shape[0]
    carg = float(c[0]) if flat else np.array(c, dtype=float)
    lg = g.get_localgrid(carg, r)
    if not isinstance(lg, LocalGrid):
        ctx.fail("not-a-localgrid", f"returned {type(lg).__name__}")
        return None
    idx = np.asarray(lg.indices)
    pts = np.asarray(lg.points)
    wts = np.asarray(lg.weights)
    n = len(idx)
    ok = True
    if idx.ndim != 1 or (idx.dtype.kind not in "iu"):
        ctx.fail("indices-not-integer-1d", f"indices dtype {idx.dtype} ndim {idx.ndim}")
        return None
    want_shape = (n,) if flat else (n, d)
    if pts.shape != want_shape or wts.shape != (n,) or lg.size != n:
        ctx.fail("local-shapes", f"points {pts.shape} weights {wts.shape} size {lg.size} for {n} indices (expected points {want_shape})")
        return None
    if not np.array_equal(np.asarray(lg.center, dtype=float), np.asarray(carg, dtype=float)):
        ctx.fail("center-not-stored", f"center {lg.center!r} vs {carg!r}")
    if n and (idx.min() < 0 or idx.max() >= N):
        ctx.fail("index-out-of-range", f"indices span [{idx.min()},{idx.max()}] for a grid of {N}")
        return None
    if not np.array_equal(wts, W[idx]):
        ctx.fail("weights-not-parent", f"{tag} local weights differ from parent weights[indices]")
    req, amb = pr.enumerate_images(Pg2, A, c, r)
    B = pr.pinv_rows(A)
    got = {}
    p2 = pts.reshape(n, d)
    for j in range(n):
        T, res = pr.decompose(p2[j], Pg2[idx[j]], A, B)
        if res > 1e-10 * (1 + np.max(np.abs(p2[j]))):
            ctx.fail("position-not-parent-plus-translation", f"{tag} local point {j} (parent {idx[j]}): |pos - parent - T@realvecs| = {res:.3e} for T={T}")
            ok = False
            continue
        key = (int(idx[j]), T)
        if key in got:
            ctx.fail("image-twice", f"{tag} image {key} returned twice (local points {got[key]} and {j})")
            ok = False
        got[key] = j
    reqs, ambs = set(req), set(amb)
    missing = sorted(reqs - set(got))
    extra = sorted(set(got) - reqs - ambs)
    if missing:
        i, T = missing[0]
        pos = Pg2[i] + (np.array(T) @ A if K else 0.0)
        ctx.fail("image-missing", f"{tag} {len(missing)} image(s) inside the sphere not returned, e.g. parent {i} T={T} at distance {float(pr.dist(pos, c)):.9g} <= r={r!r}; returned {n}, expected {len(reqs)}(+{len(ambs)} ambiguous)")
        ok = False
    if extra:
        i, T = extra[0]
        pos = Pg2[i] + (np.array(T) @ A if K else 0.0)
        ctx.fail("image-outside-sphere", f"{tag} {len(extra)} returned image(s) outside the sphere, e.g. parent {i} T={T} at distance {float(pr.dist(pos, c)):.9g} > r={r!r}")
        ok = False
    if K == 0:
        ref = Grid(Pg2[:, 0].copy() if flat else Pg2.copy(), W.copy()).get_localgrid(carg, r)
        o1, o2 = np.argsort(idx, kind="stable"), np.argsort(np.asarray(ref.indices), kind="stable")
        same = (
            len(ref.indices) == n
            and np.array_equal(idx[o1], np.asarray(ref.indices)[o2])
            and np.array_equal(pts[o1], np.asarray(ref.points)[o2])
            and np.array_equal(wts[o1], np.asarray(ref.weights)[o2])
        )
        if not same and not ambs:
            ctx.fail("differs-from-plain-grid", f"{tag} without lattice vectors: {n} points, plain Grid gives {len(ref.indices)}")
    return {"n": n, "dup": n > len(set(idx.tolist())), "amb": len(ambs), "ok": ok, "nreq": len(reqs)}


def query_center_radius(q, Pg2, A):
    """Centre (d,) and radius of a query descriptor, deterministic in the case."""
    N, d = Pg2.shape
    K = A.shape[0]
    cv = np.array(q["c"], dtype=float)[:d]
    ck = q["ck"]
    if ck == "point":
        c = Pg2[q["pi"] % N].copy()
    elif ck == "image":
        ti = np.array(q["ti"], dtype=int)[:K]
        c = Pg2[q["pi"] % N] + (ti @ A if K else 0.0)
    elif ck == "far":
        c = cv * 20.0
    else:
        c = cv
    L = float(np.mean(np.sqrt(np.sum(A * A, axis=1)))) if K else 1.0
    rk, rf = q["rk"], float(q["rf"])
    if rk == "zero":
        r = 0.0
    elif rk == "small":
        r = 0.02 + 0.3 * rf
    elif rk == "cell":
        r = (0.5 + rf) * L
    elif rk == "cells":
        r = min((1.5 + 2.0 * rf) * L, 6.0)
    else:  # absolute
        r = 4.0 * rf
    # keep the library's Python-level loop over translations affordable
    if K:
        s = pr.plane_spacings(A)
        frac = Pg2 @ pr.pinv_rows(A)
        span = frac.max(axis=0) - frac.min(axis=0)
        for _ in range(60):
            if float(np.prod(2 * r / s + span + 2)) <= LIB_ITER_CAP:
                break
            r *= 0.8
    return np.asarray(c, dtype=float), float(r)


def body(case, ctx):
    cell = case["cell"]
    g, P, W, A, flat = build_periodic(cell)
    d, K = P.shape[1], A.shape[0]
    wrap = bool(cell.get("wrap", False))
    ctx.cls(f"dim{d}/K{K}", "1d-array" if flat else "2d-array", "wrap" if wrap else "nowrap", *lattice_classes(A))
    Pg2 = check_wrap(ctx, g, P, A, wrap, flat)
    if Pg2 is None:
        return
    if not np.array_equal(np.asarray(g.weights), W):
        ctx.fail("parent-weights-changed", "grid.weights differ from the constructor argument")
    rv = np.asarray(g.realvecs, dtype=float).reshape(K, -1) if K else None
    if K and not np.array_equal(rv, A):
        ctx.fail("realvecs-changed", "grid.realvecs differ from the constructor argument")
    nt = K > 0 and (np.any(A < 0) or "skewed" in lattice_classes(A))
    for qi, q in enumerate(case["queries"]):
        c, r = query_center_radius(q, Pg2, A)
        info = check_periodic_query(ctx, g, Pg2, W, A, flat, c, r, tag=f"query {qi} ({q['ck']}/{q['rk']})")
        ctx.cls(f"center-{q['ck']}", f"radius-{q['rk']}")
        if info is None:
            continue
        if info["amb"]:
            ctx.cls("has-ambiguous-image")
        if info["n"] == 0:
            ctx.cls("empty-result")
            if K:
                nt = True
        if info["dup"]:
            ctx.cls("duplicated-parent-index")
            nt = True
        if info["n"] > 0 and not info["dup"]:
            ctx.cls("nonempty-no-duplicates")
        if K and info["n"] > 0 and q["ck"] == "far":
            ctx.cls("far-centre-nonempty")
    ctx.nt(bool(nt))


# ---------------------------------------------------------------------------
def _finite(lo, hi):
    return st.floats(lo, hi, allow_nan=False, allow_infinity=False, width=64)


def _lattice(d, K):
    if K == 0:
        return st.just([])
    raw = st.lists(st.lists(_finite(-2.0, 2.0), min_size=d, max_size=d), min_size=K, max_size=K)
    # mostly-diagonal cells with off-diagonal shear keep the acceptance rate of the rejection high
    def shear(args):
        diag, off, signs = args
        M = np.array(off, dtype=float).reshape(d, d)[:K] * 0.6
        for k in range(K):
            M[k, k] = (0.4 + 1.6 * diag[k]) * (1 if signs[k] else -1)
        return M.tolist()

    structured = st.tuples(
        st.lists(_finite(0.0, 1.0), min_size=K, max_size=K),
        st.lists(_finite(-1.0, 1.0), min_size=d * d, max_size=d * d),
        st.lists(st.booleans(), min_size=K, max_size=K),
    ).map(shear)
    both = st.one_of(raw, structured)
    return both.filter(lambda rv: pr.sigma_min(np.array(rv, dtype=float).reshape(K, d)) >= 0.3 and np.max(np.abs(rv)) <= 2.0)


def _query(d, K):
    return st.fixed_dictionaries(
        {
            "ck": st.sampled_from(["rand", "rand", "point", "image", "far"]),
            "c": st.lists(_finite(-3.0, 3.0), min_size=d, max_size=d),
            "pi": st.integers(0, 7),
            "ti": st.lists(st.integers(-3, 3), min_size=max(K, 1), max_size=max(K, 1)),
            "rk": st.sampled_from(["cell", "cells", "small", "abs", "zero"]),
            "rf": _finite(0.0, 1.0),
        }
    )


def cell_strategy(max_points=8):
    def for_shape(args):
        d, K, flat = args
        return st.fixed_dictionaries(
            {
                "dim": st.just(d),
                "flat": st.just(bool(flat and d == 1)),
                "pts": st.lists(st.lists(_finite(-1.5, 2.5), min_size=d, max_size=d), min_size=1, max_size=max_points),
                "w": st.lists(_finite(0.1, 2.0), min_size=max_points, max_size=max_points),
                "rv": _lattice(d, K),
                "wrap": st.booleans(),
                "rvnone": st.booleans(),
            }
        )

    shapes = [(1, 0, True), (1, 1, True), (1, 0, False), (1, 1, False), (2, 0, False), (2, 1, False), (2, 2, False),
              (3, 0, False), (3, 1, False), (3, 2, False), (3, 3, False)]
    # lattice-free shapes are cheap and simple: sample them less often; full-rank lattices in 2-D/3-D lose most to
    # the singular-value rejection and are the interesting enumerations: sample them more often
    def weight(shape):
        d, K, _ = shape
        if K == 0:
            return 1
        if K == d and d > 1:
            return 5 if d == 3 else 4
        return 3 if (d, K) == (3, 2) else 2

    weighted = [s for s in shapes for _ in range(weight(s))]
    return st.sampled_from(weighted).flatmap(for_shape)


def _strategy():
    def with_queries(cell):
        d, K = cell["dim"], len(cell["rv"])
        return st.fixed_dictionaries({"cell": st.just(cell), "queries": st.lists(_query(d, K), min_size=1, max_size=3)})

    return cell_strategy().flatmap(with_queries)


def _q(ck, c, rk, rf, pi=0, ti=(0, 0, 0)):
    return {"ck": ck, "c": list(c), "pi": pi, "ti": list(ti), "rk": rk, "rf": rf}


def pinned_cases():
    w8 = [1.0, 1.5, 0.7, 0.3, 1.1, 0.9, 1.3, 0.6]
    return [
        # FIXED-C11-c06e4ad: a sphere that contains no image returns an empty LocalGrid (was AssertionError/ValueError)
        {"cell": {"dim": 2, "flat": False, "pts": [[0.1, 0.1], [0.2, 0.2]], "w": w8, "rv": [[1.0, 0.0], [0.0, 1.0]], "wrap": False, "rvnone": True},
         "queries": [_q("rand", [0.6, 0.6], "small", 0.1), _q("rand", [0.6, 0.6], "zero", 0.0), _q("rand", [0.6, 0.6], "cells", 0.5)]},
        {"cell": {"dim": 3, "flat": False, "pts": [[0.1, 0.1, 0.3]], "w": w8, "rv": [[1.0, 0.0, 0.0], [0.3, 1.0, 0.0], [0.0, -0.2, 1.5]], "wrap": True, "rvnone": True},
         "queries": [_q("rand", [0.6, 0.6, 0.9], "small", 0.0), _q("far", [2.6, -1.6, 0.9], "small", 0.0)]},
        {"cell": {"dim": 1, "flat": True, "pts": [[0.1], [0.2]], "w": w8, "rv": [[1.0]], "wrap": False, "rvnone": True},
         "queries": [_q("rand", [0.6], "small", 0.1)]},
        # FIXED-C11-8d317ac: 1-D array points with a negative lattice vector
        {"cell": {"dim": 1, "flat": True, "pts": [[0.0], [0.225], [0.45], [0.675], [0.9]], "w": w8, "rv": [[-1.0]], "wrap": False, "rvnone": True},
         "queries": [_q("rand", [0.5], "small", 0.9333), _q("rand", [0.5], "cells", 0.5), _q("far", [2.5], "cell", 0.5)]},
        {"cell": {"dim": 1, "flat": True, "pts": [[-1.2], [0.3], [2.2]], "w": w8, "rv": [[-0.7]], "wrap": True, "rvnone": True},
         "queries": [_q("rand", [0.1], "cells", 0.9), _q("point", [0.0], "zero", 0.0, pi=1)]},
        # FIXED-C11-9eb194b: 1-D array points without lattice vectors can be constructed and behave as Grid
        {"cell": {"dim": 1, "flat": True, "pts": [[0.0], [0.25], [0.5], [0.75], [1.0]], "w": w8, "rv": [], "wrap": False, "rvnone": True},
         "queries": [_q("rand", [0.5], "small", 0.6), _q("rand", [5.0], "small", 0.1)]},
        {"cell": {"dim": 1, "flat": True, "pts": [[0.0], [0.25], [0.5]], "w": w8, "rv": [], "wrap": True, "rvnone": False},
         "queries": [_q("point", [0.0], "zero", 0.0, pi=2)]},
        # the examples of the module docstring / test-suite style: sphere covering several cells
        {"cell": {"dim": 2, "flat": False, "pts": [[0.2, 0.1], [0.7, 0.8], [1.6, -0.4]], "w": w8, "rv": [[-1.0, 0.0], [0.2, 1.0]], "wrap": False, "rvnone": True},
         "queries": [_q("rand", [0.6, 0.6], "cells", 0.3), _q("image", [0.0, 0.0], "zero", 0.0, pi=1, ti=(2, -1, 0))]},
    ]


def selftest():
    pr.selftest()


def subchecks(tier, seed):
    n = 12000 if tier == "quick" else 300000
    pinned = [] if os.environ.get("VERIF_NO_PINNED") else pinned_cases()  # development aid: generator-only sensitivity
    return [
        SubCheck("images", body, strategy=_strategy(), examples=n, cases=pinned, shards=16 if tier == "quick" else 64),
    ]
