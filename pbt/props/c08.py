"""C08 - real spherical harmonics, their angular derivatives, solid harmonics, Cartesian->spherical.

Oracles (none shares code with grid/utils.py):
  * pbt.oracles.sph.real_sph_harm_ld     fully normalised recurrence in extended precision (documented convention,
                                          Horton-2 rows), itself re-validated against mpmath on generated points
  * pbt.oracles.sph.mp_real_sph_harm     mpmath reference from the textbook un-normalised recurrence + exact factorials
  * pbt.oracles.sph.mp_real_sph_harm_derivs   high-precision difference quotient of that reference
  * scipy.special.eval_legendre          right-hand side of the addition theorem
  * pbt.oracles.sph.regular_solid_explicit    explicit Cartesian table of the solid harmonics, l <= 3
  * the spherical parametrisation itself (round trip) for convert_cart_to_sph

Region asserted: any real azimuth; polar angle phi0 in [0, pi] and its images phi0 + 2 pi k (the generated float is
kept on the side sin(phi) >= 0).  Polar angles in (pi, 2 pi) mod 2 pi are NOT generated: the two implementations
continue differently there (sin phi vs |sin phi|, i.e. a factor (-1)^m) and the documentation only promises
"periodicity", which both satisfy.
"""
import functools
import math

import numpy as np
from hypothesis import strategies as st

from ..core import EPS, SubCheck
from ..oracles import sph

PROPERTY = "C08"
RULE = (
    "Hypothesis cases. values/addition: l_max drawn from the branches 0..12 : 13..60 : 61..200 (quick) or ..400 (thorough) "
    "with strategy weights 7:2:1 (measured shares in the class histogram), 1..12 / 6 / 3 points per case; mp: l_max 0..40 "
    "(thorough 0..60) at 1-3 points; deriv: l_max 0..12 (thorough 0..30), 1-4 points; solid: l_max 0..12 (thorough 0..40), r in "
    "{0, 1e-8, 1e-3, 1, 50, 1e3} or uniform (0,5). Every point = azimuth (any real in [-20,20] or a special value 0, +-pi, 2pi, +-20, 1e-12 ...) "
    "and polar angle = base (generic in [0,pi] | north pole + d | south pole - d | equator +- d with d in "
    "{0,1e-15,1e-12,1e-9,1e-6,1e-3} or uniform) + 2 pi k, k in -3..3. cart2sph: points built as centre + r u or raw "
    "coordinates incl. the centre itself, the +-z axis through the centre, the xy-plane and the negative x axis. "
    "Non-trivial: l_max >= 2 and at least one point off the poles (values, mp, addition, deriv, solid: also r > 0); "
    "cart2sph: a non-zero centre and at least one point different from it. distinct = distinct descriptor."
)
RULE = RULE + " " + 'values-many: 200-6000 points at l_max <= 80 in one call; cart2sph: 40 % integer-dtype lattice points; polar derivative compared for |tan phi| >= 5e-10.'

ASSUMPTIONS = [
    "documented convention: Y_lm = N_lm P_l^|m|(cos phi) {1, sqrt2 cos(m theta), sqrt2 sin(|m| theta)}, theta azimuth, phi polar, "
    "no Condon-Shortley phase, orthonormal, rows m = 0,1,-1,...,l,-l (Horton 2)",
    "numpy cos/sin/arctan2, mpmath arithmetic and scipy.special.eval_legendre are correct",
    "polar angles in (pi,2pi) mod 2pi are outside the asserted region (implementations differ by (-1)^m there; docs promise only periodicity)",
    "within |tan phi| < 5e-10 of a pole only finiteness of the polar derivative is asserted (documented convention drops the cotangent term for |tan phi| < 1e-10)",
    "convert_cart_to_sph round trip: |c + r u(theta,phi) - p| <= 100 eps (|p| + |c| + r) everywhere, including next to the polar axis "
    "(the former arccos(z/r) form lost half the digits there: fixed defect, pinned regression cases)",
]

# error-model constants: |got - ref| <= C * eps * unit, units defined next to each comparison
C_VAL = 300.0
C_ADD = 200.0
C_DER = 500.0
C_SOL = 200.0

# convert_cart_to_sph used phi = arccos(z/r) (transverse round-trip error r*min(eps/sin phi, sqrt(2 eps)) next to the
# polar axis; reported, repaired in /repo by an arctan2 form).  True would re-admit that error model.
ARCCOS_MODEL = False

_WORST = {}  # label -> worst observed err/(eps*unit); calibration aid only, never read by a body


@functools.lru_cache(maxsize=64)
def _lm(l_max):
    lm = sph.lm_list(l_max)
    ls = np.array([l for l, _ in lm], dtype=float)
    ms = np.array([m for _, m in lm], dtype=float)
    return ls, ms


def _polar(base, d, k):
    """The float polar angle of a descriptor; always sin(phi) >= 0 (asserted region)."""
    if base == "n":
        p0 = abs(d)
    elif base == "s":
        p0 = math.pi - abs(d)
    elif base == "e":
        p0 = math.pi / 2 + d
    else:
        p0 = min(max(d, 0.0), math.pi)
    p = p0 + 2.0 * math.pi * k
    for _ in range(8):
        if math.sin(p) >= 0.0:
            break
        p = float(np.nextafter(p, math.inf if math.cos(p) > 0 else -math.inf))
    return p


def _angles(pts):
    th = np.array([float(p[0]) for p in pts], dtype=float)
    ph = np.array([_polar(p[1], float(p[2]), int(p[3])) for p in pts], dtype=float)
    return th, ph


def _classify(ctx, pts, th, ph):
    for p, t, f in zip(pts, th, ph):
        s = abs(math.sin(f))
        if s == 0.0 or p[2] == 0 and p[1] in "ns":
            ctx.cls("polar:pole-exact")
        elif s < 1e-8:
            ctx.cls("polar:pole-1e-8-nbhd")
        elif s < 1e-3:
            ctx.cls("polar:pole-1e-3-nbhd")
        elif abs(math.cos(f)) < 1e-8:
            ctx.cls("polar:equator")
        else:
            ctx.cls("polar:generic")
        if p[3] != 0:
            ctx.cls("polar:2pi-image")
        if t < 0:
            ctx.cls("azimuth:negative")
        elif t > 2 * math.pi:
            ctx.cls("azimuth:>2pi")
        else:
            ctx.cls("azimuth:principal")


def _lclass(ctx, l_max):
    ctx.cls("l_max:0-1" if l_max < 2 else "l_max:2-12" if l_max <= 12 else "l_max:13-60" if l_max <= 60 else "l_max:61+")


def _cmp(ctx, got, ref, unit, c, label, what):
    got = np.asarray(got, dtype=float)
    ref = np.asarray(ref, dtype=float)
    if got.shape != ref.shape:
        ctx.fail(label + ":shape", f"{what}: shape {got.shape}, expected {ref.shape}")
        return
    with np.errstate(invalid="ignore", divide="ignore"):
        ratio = np.abs(got - ref) / (EPS * unit)
    ratio = np.where(np.isnan(ratio), np.inf, ratio)
    w = float(np.max(ratio)) if ratio.size else 0.0
    if w > _WORST.get(label, 0.0):
        _WORST[label] = w
    if w > c:
        idx = np.unravel_index(int(np.argmax(ratio)), ratio.shape)
        ctx.fail(
            label,
            f"{what}: |got-ref|={abs(got[idx] - ref[idx]):.3e} = {w:.3g} eps*unit (allowed {c:g}) got={got[idx]!r} ref={ref[idx]!r} "
            f"at index {tuple(int(i) for i in idx)}; {int(np.sum(ratio > c))} entries bad",
        )


def _unit_values(l_max, th, ph=None):
    """S_l (l + 1 + |m| |theta|): |Y_lm| <= S_l = sqrt((2l+1)/4pi); the recurrence has O(l) steps and
    fl(m*theta) carries a relative error eps, i.e. an absolute phase error eps |m theta|.

    With ``ph`` given: error model of an implementation that forms cos(phi) in double precision (SciPy):
    the rounding of cos(phi) is a perturbation eps*cot(phi) of phi, and |dY/dphi| <= l S_l (Bernstein),
    capped by |P_l'| <= l(l+1)/2 at the poles: additional S_l (l+1) min((l+1)/2, 1/sin(phi))."""
    ls, ms = _lm(l_max)
    s_l = np.sqrt((2 * ls + 1) / (4 * math.pi))
    unit = s_l[:, None] * (ls[:, None] + 1.0 + np.abs(ms)[:, None] * np.abs(th)[None, :])
    if ph is not None:
        with np.errstate(divide="ignore"):
            inv = 1.0 / np.abs(np.sin(ph))
        unit = unit + (s_l * (ls + 1.0))[:, None] * np.minimum((ls[:, None] + 1.0) / 2.0, inv[None, :])
    return unit


def body_values_many(case, ctx):
    """The same comparison on MANY points at once (hundreds to thousands): vectorised/blocked evaluation paths."""
    from grid.utils import generate_real_spherical_harmonics as y_rec
    from grid.utils import generate_real_spherical_harmonics_scipy as y_sci

    l_max, n = int(case["l_max"]), int(case["n"])
    rng = np.random.default_rng(int(case["dseed"]))
    th = rng.uniform(-20.0, 20.0, n)
    ph = rng.uniform(0.0, math.pi, n)
    special = [0.0, math.pi / 2, 1e-9, 1.0, 2.0, 3.0, 0.5]
    for k, v in enumerate(special):  # a few special polar angles spread over the array (incl. its last block)
        ph[(k * n) // len(special)] = v
    ph[-1] = math.pi / 3
    _lclass(ctx, l_max)
    ctx.cls("many-points", f"block-elements:{'>2^22' if n * (l_max + 1) * (2 * l_max + 1) > 2**22 else '<=2^22'}")
    ctx.nt(l_max >= 2)
    ref = sph.real_sph_harm_ld(l_max, th, ph)
    a = np.asarray(y_rec(l_max, th.copy(), ph.copy()), dtype=float)
    b = np.asarray(y_sci(l_max, th.copy(), ph.copy()), dtype=float)
    _cmp(ctx, a, ref, _unit_values(l_max, th), C_VAL, "recursive-vs-definition", f"generate_real_spherical_harmonics(l_max={l_max}) on {n} points")
    _cmp(ctx, b, ref, _unit_values(l_max, th, ph), C_VAL, "scipy-vs-definition", f"generate_real_spherical_harmonics_scipy(l_max={l_max}) on {n} points")


def _many_strategy():
    def for_l(l_max):
        cap = max(50, int(6e6 // (l_max + 1) ** 2))
        return st.fixed_dictionaries({"l_max": st.just(l_max), "n": st.integers(min(200, cap), min(6000, cap)), "dseed": st.integers(0, 2**31 - 1)})

    return st.one_of(st.integers(2, 12), st.integers(13, 40), st.integers(41, 80)).flatmap(for_l)


# ---------------------------------------------------------------------------
# values: both implementations vs the float recurrence and vs each other
# ---------------------------------------------------------------------------
def body_values(case, ctx):
    from grid.utils import generate_real_spherical_harmonics as y_rec
    from grid.utils import generate_real_spherical_harmonics_scipy as y_sci

    l_max = int(case["l_max"])
    th, ph = _angles(case["pts"])
    _lclass(ctx, l_max)
    _classify(ctx, case["pts"], th, ph)
    ctx.nt(l_max >= 2 and bool(np.any(np.abs(np.sin(ph)) > 1e-3)))
    ref = sph.real_sph_harm_ld(l_max, th, ph)
    # both implementations are called through angle arrays that held OTHER angles in an earlier call with the same
    # l_max and were re-filled in place: the result belongs to the angles, not to the array objects
    tbuf, pbuf = th[::-1] * 0.5 + 0.1, np.abs(ph[::-1] - 0.3) % math.pi
    y_rec(l_max, tbuf, pbuf)
    y_sci(l_max, tbuf, pbuf)
    tbuf[...] = th
    pbuf[...] = ph
    a = np.asarray(y_rec(l_max, tbuf, pbuf), dtype=float)
    b = np.asarray(y_sci(l_max, tbuf, pbuf), dtype=float)
    ctx.check(np.array_equal(tbuf, th) and np.array_equal(pbuf, ph), "angle-arrays-modified", "an implementation changed its angle arrays in place")
    unit = _unit_values(l_max, th)
    unit_d = _unit_values(l_max, th, ph)
    _cmp(ctx, a, ref, unit, C_VAL, "recursive-vs-definition", f"generate_real_spherical_harmonics(l_max={l_max})")
    _cmp(ctx, b, ref, unit_d, C_VAL, "scipy-vs-definition", f"generate_real_spherical_harmonics_scipy(l_max={l_max})")
    if a.shape == b.shape:
        _cmp(ctx, a, b, unit_d, C_VAL, "implementations-disagree", f"recursive vs scipy implementation (l_max={l_max})")
    if l_max <= 12:
        # azimuths given as whole radians in an integer-dtype array are the same angles as those floats
        thi = np.rint(th).astype(np.int64)
        for fn, nm in ((y_rec, "recursive"), (y_sci, "scipy")):
            want = np.asarray(fn(l_max, thi.astype(float), ph.copy()), dtype=float)
            try:
                got_i = np.asarray(fn(l_max, thi.copy(), ph.copy()), dtype=float)
            except (TypeError, ValueError):
                ctx.cls("int-azimuth:rejected-loudly")
                continue
            _cmp(ctx, got_i, want, _unit_values(l_max, thi.astype(float)), C_VAL, f"{nm}-integer-dtype-azimuth", f"{nm} implementation, azimuth {thi.tolist()} as int64 vs float64 (l_max={l_max})")


def body_mp(case, ctx):
    from grid.utils import generate_real_spherical_harmonics as y_rec
    from grid.utils import generate_real_spherical_harmonics_scipy as y_sci

    l_max = int(case["l_max"])
    th, ph = _angles(case["pts"])
    _lclass(ctx, l_max)
    _classify(ctx, case["pts"], th, ph)
    ctx.nt(l_max >= 2 and bool(np.any(np.abs(np.sin(ph)) > 1e-3)))
    lm = sph.lm_list(l_max)
    ref = np.empty((len(lm), len(th)))
    for i in range(len(th)):
        d = sph.mp_real_sph_harm(l_max, float(th[i]), float(ph[i]), dps=40)
        for (l, m), v in d.items():
            ref[sph.row_index(l, m), i] = float(v)
    unit = _unit_values(l_max, th)
    a = np.asarray(y_rec(l_max, th.copy(), ph.copy()), dtype=float)
    b = np.asarray(y_sci(l_max, th.copy(), ph.copy()), dtype=float)
    _cmp(ctx, a, ref, unit, C_VAL, "recursive-vs-mpmath", f"generate_real_spherical_harmonics(l_max={l_max})")
    _cmp(ctx, b, ref, _unit_values(l_max, th, ph), C_VAL, "scipy-vs-mpmath", f"generate_real_spherical_harmonics_scipy(l_max={l_max})")
    # the extended-precision float oracle used by the other sub-checks is re-validated on the generated points
    f = sph.real_sph_harm_ld(l_max, th, ph)
    w = float(np.max(np.abs(f - ref) / (EPS * unit)))
    _WORST["oracle-ld-vs-mpmath"] = max(_WORST.get("oracle-ld-vs-mpmath", 0.0), w)
    if w > 5.0:
        raise AssertionError(f"float (longdouble) oracle disagrees with the mpmath reference: {w:.3g} eps*unit at l_max={l_max}")


# ---------------------------------------------------------------------------
# addition theorem
# ---------------------------------------------------------------------------
def body_addition(case, ctx):
    from grid.utils import generate_real_spherical_harmonics as y_rec
    from grid.utils import generate_real_spherical_harmonics_scipy as y_sci
    from scipy.special import eval_legendre

    l_max = int(case["l_max"])
    n = min(len(case["a"]), len(case["b"]))
    tha, pha = _angles(case["a"][:n])
    thb, phb = _angles(case["b"][:n])
    _lclass(ctx, l_max)
    _classify(ctx, case["a"][:n] + case["b"][:n], np.concatenate([tha, thb]), np.concatenate([pha, phb]))
    ua = np.stack([np.sin(pha) * np.cos(tha), np.sin(pha) * np.sin(tha), np.cos(pha)])
    ub = np.stack([np.sin(phb) * np.cos(thb), np.sin(phb) * np.sin(thb), np.cos(phb)])
    cosg = np.clip(np.sum(ua * ub, axis=0), -1.0, 1.0)
    ctx.nt(l_max >= 2 and bool(np.any(np.abs(cosg) < 1 - 1e-6)))
    if np.any(np.abs(cosg) > 1 - 1e-6):
        ctx.cls("gamma:(anti)parallel")
    if np.any(np.abs(cosg) < 1e-6):
        ctx.cls("gamma:orthogonal")
    ls = np.arange(l_max + 1, dtype=float)
    rhs = np.array([(2 * l + 1) / (4 * math.pi) * eval_legendre(int(l), cosg) for l in ls])
    # unit: (2l+1) products of two values with error eps*S_l*(l+1+l|theta|) each, plus |P_l'| <= l(l+1)/2 times a
    # few eps in cos(gamma)
    unit = ((2 * ls + 1) / (4 * math.pi) * (ls + 1) ** 2)[:, None] * (1.0 + np.abs(tha) + np.abs(thb))[None, :]
    for name, fn in (("recursive", y_rec), ("scipy", y_sci)):
        ya = np.asarray(fn(l_max, tha.copy(), pha.copy()), dtype=float)
        yb = np.asarray(fn(l_max, thb.copy(), phb.copy()), dtype=float)
        if ya.shape != ((l_max + 1) ** 2, n) or yb.shape != ya.shape:
            ctx.fail(f"addition-{name}:shape", f"shape {ya.shape}")
            continue
        prod = ya * yb
        lhs = np.array([np.sum(prod[l * l : (l + 1) ** 2], axis=0) for l in range(l_max + 1)])
        _cmp(ctx, lhs, rhs, unit, C_ADD, f"addition-theorem-{name}", f"sum_m Y_lm(a)Y_lm(b) vs (2l+1)/4pi P_l(cos gamma), l_max={l_max}")


# ---------------------------------------------------------------------------
# derivatives vs high-precision difference quotients of the mpmath reference
# ---------------------------------------------------------------------------
def body_deriv(case, ctx):
    from grid.utils import generate_derivative_real_spherical_harmonics as dy

    l_max = int(case["l_max"])
    th, ph = _angles(case["pts"])
    _lclass(ctx, l_max)
    _classify(ctx, case["pts"], th, ph)
    out = np.asarray(dy(l_max, th.copy(), ph.copy()), dtype=float)
    nrow = (l_max + 1) ** 2
    if out.shape != (2, nrow, len(th)):
        ctx.fail("derivative:shape", f"shape {out.shape}, expected {(2, nrow, len(th))}")
        return
    ctx.check(bool(np.all(np.isfinite(out))), "derivative-not-finite", f"non-finite derivative at l_max={l_max} theta={th.tolist()} phi={ph.tolist()}")
    ls, ms = _lm(l_max)
    s_l = np.sqrt((2 * ls + 1) / (4 * math.pi))
    # the polar derivative is asserted everywhere outside the library's documented pole mask (|tan phi| < 1e-10,
    # where the cotangent term is dropped by convention), with a 5x guard band; the error model grows like 1/sin(phi)
    with np.errstate(invalid="ignore", divide="ignore"):
        away = np.abs(np.tan(ph)) >= 5e-10
    if np.any(away & (np.abs(np.sin(ph)) <= 1e-3)):
        ctx.cls("deriv:polar-derivative-compared-within-1e-3-of-a-pole")
    ctx.nt(l_max >= 2 and bool(np.any(away)))
    rt = np.empty((nrow, len(th)))
    rp = np.empty((nrow, len(th)))
    for i in range(len(th)):
        dth, dph = sph.mp_real_sph_harm_derivs(l_max, float(th[i]), float(ph[i]))
        for (l, m), v in dth.items():
            rt[sph.row_index(l, m), i] = float(v)
        for (l, m), v in dph.items():
            rp[sph.row_index(l, m), i] = float(v)
    base = ls[:, None] + 1.0 + np.abs(ms)[:, None] * np.abs(th)[None, :]
    # d/dtheta multiplies the value error by |m|; it is the true derivative everywhere (also at the poles)
    unit_t = s_l[:, None] * np.maximum(np.abs(ms), 1.0)[:, None] * base
    _cmp(ctx, out[0], rt, unit_t, C_DER, "derivative-azimuth", f"d/dtheta, l_max={l_max}")
    # d/dphi = |m| cot(phi) Y + raising term: value error times (l+1)/|sin phi|
    if np.any(away):
        unit_p = s_l[:, None] * (ls[:, None] + 1.0) * base / np.abs(np.sin(ph))[None, :]
        _cmp(ctx, out[1][:, away], rp[:, away], unit_p[:, away], C_DER, "derivative-polar", f"d/dphi away from the poles, l_max={l_max}")
    if np.any(~away):
        ctx.cls("deriv:pole-region-finiteness-only")


# ---------------------------------------------------------------------------
# solid harmonics
# ---------------------------------------------------------------------------
def body_solid(case, ctx):
    from grid.utils import solid_harmonics

    l_max = int(case["l_max"])
    th, ph = _angles([p[1:] for p in case["pts"]])
    r = np.array([abs(float(p[0])) for p in case["pts"]])
    _lclass(ctx, l_max)
    _classify(ctx, [p[1:] for p in case["pts"]], th, ph)
    ctx.cls("r:zero" if np.any(r == 0) else "r:positive")
    ctx.nt(l_max >= 2 and bool(np.any((np.abs(np.sin(ph)) > 1e-3) & (r > 0))))
    got = np.asarray(solid_harmonics(l_max, np.stack([r, th, ph], axis=1)), dtype=float)
    ls, ms = _lm(l_max)
    with np.errstate(over="ignore"):
        rl = np.where(ls[:, None] == 0, 1.0, r[None, :] ** ls[:, None])
    ref = np.sqrt(4 * math.pi / (2 * ls + 1))[:, None] * rl * sph.real_sph_harm_ld(l_max, th, ph)
    unit = rl * (ls[:, None] + 1.0 + np.abs(ms)[:, None] * np.abs(th)[None, :]) + 1e-300
    _cmp(ctx, got, ref, unit, C_SOL, "solid-vs-definition", f"solid_harmonics(l_max={l_max}) vs sqrt(4pi/(2l+1)) r^l Y_lm")
    # explicit Cartesian polynomials for l <= 3
    lt = min(l_max, 3)
    k = (lt + 1) ** 2
    xyz = np.stack([r * np.sin(ph) * np.cos(th), r * np.sin(ph) * np.sin(th), r * np.cos(ph)], axis=1)
    tab = sph.regular_solid_explicit(xyz)[:k]
    if got.shape[0] >= k:
        _cmp(ctx, got[:k], tab, unit[:k] * (1.0 + np.abs(th))[None, :], C_SOL, "solid-vs-cartesian-table", "solid_harmonics vs explicit polynomials (l<=3)")


# ---------------------------------------------------------------------------
# Cartesian -> spherical
# ---------------------------------------------------------------------------
def _c2s_points(case):
    c = np.array(case["center"] if case["center"] is not None else [0.0, 0.0, 0.0], dtype=float)
    pts = []
    kinds = []
    for p in case["pts"]:
        kind = p[0]
        if kind == "sph":
            r, t, f = abs(float(p[1])), float(p[2]), _polar(p[3], float(p[4]), 0)
            pts.append(c + r * np.array([math.sin(f) * math.cos(t), math.sin(f) * math.sin(t), math.cos(f)]))
        elif kind == "xyz":
            pts.append(np.array([float(p[1]), float(p[2]), float(p[3])]))
        elif kind == "center":
            pts.append(c.copy())
        elif kind == "axis":  # on the +-z axis through the centre
            pts.append(c + np.array([0.0, 0.0, float(p[1])]))
        elif kind == "plane":  # in the xy-plane through the centre
            pts.append(c + np.array([float(p[1]), float(p[2]), 0.0]))
        elif kind == "negx":  # branch cut of the azimuth
            pts.append(c + np.array([-abs(float(p[1])), 0.0, float(p[2])]))
        kinds.append(kind)
    return c, np.array(pts, dtype=float).reshape(-1, 3), kinds


def body_cart2sph(case, ctx):
    from grid.utils import convert_cart_to_sph

    c, pts, kinds = _c2s_points(case)
    for k in kinds:
        ctx.cls("pt:" + k)
    mode = case["center_mode"]
    ctx.cls("center:" + ("none" if case["center"] is None else mode))
    arg = pts.copy()
    if case.get("int_pts"):
        # lattice points written as integers (integer dtype) about a (generally non-integer) centre
        pts = np.rint(np.clip(pts, -1e6, 1e6))
        arg = pts.astype(np.int32 if case["int_pts"] == "int32" else np.int64)
        ctx.cls("points:integer-dtype")
    if case["center"] is None:
        out = convert_cart_to_sph(arg)
    elif mode == "list":
        out = convert_cart_to_sph(arg, [float(x) for x in c])
    else:
        out = convert_cart_to_sph(arg, c.copy())
    out = np.asarray(out, dtype=float)
    if out.shape != pts.shape:
        ctx.fail("cart2sph:shape", f"shape {out.shape}, expected {pts.shape}")
        return
    d = pts - c
    rr = np.sqrt(np.sum(d * d, axis=1))
    dmax = np.max(np.abs(d), axis=1)
    if np.any((dmax > 0) & (dmax < 1e-140)):
        ctx.skip("displacement in the underflow regime of |d|^2")
        return
    ctx.nt(bool(np.any(c != 0)) and bool(np.any(rr > 0)))
    r, t, f = out.T
    if not np.all(np.isfinite(out)):
        ctx.fail("cart2sph-not-finite", f"non-finite output for points {pts.tolist()} centre {c.tolist()}")
        return
    ctx.check(bool(np.all(r >= 0)), "cart2sph-range-r", f"negative radius {r.tolist()}")
    ctx.check(bool(np.all((t >= -math.pi) & (t <= math.pi))), "cart2sph-range-azimuth", f"azimuth outside [-pi,pi]: {t.tolist()}")
    ctx.check(bool(np.all((f >= 0) & (f <= math.pi))), "cart2sph-range-polar", f"polar angle outside [0,pi]: {f.tolist()}")
    zero = rr == 0.0
    if np.any(zero):
        ctx.check(
            bool(np.all(out[zero] == 0.0)),
            "cart2sph-centre-not-zero-angles",
            f"the centre itself must map to (0,0,0), got {out[zero].tolist()}",
        )
    back = c[None, :] + r[:, None] * np.stack([np.sin(f) * np.cos(t), np.sin(f) * np.sin(t), np.cos(f)], axis=1)
    scale = np.max(np.abs(pts), axis=1) + np.max(np.abs(c)) + rr
    with np.errstate(divide="ignore", invalid="ignore"):
        sinphi = np.where(rr > 0, np.sqrt(d[:, 0] ** 2 + d[:, 1] ** 2) / np.where(rr > 0, rr, 1.0), 1.0)
        acos_term = rr * np.minimum(100 * EPS / np.maximum(sinphi, 1e-300), 10 * math.sqrt(EPS))
    tol = 100 * EPS * scale + (acos_term if ARCCOS_MODEL else 0.0)
    err = np.max(np.abs(back - pts), axis=1)
    bad = ~(err <= tol)
    w = float(np.max(err / np.maximum(tol, 1e-300))) if len(err) else 0.0
    _WORST["cart2sph"] = max(_WORST.get("cart2sph", 0.0), w)
    if np.any(bad):
        i = int(np.argmax(err / np.maximum(tol, 1e-300)))
        ctx.fail(
            "cart2sph-not-inverse",
            f"centre {c.tolist()} point {pts[i].tolist()} -> (r,theta,phi)={out[i].tolist()} maps back to {back[i].tolist()} (err {err[i]:.3e}, tol {tol[i]:.3e})",
        )
    ctx.close(r, rr, 8 * EPS * scale, "cart2sph-radius", "radius vs |p - c|")


# ---------------------------------------------------------------------------
# strategies
# ---------------------------------------------------------------------------
_SPECIAL_TH = [0.0, math.pi, -math.pi, 2 * math.pi, math.pi / 2, -math.pi / 2, 20.0, -20.0, 1e-12, -1e-12, 6 * math.pi, -6 * math.pi, 3 * math.pi / 2]
_SMALL = [0.0, 0.0, 1e-15, 1e-12, 1e-9, 1e-6, 1e-3]


def _theta_st():
    return st.one_of(st.floats(-20.0, 20.0), st.floats(-20.0, 20.0), st.sampled_from(_SPECIAL_TH))


def _polar_st(images=True):
    k = st.sampled_from([0, 0, 0, 0, 1, -1, 2, -2, 3, -3]) if images else st.just(0)
    small = st.one_of(st.sampled_from(_SMALL), st.floats(0.0, 1e-3))
    base = st.one_of(
        st.tuples(st.just("g"), st.floats(0.0, math.pi)),
        st.tuples(st.just("g"), st.floats(0.0, math.pi)),
        st.tuples(st.just("n"), small),
        st.tuples(st.just("s"), small),
        st.tuples(st.just("e"), st.one_of(st.sampled_from([0.0, 1e-12, -1e-12, 1e-9, -1e-9]), st.floats(-1e-3, 1e-3))),
    )
    return st.tuples(base, k).map(lambda bk: [bk[0][0], bk[0][1], bk[1]])


def _pt_st(images=True):
    return st.tuples(_theta_st(), _polar_st(images)).map(lambda tp: [tp[0]] + tp[1])


def _lmax_st(hi):
    return st.one_of(
        *([st.integers(0, 12)] * 7 + [st.integers(13, 60)] * 2 + [st.integers(61, hi)])
    )


def _values_strategy(hi):
    def pts_for(l_max):
        npts = 12 if l_max <= 12 else (6 if l_max <= 60 else 3)
        return st.fixed_dictionaries({"l_max": st.just(l_max), "pts": st.lists(_pt_st(), min_size=1, max_size=npts)})

    return _lmax_st(hi).flatmap(pts_for)


def _mp_strategy(hi):
    return st.fixed_dictionaries(
        {"l_max": st.one_of(st.integers(0, 12), st.integers(0, 12), st.integers(13, hi)), "pts": st.lists(_pt_st(), min_size=1, max_size=3)}
    )


def _addition_strategy(hi):
    def for_l(l_max):
        npts = 8 if l_max <= 12 else (4 if l_max <= 60 else 2)
        return st.integers(1, npts).flatmap(
            lambda n: st.fixed_dictionaries(
                {
                    "l_max": st.just(l_max),
                    "a": st.lists(_pt_st(), min_size=n, max_size=n),
                    "b": st.lists(_pt_st(), min_size=n, max_size=n),
                }
            )
        )

    return _lmax_st(hi).flatmap(for_l)


def _deriv_strategy(hi):
    return st.fixed_dictionaries({"l_max": st.one_of(st.integers(0, 12), st.integers(0, 12), st.integers(0, hi)), "pts": st.lists(_pt_st(), min_size=1, max_size=4)})


def _solid_strategy(hi):
    r = st.one_of(st.floats(0.0, 5.0), st.floats(0.0, 5.0), st.sampled_from([0.0, 1.0, 1e-8, 1e-3, 50.0, 1e3]))
    pt = st.tuples(r, _pt_st()).map(lambda rp: [rp[0]] + rp[1])
    return st.fixed_dictionaries({"l_max": st.one_of(st.integers(0, 12), st.integers(0, 12), st.integers(0, hi)), "pts": st.lists(pt, min_size=1, max_size=8)})


def _c2s_strategy():
    snap = lambda x: 0.0 if abs(x) < 1e-12 else x  # noqa: E731 - keep away from the underflow regime of |d|^2
    coord = st.one_of(st.floats(-10.0, 10.0).map(snap), st.sampled_from([0.0, 1.0, -1.0, 1e-9, -1e-9, 1e3]))
    rad = st.one_of(st.floats(0.0, 10.0).map(snap), st.sampled_from([0.0, 1.0, 1e-9, 1e3]))
    pol = _polar_st(images=False)
    pt = st.one_of(
        st.tuples(st.just("sph"), rad, st.floats(-math.pi, math.pi), pol).map(lambda t: ["sph", t[1], t[2], t[3][0], t[3][1]]),
        st.tuples(st.just("sph"), rad, st.floats(-math.pi, math.pi), pol).map(lambda t: ["sph", t[1], t[2], t[3][0], t[3][1]]),
        st.tuples(coord, coord, coord).map(lambda t: ["xyz", t[0], t[1], t[2]]),
        st.just(["center"]),
        st.floats(-10.0, 10.0).map(snap).map(lambda z: ["axis", z]),
        st.tuples(coord, coord).map(lambda t: ["plane", t[0], t[1]]),
        st.tuples(rad, coord).map(lambda t: ["negx", t[0], t[1]]),
    )
    center = st.one_of(st.none(), st.lists(coord, min_size=3, max_size=3), st.lists(coord, min_size=3, max_size=3))
    return st.fixed_dictionaries({"center": center, "center_mode": st.sampled_from(["array", "list"]), "pts": st.lists(pt, min_size=1, max_size=10),
                                  "int_pts": st.sampled_from([None, None, None, "int64", "int32"])})


# pinned cases: every structured location at small l, and high l_max
def _pinned_values():
    pts = [
        [0.3, "n", 0.0, 0],
        [0.3, "s", 0.0, 0],
        [-2.0, "n", 1e-12, 0],
        [7.5, "s", 1e-12, 0],
        [1.0, "e", 0.0, 0],
        [-20.0, "g", 1.0, 0],
        [20.0, "g", 2.5, 1],
        [0.0, "n", 0.0, 1],
        [math.pi, "s", 0.0, -1],
        [2.0, "g", 0.7, -3],
    ]
    return [{"l_max": l, "pts": pts} for l in (0, 1, 2, 3, 5, 12)] + [{"l_max": 150, "pts": pts[:5]}]


def _pinned_c2s():
    near = [["xyz", 1e-8, 0.0, 1.0], ["xyz", 1e-7, 0.0, 1.0], ["xyz", 1e-5, 0.0, 1.0], ["xyz", 1e-3, 0.0, 1.0], ["xyz", 0.0, -2e-8, -3.0], ["xyz", 3e-9, 4e-9, 2.0]]
    return [
        {"center": None, "center_mode": "array", "pts": near},  # arccos regression: (1e-8,0,1) used to map to phi = 0
        {"center": [0.5, -1.0, 2.0], "center_mode": "array", "pts": [["sph", 1.0, 0.7, "n", 1e-9], ["sph", 2.0, -2.0, "s", 1e-6], ["sph", 1.0, 3.0, "n", 1e-3], ["center"], ["axis", 2.0], ["axis", -2.0], ["negx", 1.0, 0.0]]},
        {"center": [0.0, 0.0, 0.0], "center_mode": "list", "pts": [["center"], ["plane", 1.0, 1.0], ["xyz", -1.0, 0.0, 0.0], ["xyz", 0.0, -1.0, 0.0]]},
        # the same regression about a non-zero centre (displacements (1e-8,0,1), (1e-7,0,1), (1e-3,0,1), (0,1e-8,-2))
        {"center": [0.5, -1.0, 2.0], "center_mode": "array", "pts": [["xyz", 0.5 + 1e-8, -1.0, 3.0], ["xyz", 0.5 + 1e-7, -1.0, 3.0], ["xyz", 0.5 + 1e-3, -1.0, 3.0], ["xyz", 0.5, -1.0 + 1e-8, 0.0]]},
    ]


def selftest():
    sph.selftest()
    sph.selftest_extra()
    # descriptor -> angle keeps sin >= 0 on every pinned pole image
    for k in range(-3, 4):
        for base in "ns":
            for d in _SMALL:
                assert math.sin(_polar(base, d, k)) >= 0.0


def subchecks(tier, seed):
    q = tier == "quick"
    hi = 200 if q else 400
    return [
        SubCheck("values", body_values, strategy=_values_strategy(hi), examples=2400 if q else 12000, cases=_pinned_values(), shards=16 if q else 32),
        SubCheck("values-many", body_values_many, strategy=_many_strategy(), examples=64 if q else 600, shards=16, shrink=False),
        SubCheck("mp", body_mp, strategy=_mp_strategy(40 if q else 60), examples=400 if q else 3000, shards=16),
        SubCheck("addition", body_addition, strategy=_addition_strategy(hi), examples=1200 if q else 6000, shards=16),
        SubCheck("deriv", body_deriv, strategy=_deriv_strategy(12 if q else 30), examples=600 if q else 5000, shards=16),
        SubCheck("solid", body_solid, strategy=_solid_strategy(12 if q else 40), examples=1200 if q else 15000, shards=16),
        SubCheck("cart2sph", body_cart2sph, strategy=_c2s_strategy(), examples=2400 if q else 30000, cases=_pinned_c2s(), shards=16),
    ]
