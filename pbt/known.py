"""Known findings: genuine defects of theochem/grid that are recorded, not repaired.

known_findings.json is committed and never written at run time.  Entries:

    {"id": "...", "property": "C01", "status": "known" | "fixed",
     "what": "one line", "failing_input": "...", "matcher": "where the narrow matcher lives",
     "commit": "<sha, for fixed entries>"}

Only "known" entries suppress anything, and only through ``ctx.known(id, ...)`` calls in
the property module, which are made when the observed discrepancy matches the *buggy
model* of exactly that finding (input predicate + observed-value signature).  "fixed"
entries are a record; they have no matcher and suppress nothing.
"""
import json
import os

from .core import VERIF_DIR

PATH = os.path.join(VERIF_DIR, "known_findings.json")


def load():
    with open(PATH) as fh:
        data = json.load(fh)
    return data["findings"]


def known_ids(prop):
    return frozenset(f["id"] for f in load() if f["property"] == prop and f["status"] == "known")


def describe(fid):
    for f in load():
        if f["id"] == fid:
            return f["what"]
    return fid
