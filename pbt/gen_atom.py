"""Hypothesis strategies for JSON descriptors of radial grids / atomic grids, and the builders.

Shared by C05 (product structure of the atomic grid) and C09 (harmonic decomposition).

An *atom descriptor* is a plain dict

    {"r": [...], "w": [...],                   radial nodes (ascending, >= 0, possibly r[0] == 0.0) and weights (> 0)
     "method": "lebedev"|"spherical"|"maxdet"|"ahrens_beylkin",
     "route": "const"|"list"|"sizes"|"sizes-const"|"pruned-d"|"pruned-s",
     "req": [...],                              degree requests (const: 1, list: n) or size requests (sizes: n, sizes-const: 1)
     "radius": float, "r_sectors": [...], "sec": [...],      only for the pruned routes (sec = degree or size per sector)
     "center": [x, y, z] | None, "rotate": int, "as_array": bool}

``expected_degrees`` is the oracle's reading of the request: the smallest supported degree not
below each request, found in the table that pbt.oracles.data_loader reads from the data *file
names*; for the pruned routes the sector of a node is the number of boundaries radius*a_k lying
strictly below it (nodes within 1e-9 of a boundary are ambiguous: the docstring of from_pruned says
"<=" for inner and "<" for the last boundary; such cases are skipped by the callers).
"""
from __future__ import annotations

import numpy as np
from hypothesis import strategies as st

from .oracles import data_loader as dl

# largest request per method that keeps a shell at a few hundred points; ahrens_beylkin stops below its
# defective degree-39 grid (known finding of C02: that file is not a quadrature rule at all)
MAX_DEGREE = {"lebedev": 23, "spherical": 17, "maxdet": 12, "ahrens_beylkin": 37}
MAX_DEGREE_SMALL = {"lebedev": 15, "spherical": 11, "maxdet": 8, "ahrens_beylkin": 23}
BOUNDARY_EPS = 1e-9


def _maxd(method, small):
    return (MAX_DEGREE_SMALL if small else MAX_DEGREE)[method]


def degree_request(method, small=False):
    """A degree request: any integer from 0 (rounds up) or an exact table entry."""
    mx = _maxd(method, small)
    tab = [d for d in dl.degrees(method) if d <= mx]
    return st.one_of(st.integers(0, mx), st.sampled_from(tab), st.sampled_from([max(0, d - 1) for d in tab]))


def size_request(method, small=False):
    mx = dl.size_of_degree(method, dl.resolve_degree(method, _maxd(method, small)))
    tab = [s for s in dl.sizes(method) if s <= mx]
    return st.one_of(st.integers(1, mx), st.sampled_from(tab), st.sampled_from([min(mx, s + 1) for s in tab]))


@st.composite
def radial(draw, nmin=1, nmax=8, allow_zero=True, allow_tiny=True, min_gap=0.02, max_gap=1.5):
    """Ascending distinct non-negative nodes, optionally starting at exactly 0, with positive weights."""
    # integers() alone is biased towards the lower end (a third of the cases would have a single shell)
    n = draw(st.one_of(st.integers(nmin, nmax), st.integers(min(nmax, max(nmin, 3)), nmax), st.integers(min(nmax, max(nmin, 5)), nmax)))
    kinds = ["normal", "normal", "small"]
    if allow_zero:
        kinds += ["zero", "zero"]
    if allow_tiny:
        kinds += ["tiny"]
    first = draw(st.sampled_from(kinds))
    if first == "zero":
        r0 = 0.0
    elif first == "tiny":  # non-zero but below the library's 1e-8 switch
        r0 = draw(st.sampled_from([1e-9, 3e-10, 9.9e-9]))
    elif first == "small":
        r0 = draw(st.floats(1e-4, 5e-2))
    else:
        r0 = draw(st.floats(0.05, 1.5))
    r = [r0]
    for _ in range(n - 1):
        r.append(r[-1] + draw(st.floats(min_gap, max_gap)))
    w = [draw(st.floats(0.05, 2.0)) for _ in range(n)]
    return {"r": r, "w": w}


def center_strategy():
    return st.one_of(
        st.none(),
        st.none(),
        st.lists(st.floats(-5.0, 5.0), min_size=3, max_size=3),
        st.lists(st.sampled_from([0.0, 1.0, -2.5]), min_size=3, max_size=3),
    )


def rotate_strategy(n):
    top = 2**32 - n - 1  # largest accepted seed
    return st.one_of(st.just(0), st.just(0), st.integers(1, 1000), st.integers(1, top), st.sampled_from([1, top, top - 1, 2**31]))


@st.composite
def atom(draw, nmin=1, nmax=8, small=False, routes=None, allow_tiny=True, methods=None, min_gap=0.02, orders=("asc",)):
    rad = draw(radial(nmin=nmin, nmax=nmax, allow_tiny=allow_tiny, min_gap=min_gap))
    n = len(rad["r"])
    method = draw(st.sampled_from(list(methods or dl.METHODS)))
    route = draw(st.sampled_from(routes or ["const", "list", "list", "sizes", "sizes-const", "pruned-d", "pruned-s"]))
    out = dict(rad)
    out.update({"method": method, "route": route})
    if route == "const":
        out["req"] = [draw(degree_request(method, small))]
    elif route == "list":
        out["req"] = [draw(degree_request(method, small)) for _ in range(n)]
    elif route == "sizes":
        out["req"] = [draw(size_request(method, small)) for _ in range(n)]
    elif route == "sizes-const":
        out["req"] = [draw(size_request(method, small))]
    else:
        nsec = draw(st.integers(0, 3))
        radius = draw(st.floats(0.5, 2.0))
        rmax = rad["r"][-1] + 0.5
        # boundaries in units of radius: mostly inside the node range so that sectors are populated
        a = sorted(draw(st.floats(0.0, rmax)) / radius for _ in range(nsec))
        out["radius"] = radius
        out["r_sectors"] = a
        req = degree_request(method, small) if route == "pruned-d" else size_request(method, small)
        out["sec"] = [draw(req) for _ in range(nsec + 1)]
    out["center"] = draw(center_strategy())
    out["rotate"] = draw(rotate_strategy(n))
    out["as_array"] = draw(st.booleans())
    # order of the radial nodes inside the OneDGrid: a radial grid need not be ascending (a decreasing transform such
    # as MultiExp hands out descending nodes); shells follow the order of the nodes
    order = draw(st.sampled_from(list(orders)))
    k = draw(st.integers(1, max(1, n - 1)))
    if n > 1 and order != "asc":
        perm = list(range(n))[::-1] if order == "desc" else (list(range(k, n)) + list(range(k))[::-1])
        out["r"] = [out["r"][i] for i in perm]
        out["w"] = [out["w"][i] for i in perm]
        out["node_order"] = order
    return out


# ---------------------------------------------------------------------------------------------
def sector_of_nodes(desc):
    """(list of sector indices, ambiguous?) for a pruned descriptor - plain loops, no broadcasting."""
    bounds = [a * desc["radius"] for a in desc["r_sectors"]]
    amb = False
    which = []
    for ri in desc["r"]:
        k = 0
        for b in bounds:
            if abs(ri - b) < BOUNDARY_EPS:
                amb = True
            if ri > b:
                k += 1
        which.append(k)
    return which, amb


def expected_degrees(desc):
    """(list of expected actual degrees per shell, ambiguous?)."""
    method, route, n = desc["method"], desc["route"], len(desc["r"])
    if route == "const":
        return [dl.resolve_degree(method, desc["req"][0])] * n, False
    if route == "list":
        return [dl.resolve_degree(method, d) for d in desc["req"]], False
    if route == "sizes":
        return [dl.degree_of_size(method, dl.resolve_size(method, s)) for s in desc["req"]], False
    if route == "sizes-const":
        return [dl.degree_of_size(method, dl.resolve_size(method, desc["req"][0]))] * n, False
    which, amb = sector_of_nodes(desc)
    if route == "pruned-d":
        return [dl.resolve_degree(method, desc["sec"][k]) for k in which], amb
    return [dl.degree_of_size(method, dl.resolve_size(method, desc["sec"][k])) for k in which], amb


def make_rgrid(desc):
    from grid.basegrid import OneDGrid

    r = np.array(desc["r"], dtype=float)
    w = np.array(desc["w"], dtype=float)
    return OneDGrid(r, w, (0, np.inf))


_NOARG = object()


def build(desc, center=_NOARG, rotate=None, rgrid=None):
    """Construct the AtomGrid the descriptor describes (through the route it names)."""
    from grid.atomgrid import AtomGrid

    rg = make_rgrid(desc) if rgrid is None else rgrid
    c = desc["center"] if center is _NOARG else center
    rot = int(desc["rotate"] if rotate is None else rotate)
    # NumPy-integer seeds are documented as admissible (regression of fix f2aca48): used whenever the
    # descriptor also passes its sequences as arrays
    kw = {"rotate": np.int64(rot) if desc.get("as_array") else rot, "method": desc["method"]}
    if c is not None:
        kw["center"] = np.array(c, dtype=float)
    route = desc["route"]
    wrap = (lambda x: np.array(x, dtype=int)) if desc.get("as_array") else (lambda x: [int(v) for v in x])
    if route in ("const", "list"):
        return AtomGrid(rg, degrees=wrap(desc["req"]), **kw)
    if route in ("sizes", "sizes-const"):
        return AtomGrid(rg, degrees=None, sizes=wrap(desc["req"]), **kw)
    if route == "pruned-d":
        return AtomGrid.from_pruned(rg, desc["radius"], r_sectors=list(desc["r_sectors"]), d_sectors=wrap(desc["sec"]), **kw)
    if route == "pruned-s":
        return AtomGrid.from_pruned(rg, desc["radius"], r_sectors=list(desc["r_sectors"]), d_sectors=None, s_sectors=wrap(desc["sec"]), **kw)
    raise ValueError(f"unknown route {route}")


def is_nontrivial(desc, degs):
    c = desc["center"]
    return bool(len(set(degs)) > 1 or desc["rotate"] != 0 or desc["r"][0] == 0.0 or (c is not None and any(v != 0.0 for v in c)))
