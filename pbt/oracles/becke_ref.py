"""Loop-level Becke atom-in-molecule weights, written from the definition.

Source of the definition: the docstrings of grid/becke.py (``_calculate_alpha``: u_AB =
(R_A-R_B)/(R_A+R_B), a_AB = u_AB/(u_AB^2-1), cutoff 0.45 "smaller than 0.5 to guarantee monotonous
transformation"; ``_switch_func``: f_1(x) = x/2 (3-x^2), f_k = f_1(f_{k-1})) and Becke, J. Chem.
Phys. 88, 2547 (1988): mu_AB = (|r-R_A| - |r-R_B|)/|R_A-R_B|, nu_AB = mu_AB + a_AB (1-mu_AB^2),
s(nu) = (1 - f_k(nu))/2, P_A = prod_{B != A} s(nu_AB), w_A = P_A / sum_B P_B.

Radius rule: the table in use is the Bragg-Slater table updated by the user's ``radii`` dict; an
element whose entry is NaN takes the entry of Z-1 and, if that is NaN too, of Z-2 (the library's
warning: "Instead the radii with 1 less the atomic number is used"; source comment "if n-1 radii is
nan, use the n-2 instead").

Nothing here is vectorised over atoms: explicit loops over the ordered pairs (A, B), plain
per-point arithmetic.  No code is shared with grid/becke.py.
"""
import math

import numpy as np

CUTOFF = 0.45

# Bragg-Slater radii in angstrom (J. C. Slater, J. Chem. Phys. 41, 3199 (1964)); None = not defined.
# Only used by the self-test to confirm that the table the library documents as "Bragg-Slater" is
# what get_cov_radii(.., "bragg") returns (to the 8 printed decimals).
SLATER_ANGSTROM = {
    1: 0.25, 3: 1.45, 4: 1.05, 5: 0.85, 6: 0.70, 7: 0.65, 8: 0.60, 9: 0.50,
    11: 1.80, 12: 1.50, 13: 1.25, 14: 1.10, 15: 1.00, 16: 1.00, 17: 1.00,
    19: 2.20, 20: 1.80, 21: 1.60, 22: 1.40, 23: 1.35, 24: 1.40, 25: 1.40, 26: 1.40, 27: 1.35,
    28: 1.35, 29: 1.35, 30: 1.35, 31: 1.30, 32: 1.25, 33: 1.15, 34: 1.15, 35: 1.15,
    37: 2.35, 38: 2.00, 39: 1.80, 40: 1.55, 41: 1.45, 42: 1.45, 43: 1.35, 44: 1.30, 45: 1.35,
    46: 1.40, 47: 1.60, 48: 1.55, 49: 1.55, 50: 1.45, 51: 1.45, 52: 1.40, 53: 1.40,
    55: 2.60, 56: 2.15, 57: 1.95, 58: 1.85, 59: 1.85, 60: 1.85, 61: 1.85, 62: 1.85, 63: 1.85,
    64: 1.80, 65: 1.75, 66: 1.75, 67: 1.75, 68: 1.75, 69: 1.75, 70: 1.75, 71: 1.75, 72: 1.55,
    73: 1.45, 74: 1.35, 75: 1.35, 76: 1.30, 77: 1.35, 78: 1.35, 79: 1.35, 80: 1.50, 81: 1.90,
    82: 1.80, 83: 1.60, 84: 1.90,
}
NO_RADIUS = (2, 10, 18, 36, 54, 85, 86)
ANGSTROM_PER_BOHR = 0.529177210903


def effective_table(base, custom=None):
    """dict Z -> radius (may be NaN): ``base`` (sequence indexed by Z, entry 0 unused) updated by ``custom``."""
    tab = {z: float(base[z]) for z in range(1, len(base))}
    if custom:
        for k, v in custom.items():
            tab[int(k)] = float(v)
    return tab


def radius_of(z, table):
    """Radius used for element z: its own, else that of z-1, else that of z-2."""
    z = int(z)
    for cand in (z, z - 1, z - 2):
        r = table.get(cand, float("nan"))
        if not math.isnan(r):
            return r
    raise ValueError(f"no radius for Z={z}")


def shift_parameter(ra, rb):
    u = (ra - rb) / (ra + rb)
    a = u / (u * u - 1.0)
    if a > CUTOFF:
        a = CUTOFF
    if a < -CUTOFF:
        a = -CUTOFF
    return a


def switch(x, order):
    for _ in range(order):
        x = 0.5 * x * (3.0 - x * x)
    return x


def cell_functions(points, atcoords, radii, order):
    """(N, M) array of the unnormalised cell functions P_A(r)."""
    points = np.asarray(points, dtype=float)
    atcoords = np.asarray(atcoords, dtype=float)
    n, m = len(points), len(atcoords)
    dist = np.empty((m, n))
    for a in range(m):
        d = points - atcoords[a]
        dist[a] = np.sqrt(d[:, 0] * d[:, 0] + d[:, 1] * d[:, 1] + d[:, 2] * d[:, 2])
    cell = np.ones((n, m))
    for a in range(m):
        for b in range(m):
            if a == b:
                continue
            dab = atcoords[a] - atcoords[b]
            r_ab = math.sqrt(dab[0] * dab[0] + dab[1] * dab[1] + dab[2] * dab[2])
            mu = (dist[a] - dist[b]) / r_ab
            nu = mu + shift_parameter(radii[a], radii[b]) * (1.0 - mu * mu)
            cell[:, a] *= 0.5 * (1.0 - switch(nu, order))
    return cell


def weights(points, atcoords, radii, order):
    """(N, M) array: column A holds w_A at every point."""
    cell = cell_functions(points, atcoords, radii, order)
    return cell / cell.sum(axis=1)[:, None]


def condition(points, atcoords, order, radii=None):
    """Per-point amplification of coordinate rounding into a weight.

    A distance |r-R_A| carries an absolute error eps*X (X = size of the coordinates entering the
    subtraction), mu = (difference of distances)/R_AB therefore eps*X/R_AB, nu = mu + a(1-mu^2) at most
    1.9x that, every switch iteration at most 1.5x, and a weight depends on M-1 cell factors.
    Returned: M * 1.9 * 1.5^order * (1 + X_p / min R_AB), divided by min(1, sum_B P_B) when ``radii`` is
    given: the normalisation w_A = P_A / sum_B P_B amplifies the absolute error of the cell functions by
    1 / sum_B P_B, which is well below 1 inside clusters of many atoms.
    """
    points = np.asarray(points, dtype=float)
    atcoords = np.asarray(atcoords, dtype=float)
    m = len(atcoords)
    rmin = np.inf
    for a in range(m):
        for b in range(a):
            rmin = min(rmin, float(np.linalg.norm(atcoords[a] - atcoords[b])))
    xat = float(np.max(np.abs(atcoords))) if m else 0.0
    xp = np.maximum(np.max(np.abs(points), axis=1), xat) if len(points) else np.zeros(0)
    ratio = xp / rmin if np.isfinite(rmin) else np.zeros_like(xp)
    out = m * 1.9 * 1.5**order * (1.0 + ratio)
    if radii is not None and len(points):
        tot = cell_functions(points, atcoords, radii, order).sum(axis=1)
        out = out / np.clip(tot, 1e-300, 1.0)
    return out


# ---------------------------------------------------------------------------
def _mp_weights(points, atcoords, radii, order, dps=40):
    import mpmath as mp

    mp.mp.dps = dps
    out = []
    for p in points:
        cell = []
        for a in range(len(atcoords)):
            prod = mp.mpf(1)
            for b in range(len(atcoords)):
                if a == b:
                    continue
                ra = mp.sqrt(sum((mp.mpf(float(p[k])) - mp.mpf(float(atcoords[a][k]))) ** 2 for k in range(3)))
                rb = mp.sqrt(sum((mp.mpf(float(p[k])) - mp.mpf(float(atcoords[b][k]))) ** 2 for k in range(3)))
                rab = mp.sqrt(sum((mp.mpf(float(atcoords[a][k])) - mp.mpf(float(atcoords[b][k]))) ** 2 for k in range(3)))
                mu = (ra - rb) / rab
                u = (mp.mpf(radii[a]) - mp.mpf(radii[b])) / (mp.mpf(radii[a]) + mp.mpf(radii[b]))
                al = u / (u * u - 1)
                al = max(min(al, mp.mpf("0.45")), mp.mpf("-0.45"))
                nu = mu + al * (1 - mu * mu)
                for _ in range(order):
                    nu = nu * (3 - nu * nu) / 2
                prod *= (1 - nu) / 2
            cell.append(prod)
        tot = sum(cell)
        out.append([float(c / tot) for c in cell])
    return np.array(out)


def selftest():
    eps = float(np.finfo(float).eps)
    # hand values ------------------------------------------------------------
    at = np.array([[0.0, 0.0, -1.0], [0.0, 0.0, 1.0]])
    w = weights(np.array([[0.0, 0.0, 0.0], [3.0, -2.0, 0.0], [0.0, 0.0, -1.0], [0.0, 0.0, 1.0]]), at, [1.0, 1.0], 3)
    assert np.allclose(w[0], [0.5, 0.5], atol=1e-15) and np.allclose(w[1], [0.5, 0.5], atol=1e-15)
    assert np.array_equal(w[2], [1.0, 0.0]) and np.array_equal(w[3], [0.0, 1.0])
    # order 1, homonuclear, on the axis at z=0.5: mu=-0.5 for A=second atom ... s = (1 - f(mu))/2
    w = weights(np.array([[0.0, 0.0, 0.5]]), at, [1.0, 1.0], 1)
    f = 0.5 * 0.5 * (3 - 0.25)
    assert abs(w[0, 1] - 0.5 * (1 + f)) < 1e-15 and abs(w[0, 0] - 0.5 * (1 - f)) < 1e-15
    # heteronuclear at the mid-point: mu=0, nu=a; R_A=2R_B -> u=1/3, a=-3/8; larger atom gets the larger share
    w = weights(np.array([[0.0, 0.0, 0.0]]), at, [2.0, 1.0], 1)
    a = -0.375
    assert abs(w[0, 0] - 0.5 * (1 - 0.5 * a * (3 - a * a))) < 1e-15 and w[0, 0] > 0.5
    # clipping: R_A=10 R_B -> u=9/11, a=-2.475 -> clipped to -0.45
    assert shift_parameter(10.0, 1.0) == -0.45 and shift_parameter(1.0, 10.0) == 0.45
    assert abs(shift_parameter(1.2, 1.0) - ((0.2 / 2.2) / ((0.2 / 2.2) ** 2 - 1))) < 1e-16
    # radius rule
    tab = effective_table([float("nan"), 0.5, float("nan"), 2.7, 2.0], {4: float("nan")})
    assert radius_of(2, tab) == 0.5 and radius_of(3, tab) == 2.7 and radius_of(4, tab) == 2.7
    tab = effective_table([float("nan"), 0.5, float("nan"), float("nan")])
    assert radius_of(3, tab) == 0.5
    # against 40-digit arithmetic, incl. a far point and a compact pair ------------
    rng = np.random.default_rng(20240607)
    for m, order in ((2, 1), (3, 3), (5, 5), (7, 2)):
        atc = rng.uniform(-3, 3, (m, 3))
        atc[1] = atc[0] + np.array([0.3, 0.0, 0.0])
        rad = rng.uniform(0.4, 5.0, m)
        pts = np.vstack([rng.uniform(-5, 5, (6, 3)), atc[:2], 0.5 * (atc[:1] + atc[1:2]), rng.normal(size=(2, 3)) * 1e5])
        got = weights(pts, atc, rad, order)
        ref = _mp_weights(pts, atc, rad, order)
        tol = 20 * eps * condition(pts, atc, order)[:, None]
        assert np.all(np.abs(got - ref) <= tol), f"becke_ref disagrees with mpmath: {np.max(np.abs(got - ref) / tol)} x tol"
    # the table the library documents as Bragg-Slater --------------------------------
    from grid.utils import get_cov_radii

    lib = get_cov_radii(np.arange(1, 87), "bragg")
    for z in range(1, 87):
        if z in SLATER_ANGSTROM:
            assert abs(lib[z - 1] * ANGSTROM_PER_BOHR - SLATER_ANGSTROM[z]) < 2e-7, f"Bragg radius of Z={z}: {lib[z - 1]}"
        else:
            assert z in NO_RADIUS and np.isnan(lib[z - 1]), f"Z={z} should have no Bragg radius"


if __name__ == "__main__":
    selftest()
    print("becke_ref selftest ok")
