"""Manufactured linear ODE problems with known solutions, and an independent model of the
coordinate transformations (closed forms typed from the documented definitions, derivatives by
truncated-Taylor "jet" arithmetic - no code, formula table or Bell polynomial from grid/ode.py or
grid/rtransform.py is used).

Everything is a pure function of a JSON descriptor.

Solution family      y(x) = sum_j c_j exp(p_j x) cos(q_j x + s_j)          (all derivatives analytic)
Coefficient family   a_k(x) = v   or   a + b sin(w x + ph)                   (value + derivatives analytic)
Right-hand side      f(x) := sum_k a_k(x) y^(k)(x)                          (so y solves the ODE exactly)

Jet: the tuple (f, f', f'', f''') of a function of one variable at an array of points.
"""
from __future__ import annotations

import math

import numpy as np


# ---------------------------------------------------------------------------------------------
# jets (value and first three derivatives with respect to the independent variable)
class Jet:
    __slots__ = ("d",)

    def __init__(self, d0, d1=0.0, d2=0.0, d3=0.0):
        d0 = np.asarray(d0, dtype=float)
        self.d = [d0, d1 + 0 * d0, d2 + 0 * d0, d3 + 0 * d0]

    @classmethod
    def variable(cls, x):
        x = np.asarray(x, dtype=float)
        return cls(x, np.ones_like(x), np.zeros_like(x), np.zeros_like(x))

    @staticmethod
    def lift(v):
        return v if isinstance(v, Jet) else Jet(np.asarray(v, dtype=float))

    def __add__(self, o):
        o = Jet.lift(o)
        return Jet(*[a + b for a, b in zip(self.d, o.d)])

    __radd__ = __add__

    def __neg__(self):
        return Jet(*[-a for a in self.d])

    def __sub__(self, o):
        return self + (-Jet.lift(o))

    def __rsub__(self, o):
        return Jet.lift(o) + (-self)

    def __mul__(self, o):
        o = Jet.lift(o)
        f, g = self.d, o.d
        return Jet(
            f[0] * g[0],
            f[1] * g[0] + f[0] * g[1],
            f[2] * g[0] + 2 * f[1] * g[1] + f[0] * g[2],
            f[3] * g[0] + 3 * f[2] * g[1] + 3 * f[1] * g[2] + f[0] * g[3],
        )

    __rmul__ = __mul__

    def compose(self, phi):
        """phi = (phi, phi', phi'', phi''') evaluated at self.d[0]; returns the jet of phi(self(x))."""
        g = self.d
        return Jet(
            phi[0],
            phi[1] * g[1],
            phi[2] * g[1] ** 2 + phi[1] * g[2],
            phi[3] * g[1] ** 3 + 3 * phi[2] * g[1] * g[2] + phi[1] * g[3],
        )

    def recip(self):
        u = self.d[0]
        return self.compose((1 / u, -1 / u**2, 2 / u**3, -6 / u**4))

    def __truediv__(self, o):
        return self * Jet.lift(o).recip()

    def __rtruediv__(self, o):
        return Jet.lift(o) * self.recip()

    def pow(self, a):
        u = self.d[0]
        return self.compose((u**a, a * u ** (a - 1), a * (a - 1) * u ** (a - 2), a * (a - 1) * (a - 2) * u ** (a - 3)))

    def exp(self):
        e = np.exp(self.d[0])
        return self.compose((e, e, e, e))

    def log(self):
        u = self.d[0]
        return self.compose((np.log(u), 1 / u, -1 / u**2, 2 / u**3))


def _exp(u):
    if isinstance(u, Jet):
        return u.exp()
    import mpmath

    return mpmath.exp(u)


def _log(u):
    if isinstance(u, Jet):
        return u.log()
    import mpmath

    return mpmath.log(u)


def _pow(u, a):
    if isinstance(u, Jet):
        return u.pow(a)
    return u**a


# ---------------------------------------------------------------------------------------------
# transformations r = g(x): closed forms from the class docstrings.  `fwd` maps the ODE variable
# x to the solver variable r for the transform object that the body hands to the library.
def _becke(x, p):
    return p["R"] * (1 + x) / (1 - x) + p["rmin"]


def _becke_inv(r, p):
    return (r - p["rmin"] - p["R"]) / (r - p["rmin"] + p["R"])


def _linfin(x, p):
    return (p["rmax"] - p["rmin"]) / 2 * (1 + x) + p["rmin"]


def _linfin_inv(r, p):
    return (2 * r - (p["rmax"] + p["rmin"])) / (p["rmax"] - p["rmin"])


def _identity(x, p):
    return x


def _lininf(x, p):
    return (p["rmax"] - p["rmin"]) / p["b"] * x + p["rmin"]


def _lininf_inv(r, p):
    return (r - p["rmin"]) * p["b"] / (p["rmax"] - p["rmin"])


def _exptf(x, p):
    return p["rmin"] * _exp(x * (math.log(p["rmax"] / p["rmin"]) / p["b"]))


def _exptf_inv(r, p):
    return _log(r / p["rmin"]) * (p["b"] / math.log(p["rmax"] / p["rmin"]))


def _power(x, p):
    return p["rmin"] * _pow(x + 1, (math.log(p["rmax"]) - math.log(p["rmin"])) / math.log(p["b"] + 1))


def _multiexp(x, p):
    return -p["R"] * _log((x + 1) / 2) + p["rmin"]


def _multiexp_inv(r, p):
    return 2 * _exp(-(r - p["rmin"]) / p["R"]) - 1


def _knowles(x, p):
    k = p["k"]
    return -p["R"] * _log(1 - 2.0**-k * _pow(x + 1, k)) + p["rmin"]


def _knowles_inv(r, p):
    return -1 + 2 * _pow(1 - _exp((p["rmin"] - r) / p["R"]), 1.0 / p["k"])


def _handy(x, p):
    return p["R"] * _pow((1 + x) / (1 - x), p["m"]) + p["rmin"]


def _handy_inv(r, p):
    t = _pow((r - p["rmin"]) / p["R"], 1.0 / p["m"])
    return (t - 1) / (t + 1)


def _handymod(x, p):
    m = p["m"]
    s = p["rmax"] - p["rmin"]
    q = _pow(1 + x, m)
    return q * s / (2.0**m * (1 - 2.0**m + s) - q * (s - 2.0**m)) + p["rmin"]


def _handymod_inv(r, p):
    m = p["m"]
    s = p["rmax"] - p["rmin"]
    t = (r - p["rmin"]) * (s - 2.0**m + 1) / ((r - p["rmin"]) * (s - 2.0**m) + s)
    return 2 * _pow(t, 1.0 / m) - 1


# kind -> (map x->r, map r->x or None, library constructor name, parameter names in constructor order)
TRANSFORMS = {
    "identity": (_identity, _identity, "IdentityRTransform", ()),
    "linfin": (_linfin, _linfin_inv, "LinearFiniteRTransform", ("rmin", "rmax")),
    "lininf": (_lininf, _lininf_inv, "LinearInfiniteRTransform", ("rmin", "rmax", "b")),
    "exp": (_exptf, _exptf_inv, "ExpRTransform", ("rmin", "rmax", "b")),
    "power": (_power, None, "PowerRTransform", ("rmin", "rmax", "b")),
    "becke": (_becke, _becke_inv, "BeckeRTransform", ("rmin", "R")),
    "multiexp": (_multiexp, _multiexp_inv, "MultiExpRTransform", ("rmin", "R")),
    "knowles": (_knowles, _knowles_inv, "KnowlesRTransform", ("rmin", "R", "k")),
    "handy": (_handy, _handy_inv, "HandyRTransform", ("rmin", "R", "m")),
    "handymod": (_handymod, _handymod_inv, "HandyModRTransform", ("rmin", "rmax", "m")),
}


def tf_map(tf):
    """The function x -> r of a transform descriptor {"kind": ..., "inv": bool, params...} (None = no transform)."""
    fwd, inv, _, _ = TRANSFORMS[tf["kind"]]
    fn = inv if tf.get("inv") else fwd
    if fn is None:
        raise KeyError(f"no closed-form inverse for {tf['kind']}")
    return lambda x: fn(x, tf)


def tf_jet(tf, x):
    """(g, g', g'', g''') of the transform at the points x; identity when tf is None."""
    j = Jet.variable(x)
    if tf is None or tf["kind"] == "none":
        return j
    out = tf_map(tf)(j)
    return Jet.lift(out)


def build_transform(tf):
    """Library transform object for a descriptor (imported lazily: the tree under test)."""
    if tf is None or tf["kind"] == "none":
        return None
    import grid.rtransform as rt

    _, _, cname, pnames = TRANSFORMS[tf["kind"]]
    obj = getattr(rt, cname)(*[tf[n] for n in pnames])
    if tf.get("inv"):
        obj = rt.InverseRTransform(obj)
    return obj


def derivs_wrt_r(gj, ydx):
    """Derivatives of Y(r)=y(x(r)) with respect to r from derivatives with respect to x.

    gj: Jet of g at the points; ydx: list [y, y', y'', (y''')] w.r.t. x.  Chain rule written out:
        y'   = g' Y_r
        y''  = g'' Y_r + g'^2 Y_rr
        y''' = g''' Y_r + 3 g' g'' Y_rr + g'^3 Y_rrr
    solved from the top.
    """
    g1, g2, g3 = gj.d[1], gj.d[2], gj.d[3]
    out = [np.asarray(ydx[0], dtype=float)]
    if len(ydx) > 1:
        out.append(ydx[1] / g1)
    if len(ydx) > 2:
        out.append((ydx[2] - g2 * out[1]) / g1**2)
    if len(ydx) > 3:
        out.append((ydx[3] - g3 * out[1] - 3 * g1 * g2 * out[2]) / g1**3)
    return out


def chain_matrix_abs(gj, n):
    """|M| with [y', y'', ..]^T = M [Y_r, Y_rr, ..]^T, n x n, per point: shape (n, n, N)."""
    g1, g2, g3 = gj.d[1], gj.d[2], gj.d[3]
    z = np.zeros_like(g1)
    rows = [[g1, z, z], [g2, g1**2, z], [g3, 3 * g1 * g2, g1**3]]
    return np.abs(np.array([[rows[i][j] for j in range(n)] for i in range(n)]))


# ---------------------------------------------------------------------------------------------
# solutions and coefficients
def y_deriv(sol, x, k):
    """k-th derivative of y = sum c exp(p x) cos(q x + s) at x."""
    x = np.asarray(x, dtype=float)
    out = np.zeros_like(x)
    for c, p, q, s in zip(sol["c"], sol["p"], sol["q"], sol["s"]):
        z = complex(p, q)
        out = out + c * np.real(z**k * np.exp(z * x + 1j * s))
    return out


def coef_value(cf, x, k=0):
    """k-th derivative of a coefficient function at x (k=0: the value)."""
    x = np.asarray(x, dtype=float)
    if cf["kind"] == "const":
        return np.full(x.shape, float(cf["v"])) if k == 0 else np.zeros(x.shape)
    a, b, w, ph = cf["a"], cf["b"], cf["w"], cf["ph"]
    # d^k/dx^k sin(wx+ph) = w^k sin(wx+ph+k pi/2)
    val = b * w**k * np.sin(w * x + ph + k * math.pi / 2)
    return val + (a if k == 0 else 0.0)


def coef_callable(cf):
    return lambda x: coef_value(cf, x, 0)


def rhs(sol, coefs, x):
    return sum(coef_value(cf, x) * y_deriv(sol, x, k) for k, cf in enumerate(coefs))


def library_coeffs(coefs, as_array):
    """Coefficient argument in the forms the library documents: list of numbers/callables or ndarray of constants."""
    if all(c["kind"] == "const" for c in coefs):
        vals = [float(c["v"]) for c in coefs]
        return np.array(vals) if as_array else vals
    return [float(c["v"]) if c["kind"] == "const" else coef_callable(c) for c in coefs]


def factored_coefs(roots, lead):
    """Coefficient *functions* (as sampled callables) of  lead(x) (D - r1(x)) ... (D - rn(x)) y,  n = 2 or 3.

    roots, lead: coefficient descriptors (const or sin).  Returns a list of functions x -> a_k(x), k=0..n.
    Expanded by hand with D applied to the right-most factor first:
      n=2: y'' - (r1+r2) y' + (r1 r2 - r2') y
      n=3: y''' - (r1+r2+r3) y'' + [r1(r2+r3) + r2 r3 - r2' - 2 r3'] y'
                + [(r2 r3)' - r3'' - r1 r2 r3 + r1 r3'] y
    """

    def R(i, k=0):
        return lambda x: coef_value(roots[i], x, k)

    L = lambda x: coef_value(lead, x, 0)  # noqa: E731
    if len(roots) == 1:
        return [lambda x: -L(x) * R(0)(x), lambda x: L(x)]
    if len(roots) == 2:
        return [
            lambda x: L(x) * (R(0)(x) * R(1)(x) - R(1, 1)(x)),
            lambda x: -L(x) * (R(0)(x) + R(1)(x)),
            lambda x: L(x),
        ]
    r1, r2, r3 = R(0), R(1), R(2)
    r2p, r3p, r3pp = R(1, 1), R(2, 1), R(2, 2)
    return [
        lambda x: L(x) * (r2p(x) * r3(x) + r2(x) * r3p(x) - r3pp(x) - r1(x) * r2(x) * r3(x) + r1(x) * r3p(x)),
        lambda x: L(x) * (r1(x) * (r2(x) + r3(x)) + r2(x) * r3(x) - r2p(x) - 2 * r3p(x)),
        lambda x: -L(x) * (r1(x) + r2(x) + r3(x)),
        lambda x: L(x),
    ]


# ---------------------------------------------------------------------------------------------
def selftest():
    """Jets against 30-digit numerical differentiation of the same closed forms; inverse pairs compose to
    the identity; factored operator annihilates its own exponential solution; chain rule round trip."""
    import mpmath

    mpmath.mp.dps = 30
    probes = [
        ({"kind": "becke", "rmin": 0.1, "R": 1.3}, 0.37, 1.9),
        ({"kind": "linfin", "rmin": 0.2, "rmax": 3.1}, -0.4, 1.0),
        ({"kind": "lininf", "rmin": 0.2, "rmax": 3.1, "b": 7.0}, 2.2, 1.0),
        ({"kind": "exp", "rmin": 0.2, "rmax": 30.0, "b": 9.0}, 2.2, 1.5),
        ({"kind": "power", "rmin": 0.2, "rmax": 30.0, "b": 9.0}, 2.2, None),
        ({"kind": "multiexp", "rmin": 0.0, "R": 1.7}, 0.3, 0.8),
        ({"kind": "knowles", "rmin": 0.05, "R": 1.2, "k": 3}, -0.2, 0.9),
        ({"kind": "handy", "rmin": 0.0, "R": 0.8, "m": 2}, 0.25, 1.4),
        ({"kind": "handymod", "rmin": 0.1, "rmax": 12.0, "m": 2}, 0.1, 3.0),
        ({"kind": "identity"}, 0.7, 0.7),
    ]
    for tf, x0, r0 in probes:
        variants = [(dict(tf, inv=False), x0)]
        if r0 is not None and tf["kind"] != "identity":
            variants.append((dict(tf, inv=True), r0))
        for t, pt in variants:
            fn = tf_map(t)
            j = tf_jet(t, np.array([pt]))
            for k in range(4):
                ref = float(mpmath.diff(lambda u: fn(u), mpmath.mpf(pt), k)) if k else float(fn(mpmath.mpf(pt)))
                got = float(j.d[k][0])
                assert abs(got - ref) <= 1e-10 * max(1.0, abs(ref)), f"jet {t} k={k}: {got} vs {ref}"
        if r0 is not None:
            back = tf_map(dict(tf, inv=True))(tf_map(dict(tf, inv=False))(mpmath.mpf(x0)))
            assert abs(float(back) - x0) < 1e-12, f"inverse pair {tf}"
    # chain rule round trip on y = exp(2x) through becke
    t = {"kind": "becke", "rmin": 0.0, "R": 1.5, "inv": True}
    x = np.array([0.4, 1.1])
    gj = tf_jet(t, x)
    ydx = [np.exp(2 * x) * 2**k for k in range(4)]
    ydr = derivs_wrt_r(gj, ydx)
    # compare with mpmath differentiation of y(x(r))
    xinv = tf_map(dict(t, inv=False))
    for i in range(2):
        r = tf_map(t)(mpmath.mpf(float(x[i])))
        for k in range(1, 4):
            ref = float(mpmath.diff(lambda rr: mpmath.exp(2 * xinv(rr)), r, k))
            assert abs(ydr[k][i] - ref) <= 1e-9 * max(1, abs(ref)), f"chain rule k={k}: {ydr[k][i]} vs {ref}"
    # factored operators: y = exp(int r_n) is annihilated (checked with mp derivatives)
    roots = [
        {"kind": "sin", "a": 0.3, "b": 0.4, "w": 1.1, "ph": 0.2},
        {"kind": "const", "v": -0.7},
        {"kind": "sin", "a": -0.2, "b": 0.5, "w": 0.9, "ph": 1.0},
    ]
    lead = {"kind": "sin", "a": 1.0, "b": 0.2, "w": 0.7, "ph": 0.0}
    for n in (1, 2, 3):
        rs = roots[:n]
        last = rs[-1]

        def ysol(u, last=last):
            if last["kind"] == "const":
                return mpmath.exp(last["v"] * u)
            a, b, w, ph = (mpmath.mpf(last[k]) for k in ("a", "b", "w", "ph"))
            return mpmath.exp(a * u - b / w * mpmath.cos(w * u + ph))

        cfs = factored_coefs(rs, lead)
        x0 = 0.83
        tot = sum(float(cfs[k](np.array([x0]))[0]) * float(mpmath.diff(ysol, mpmath.mpf(x0), k) if k else ysol(mpmath.mpf(x0))) for k in range(n + 1))
        assert abs(tot) < 1e-10, f"factored operator order {n} residual {tot}"
    # solution derivatives
    sol = {"c": [0.7, -0.3], "p": [0.4, -0.2], "q": [1.3, 0.0], "s": [0.5, 0.0]}

    def ymp(u):
        return sum(c * mpmath.exp(p * u) * mpmath.cos(q * u + s) for c, p, q, s in zip(sol["c"], sol["p"], sol["q"], sol["s"]))

    for k in range(4):
        ref = float(mpmath.diff(ymp, mpmath.mpf("0.9"), k)) if k else float(ymp(mpmath.mpf("0.9")))
        assert abs(float(y_deriv(sol, np.array([0.9]), k)[0]) - ref) < 1e-12
    cf = {"kind": "sin", "a": 0.3, "b": 0.4, "w": 1.1, "ph": 0.2}
    for k in range(3):
        ref = float(mpmath.diff(lambda u: 0.3 + 0.4 * mpmath.sin(1.1 * u + 0.2), mpmath.mpf("0.9"), k)) if k else 0.3 + 0.4 * math.sin(1.1 * 0.9 + 0.2)
        assert abs(float(coef_value(cf, np.array([0.9]), k)[0]) - ref) < 1e-12
