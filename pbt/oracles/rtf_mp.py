"""Reference radial transformations in mpmath (40 digits), shared by C03 and C04.

Every forward map r(x) and inverse map x(r) below is typed from the *class docstring* of
grid/rtransform.py (the formulas a user reads), never from the method bodies.  Derivatives are
obtained with ``mp.diff`` (numerical differentiation at 40 digits, orders 1..4), so no
hand-derived derivative formula of the library is shared.  The self test re-types every formula a
second time in SymPy, differentiates it symbolically and compares with ``mp.diff``.

Two docstrings are typographically garbled; the reading used here is pinned by the statements
the same docstring makes in words (r(0) = rmin and r(b) = rmax) and by the documented inverse:

* ExpRTransform     r(x) = rmin * exp(x * log(rmax / rmin) / b)
  (documented inverse x(r) = log(r/rmin) * b / log(rmax/rmin))
* PowerRTransform   r(x) = rmin * (x + 1) ** ((log rmax - log rmin) / log(b + 1))
  (documented inverse x(r) = (r/rmin) ** (log(b+1) / (log rmax - log rmin)) - 1)

A transform is described by a JSON-able dict::

    {"cls": "Becke", "rmin": .., "R": .., "trim": bool}          also MultiExp
    {"cls": "Knowles", "rmin": .., "R": .., "k": int|float, "trim": bool}
    {"cls": "Handy", "rmin": .., "R": .., "m": int|float, "trim": bool}
    {"cls": "HandyMod", "rmin": .., "rmax": .., "m": int|float, "trim": bool}
    {"cls": "LinearFinite", "rmin": .., "rmax": ..}
    {"cls": "Identity"}
    {"cls": "LinearInfinite"|"Exp"|"Power", "rmin": .., "rmax": .., "b": float|None}
    {"cls": "Hyperbolic", "a": .., "b": ..}
    {"cls": "Inverse", "inner": {...}}
"""
from __future__ import annotations

import mpmath as mp
from hypothesis import strategies as st

DPS = 40
mp.mp.dps = DPS
INF = mp.inf

PM1 = ("Becke", "LinearFinite", "MultiExp", "Knowles", "Handy", "HandyMod")
BSCALED = ("LinearInfinite", "Exp", "Power")
ZINF = ("Identity",) + BSCALED + ("Hyperbolic",)
BASE = PM1 + ZINF
TRIMMABLE = ("Becke", "MultiExp", "Knowles", "Handy", "HandyMod")
TRIM_VALUE = 1e16


def M(v):
    """Exact mpf of a Python int/float (binary value, no decimal re-reading)."""
    return mp.mpf(v)


def name_of(desc):
    return desc["cls"] if desc["cls"] != "Inverse" else f"Inverse({name_of(desc['inner'])})"


def base_of(desc):
    return desc if desc["cls"] != "Inverse" else base_of(desc["inner"])


def n_inversions(desc):
    return 0 if desc["cls"] != "Inverse" else 1 + n_inversions(desc["inner"])


class Ref:
    """Forward map F, inverse map G and the facts about the map that follow from the docstring."""

    def __init__(self, F, G, xlo, xhi, ylo, yhi, increasing, px, py, ends):
        self.F, self.G = F, G
        self.xlo, self.xhi, self.ylo, self.yhi = xlo, xhi, ylo, yhi  # domain of use / its image (lo<hi)
        self.increasing = increasing
        self.px, self.py = px, py  # additive parameter scales in x space / r space (backward-error model)
        self.ends = ends  # {x_end: F(x_end)} for the closed ends (limits), mp numbers or +-inf

    def inverted(self):
        ends = {v: k for k, v in self.ends.items()}
        return Ref(self.G, self.F, self.ylo, self.yhi, self.xlo, self.xhi, self.increasing, self.py, self.px, ends)

    def F_closed(self, x):
        """F at a point of the closed domain of use, end points by their limits."""
        x = M(x) if not isinstance(x, mp.mpf) else x
        for e, v in self.ends.items():
            if x == e:
                return v
        return self.F(x)


def ref(desc, b=None) -> Ref:
    """Reference model of the transform described by ``desc``.

    ``b`` overrides desc["b"] for the b-scaled maps whose scale is inferred from the first array.
    """
    c = desc["cls"]
    if c == "Inverse":
        return ref(desc["inner"], b).inverted()
    one, two = mp.mpf(1), mp.mpf(2)
    if c == "Becke":
        rmin, R = M(desc["rmin"]), M(desc["R"])
        return Ref(
            lambda x: R * (1 + x) / (1 - x) + rmin,
            lambda r: (r - rmin - R) / (r - rmin + R),
            -one, one, rmin, INF, True, one, abs(rmin) + R, {-one: rmin, one: INF},
        )
    if c == "LinearFinite":
        rmin, rmax = M(desc["rmin"]), M(desc["rmax"])
        return Ref(
            lambda x: (rmax - rmin) / 2 * (1 + x) + rmin,
            lambda r: (2 * r - (rmax + rmin)) / (rmax - rmin),
            -one, one, rmin, rmax, True, one, abs(rmin) + abs(rmax), {-one: rmin, one: rmax},
        )
    if c == "Identity":
        zero = mp.mpf(0)
        return Ref(lambda x: x + 0, lambda r: r + 0, zero, INF, zero, INF, True, zero, zero, {zero: zero, INF: INF})
    if c in BSCALED:
        rmin, rmax = M(desc["rmin"]), M(desc["rmax"])
        bb = M(desc["b"] if b is None else b)
        zero = mp.mpf(0)
        py = abs(rmin) + abs(rmax)
        if c == "LinearInfinite":
            F = lambda x: (rmax - rmin) / bb * x + rmin
            G = lambda r: (r - rmin) * bb / (rmax - rmin)
        elif c == "Exp":
            F = lambda x: rmin * mp.exp(x * mp.log(rmax / rmin) / bb)
            G = lambda r: mp.log(r / rmin) * bb / mp.log(rmax / rmin)
        else:
            F = lambda x: rmin * (x + 1) ** ((mp.log(rmax) - mp.log(rmin)) / mp.log(bb + 1))
            G = lambda r: (r / rmin) ** (mp.log(bb + 1) / (mp.log(rmax) - mp.log(rmin))) - 1
        # documented reference points: r(0) = rmin, r(b) = rmax; the domain is [0, inf) and r(inf) = inf
        return Ref(F, G, zero, INF, rmin, INF, True, one, py, {zero: rmin, bb: rmax, INF: INF})
    if c == "Hyperbolic":
        a, bb = M(desc["a"]), M(desc["b"])
        zero = mp.mpf(0)
        # domain of use [0, 1/b): the documented map has its pole at x = 1/b
        return Ref(
            lambda x: a * x / (1 - bb * x),
            lambda r: r / (a + bb * r),
            zero, 1 / bb, zero, INF, True, 1 / bb, a / bb, {zero: zero, 1 / bb: INF},
        )
    if c == "MultiExp":
        rmin, R = M(desc["rmin"]), M(desc["R"])
        return Ref(
            lambda x: -R * mp.log((x + 1) / 2) + rmin,
            lambda r: 2 * mp.exp(-(r - rmin) / R) - 1,
            -one, one, rmin, INF, False, one, abs(rmin) + R, {-one: INF, one: rmin},
        )
    if c == "Knowles":
        rmin, R, k = M(desc["rmin"]), M(desc["R"]), M(desc["k"])
        return Ref(
            lambda x: rmin - R * mp.log(1 - two ** (-k) * (x + 1) ** k),
            lambda r: 2 * (1 - mp.exp(-(r - rmin) / R)) ** (1 / k) - 1,
            -one, one, rmin, INF, True, one, abs(rmin) + R, {-one: rmin, one: INF},
        )
    if c == "Handy":
        rmin, R, m = M(desc["rmin"]), M(desc["R"]), M(desc["m"])

        def G(r):
            s, t = (r - rmin) ** (1 / m), R ** (1 / m)
            return (s - t) / (s + t)

        return Ref(
            lambda x: R * ((1 + x) / (1 - x)) ** m + rmin,
            G, -one, one, rmin, INF, True, one, abs(rmin) + R, {-one: rmin, one: INF},
        )
    if c == "HandyMod":
        rmin, rmax, m = M(desc["rmin"]), M(desc["rmax"]), M(desc["m"])
        s, tm = rmax - rmin, two**m

        def F(x):
            q = (1 + x) ** m
            return q * s / (tm * (1 - tm + s) - q * (s - tm)) + rmin

        def G(r):
            return 2 * ((r - rmin) * (s - tm + 1) / ((r - rmin) * (s - tm) + s)) ** (1 / m) - 1

        return Ref(F, G, -one, one, rmin, rmax, True, one, abs(rmin) + abs(rmax) + tm, {-one: rmin, one: rmax})
    raise ValueError(f"unknown transform class {c}")


def derivs(H, p, nmax=4):
    """[H'(p), ..., H^(nmax)(p)] by numerical differentiation at DPS digits; None where mpmath cannot.

    A None (branch point, pole, complex value) means the *oracle* has no reference there.
    """
    out = []
    for n in range(1, nmax + 1):
        try:
            v = mp.diff(H, p, n)
        except (ZeroDivisionError, ValueError, mp.libmp.libmpf.ComplexResult, TypeError):
            v = None
        if v is not None and (isinstance(v, mp.mpc) or not mp.isfinite(v)):
            v = None
        out.append(v)
    return out


def value(H, p):
    try:
        v = H(p)
    except (ZeroDivisionError, ValueError, mp.libmp.libmpf.ComplexResult, TypeError):
        return None
    if isinstance(v, mp.mpc) or not mp.isfinite(v):
        return None
    return v


# ---------------------------------------------------------------------------------------------
# building the library object from a descriptor
def build(desc):
    import grid.rtransform as rt

    c = desc["cls"]
    if c == "Inverse":
        return rt.InverseRTransform(build(desc["inner"]))
    if c in ("Becke", "MultiExp"):
        return getattr(rt, c + "RTransform")(desc["rmin"], desc["R"], trim_inf=desc["trim"])
    if c == "Knowles":
        return rt.KnowlesRTransform(desc["rmin"], desc["R"], desc["k"], trim_inf=desc["trim"])
    if c == "Handy":
        return rt.HandyRTransform(desc["rmin"], desc["R"], desc["m"], trim_inf=desc["trim"])
    if c == "HandyMod":
        return rt.HandyModRTransform(desc["rmin"], desc["rmax"], desc["m"], trim_inf=desc["trim"])
    if c == "LinearFinite":
        return rt.LinearFiniteRTransform(desc["rmin"], desc["rmax"])
    if c == "Identity":
        return rt.IdentityRTransform()
    if c in BSCALED:
        return getattr(rt, c + "RTransform")(desc["rmin"], desc["rmax"], b=desc["b"])
    if c == "Hyperbolic":
        return rt.HyperbolicRTransform(desc["a"], desc["b"])
    raise ValueError(c)


def trims(desc):
    """True if the (innermost) class has a trim_inf flag and it is on."""
    d = base_of(desc)
    return bool(d.get("trim", False)) and d["cls"] in TRIMMABLE


def handymod_admissible(desc, margin=0.0):
    """rmax - rmin > 2^m - 1 (+margin): otherwise the documented map has a pole inside (-1, 1]."""
    return (M(desc["rmax"]) - M(desc["rmin"])) > (mp.mpf(2) ** M(desc["m"]) - 1 + margin)


def knowles_end_buggy_model(base, got):
    """Buggy model of the recorded finding 'Knowles end point rounding' (C03 and its C04 symptom): at x = 1 the
    library forms 1 - fl(2^-k)*fl(2^k); for a non-integer k the product is not always exactly 1, which gives
    log(negative) = nan or log(1.1e-16..2.2e-16) ~ -36 instead of log(0) = -inf.  True only when ``got`` (the
    value returned for x = 1) is what that model predicts."""
    import numpy as np

    k = base["k"]
    if base["cls"] != "Knowles" or isinstance(k, int) or float(k) == int(k):
        return False
    prod = (2 ** -k) * np.power(np.array([2.0]), k)[0]
    if prod == 1.0:
        return False
    if prod > 1.0:
        return bool(np.isnan(got))
    model = base["rmin"] - base["R"] * np.log(1.0 - prod)
    return bool(abs(got - model) <= 1e-12 * max(1.0, abs(model)))


# ---------------------------------------------------------------------------------------------
# generators (shared by C03 and C04): parameters drawn inside each class's admissible set
def _f(lo, hi):
    return st.floats(lo, hi, allow_nan=False, allow_infinity=False, width=64)


def _rmin(positive=False, lo=None):
    if positive:
        return st.one_of(_f(0.01, 2.0), st.sampled_from([0.01, 0.5, 1.0, 2.0]))
    if lo is not None:
        return st.one_of(st.just(0.0), _f(lo, 0.0), st.just(lo))
    return st.one_of(st.just(0.0), _f(0.0, 2.0), st.sampled_from([0.25, 1.0, 2.0]))


def _R():
    return st.one_of(_f(0.05, 20.0), st.sampled_from([0.05, 1.0, 1.5, 20.0]))


def _km():
    """k or m: integers 1..6 and non-integers in [0.5, 6] (the constructors admit every value > 0)."""
    return st.one_of(st.integers(1, 6), st.integers(3, 6), _f(0.5, 6.0), _f(1.0, 6.0), st.sampled_from([0.5, 1.5, 2.5, 3.0, 4.5]))


def _b():
    return st.one_of(_f(1.0, 200.0), st.sampled_from([1.0, 7.0, 30.0, 200.0]), st.integers(1, 200).map(float))


@st.composite
def base_desc(draw, cls, rmin_nonpos=False, explicit_b=False, hyper_n=1):
    """Descriptor of one of the 11 direct classes.  rmin_nonpos: rmin in [-2, 0] (so that the
    codomain contains [0, inf) or [-1, 1] when the transform is to be inverted)."""
    rmin = draw(_rmin(lo=-2.0)) if rmin_nonpos else draw(_rmin())
    if cls in ("Becke", "MultiExp"):
        return {"cls": cls, "rmin": rmin, "R": draw(_R()), "trim": draw(st.booleans())}
    if cls == "Knowles":
        return {"cls": cls, "rmin": rmin, "R": draw(_R()), "k": draw(_km()), "trim": draw(st.booleans())}
    if cls == "Handy":
        return {"cls": cls, "rmin": rmin, "R": draw(_R()), "m": draw(_km()), "trim": draw(st.booleans())}
    if cls == "HandyMod":
        m = draw(_km())
        gap = draw(st.one_of(_f(0.01, 60.0), _f(0.01, 1.0), st.sampled_from([0.01, 1.0, 39.7])))
        rmax = rmin + (2.0**m - 1.0) + gap
        return {"cls": cls, "rmin": rmin, "rmax": rmax, "m": m, "trim": draw(st.booleans())}
    if cls == "LinearFinite":
        size = draw(st.one_of(_f(0.05, 40.0), st.sampled_from([0.05, 2.0, 5.2])))
        return {"cls": cls, "rmin": rmin, "rmax": rmin + size}
    if cls == "Identity":
        return {"cls": cls}
    if cls in BSCALED:
        if cls != "LinearInfinite":
            rmin = draw(_rmin(positive=True))
            rmax = rmin * draw(st.one_of(_f(1.05, 400.0), st.sampled_from([1.05, 18.0])))
        else:
            rmax = rmin + draw(st.one_of(_f(0.05, 40.0), st.sampled_from([0.05, 5.2])))
        b = draw(_b()) if (explicit_b or draw(st.booleans())) else None
        return {"cls": cls, "rmin": rmin, "rmax": rmax, "b": b}
    if cls == "Hyperbolic":
        # b*(npoints-1) < 1 is demanded by every method for an array of npoints
        frac = draw(st.one_of(_f(0.01, 0.99), st.sampled_from([0.05, 0.5, 0.99])))
        b = frac / (hyper_n - 1) if hyper_n > 1 else draw(st.one_of(_f(0.005, 50.0), st.just(0.05)))
        return {"cls": cls, "a": draw(st.one_of(_f(0.05, 20.0), st.just(0.7))), "b": b}
    raise ValueError(cls)


# ---------------------------------------------------------------------------------------------
def selftest():
    """Oracle self-check: (1) G(F(x)) = x and the documented reference points in mpmath,
    (2) mp.diff orders 1..4 against SymPy symbolic derivatives of separately typed expressions
    (all parameters are binary-exact, so both sides see the same numbers)."""
    import sympy as sp

    x = sp.Symbol("x")
    q = sp.Rational
    rmin, R, rmax, b = q(1, 4), q(3, 2), q(11, 2), q(7)
    fl = float

    def num(v):
        return int(v) if v == int(v) else float(v)

    forms = [
        ({"cls": "Becke", "rmin": fl(rmin), "R": fl(R), "trim": True}, R * (1 + x) / (1 - x) + rmin, [-0.75, 0.25, 0.875]),
        ({"cls": "LinearFinite", "rmin": fl(rmin), "rmax": fl(rmax)}, (rmax - rmin) / 2 * (1 + x) + rmin, [-0.75, 0.875]),
        ({"cls": "Identity"}, x, [0.5, 6.0]),
        ({"cls": "LinearInfinite", "rmin": fl(rmin), "rmax": fl(rmax), "b": 7.0}, (rmax - rmin) / b * x + rmin, [0.5, 6.0]),
        ({"cls": "Exp", "rmin": fl(rmin), "rmax": fl(rmax), "b": 7.0}, rmin * sp.exp(x * sp.log(rmax / rmin) / b), [0.5, 6.0]),
        ({"cls": "Power", "rmin": fl(rmin), "rmax": fl(rmax), "b": 7.0}, rmin * (x + 1) ** (sp.log(rmax / rmin) / sp.log(b + 1)), [0.5, 6.0]),
        ({"cls": "Hyperbolic", "a": 0.75, "b": 0.0625}, q(3, 4) * x / (1 - q(1, 16) * x), [0.5, 6.0, 15.0]),
        ({"cls": "MultiExp", "rmin": fl(rmin), "R": fl(R), "trim": True}, -R * sp.log((x + 1) / 2) + rmin, [-0.75, 0.875]),
    ]
    for kk in (q(1), q(3), q(5, 2), q(1, 2)):
        pts = [-0.75, 0.25, 0.875]
        forms.append(({"cls": "Knowles", "rmin": fl(rmin), "R": fl(R), "k": num(kk), "trim": True},
                      rmin - R * sp.log(1 - 2 ** (-kk) * (x + 1) ** kk), pts))
        forms.append(({"cls": "Handy", "rmin": fl(rmin), "R": fl(R), "m": num(kk), "trim": True},
                      R * ((1 + x) / (1 - x)) ** kk + rmin, pts))
        s = 40 - rmin
        forms.append(({"cls": "HandyMod", "rmin": fl(rmin), "rmax": 40.0, "m": num(kk), "trim": True},
                      (1 + x) ** kk * s / (2**kk * (1 - 2**kk + s) - (1 + x) ** kk * (s - 2**kk)) + rmin, pts))
    tiny = mp.mpf(10) ** (-30)
    for desc, expr, pts in forms:
        rf = ref(desc)
        for p in pts:
            pm = M(p)
            fv = rf.F(pm)
            if abs(rf.G(fv) - pm) > tiny * max(1, abs(pm)):
                raise AssertionError(f"rtf_mp selftest: G(F(x)) != x for {desc} at {p}")
            ds = [fv] + derivs(rf.F, pm, 4)
            for n in range(0, 5):
                sym = sp.diff(expr, x, n) if n else expr
                want = mp.mpf(str(sp.N(sym.subs(x, q(*float(p).as_integer_ratio())), 50)))
                if ds[n] is None or abs(ds[n] - want) > tiny * max(1, abs(want)):
                    raise AssertionError(f"rtf_mp selftest: order-{n} derivative of {desc} at {p}: mp {ds[n]} vs sympy {want}")
            # derivatives of the documented inverse against the inverse-function theorem applied to sympy's F', F''
            g1 = derivs(rf.G, fv, 2)
            f1 = mp.mpf(str(sp.N(sp.diff(expr, x, 1).subs(x, q(*float(p).as_integer_ratio())), 50)))
            f2 = mp.mpf(str(sp.N(sp.diff(expr, x, 2).subs(x, q(*float(p).as_integer_ratio())), 50)))
            if g1[0] is None or abs(g1[0] - 1 / f1) > tiny * max(1, abs(1 / f1)):
                raise AssertionError(f"rtf_mp selftest: documented inverse of {desc} is not the inverse (G' != 1/F') at {p}")
            if g1[1] is None or abs(g1[1] + f2 / f1**3) > tiny * max(1, abs(f2 / f1**3)):
                raise AssertionError(f"rtf_mp selftest: G'' != -F''/F'^3 for {desc} at {p}")
    # documented reference points
    for cls in BSCALED:
        rf = ref({"cls": cls, "rmin": 0.25, "rmax": 5.5, "b": 7.0})
        if abs(rf.F(M(0)) - M(0.25)) > tiny or abs(rf.F(M(7.0)) - M(5.5)) > tiny:
            raise AssertionError(f"rtf_mp selftest: {cls} does not send 0, b to rmin, rmax")
    rf = ref({"cls": "HandyMod", "rmin": 0.25, "rmax": 40.0, "m": 2.5, "trim": True})
    if abs(rf.F(M(1)) - 40) > tiny or abs(rf.F(M(-1)) - M(0.25)) > tiny:
        raise AssertionError("rtf_mp selftest: HandyMod end points")
    inv = ref({"cls": "Inverse", "inner": {"cls": "Becke", "rmin": 0.0, "R": 1.5, "trim": True}})
    if inv.F_closed(INF) != 1 or inv.F_closed(M(0)) != -1:
        raise AssertionError("rtf_mp selftest: inverted end points")


if __name__ == "__main__":
    import time

    t0 = time.time()
    selftest()
    print("rtf_mp selftest ok", round(time.time() - t0, 2), "s")
