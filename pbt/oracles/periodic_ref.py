"""Brute-force reference for periodic local grids (C11) and the plain ball filter (C10).

Definition level: an image is a pair (parent index i, integer vector T); its position is
``p_i + T @ A`` (rows of ``A`` are the lattice vectors).  The reference enumerates *every*
integer vector in a box that provably contains all images inside the sphere and filters by
the Euclidean distance - no k-d tree, no fractional intervals, no ceil/floor bounds of the
library.

Box: with the normal-equation pseudo-inverse ``B = A^T (A A^T)^-1`` (so ``A B = 1``) and any
reference point ``m``::

    p_i + T A - c = x, |x| <= r   =>   T = ((c - m) + x - (p_i - m)) B
    |T_k - ((c - m) B)_k| <= (r + max_i |p_i - m|) * |B[:, k]|

The half width is rounded up and widened by ``MARGIN`` = 2 more integers; the outermost layer of
the box must therefore never contain a hit, which ``enumerate_images`` asserts on every call
(a run-time self check of the bound).

Everything works on 2-D arrays; 1-D grids are passed as (N,1) with lattice (K,1).
"""
from __future__ import annotations

import itertools

import numpy as np

MARGIN = 2
#: a pair whose distance differs from the radius by less than this (times the length scale) is
#: ambiguous: neither required nor forbidden
BOUNDARY = 1e-9


class OracleError(Exception):
    """The reference itself is inconsistent (harness error, never a violation)."""


def pinv_rows(A):
    """Pseudo-inverse B (d,K) of a full-row-rank (K,d) matrix via the normal equations."""
    A = np.asarray(A, dtype=float)
    K, d = A.shape
    if K == 0:
        return np.zeros((d, 0))
    G = A @ A.T
    return A.T @ np.linalg.inv(G)


def sigma_min(A):
    """Smallest singular value of the (K,d) lattice matrix from the eigenvalues of A A^T."""
    A = np.asarray(A, dtype=float)
    if A.shape[0] == 0:
        return np.inf
    ev = np.linalg.eigvalsh(A @ A.T)
    return float(np.sqrt(max(ev[0], 0.0)))


def plane_spacings(A):
    """Distance between adjacent lattice planes per vector: 1/|B[:,k]|."""
    B = pinv_rows(A)
    return 1.0 / np.sqrt(np.sum(B * B, axis=0)) if B.shape[1] else np.zeros(0)


def dist(points, center):
    """Euclidean distances of the rows of ``points`` (N,d) to ``center`` (d,) - plain sum of squares."""
    diff = np.asarray(points, dtype=float) - np.asarray(center, dtype=float)
    return np.sqrt(np.sum(diff * diff, axis=-1))


def scale_of(points, center, radius):
    s = 1.0
    if np.size(points):
        s = max(s, float(np.max(np.abs(points))))
    if np.size(center):
        s = max(s, float(np.max(np.abs(center))))
    if np.isfinite(radius):
        s = max(s, float(radius))
    return s


def ball(points, center, radius):
    """Plain (non-periodic) ball: (required, ambiguous) boolean masks over the rows of points.

    required  : certainly inside (d <= r - tol, or d == 0 exactly, or r == inf)
    ambiguous : within tol of the sphere and not an exact coincidence
    everything else is certainly outside.
    """
    d = dist(points, center)
    if radius == np.inf:
        return np.ones(len(d), dtype=bool), np.zeros(len(d), dtype=bool)
    tol = BOUNDARY * scale_of(points, center, radius)
    # the centre is bit-identical to the point: inside for every r >= 0 (d == 0 alone could be an underflow)
    exact = np.all(np.asarray(points, dtype=float) == np.asarray(center, dtype=float), axis=-1)
    amb = (np.abs(d - radius) < tol) & ~exact
    req = ((d <= radius) | exact) & ~amb
    return req, amb


def box(points, A, center, radius):
    """Integer box (lo, hi) per lattice vector that contains every image inside the sphere."""
    A = np.asarray(A, dtype=float)
    B = pinv_rows(A)
    K = A.shape[0]
    if K == 0:
        return np.zeros(0, dtype=int), np.zeros(0, dtype=int)
    m = np.mean(points, axis=0) if len(points) else np.zeros(A.shape[1])
    ext = float(np.max(dist(points, m))) if len(points) else 0.0
    mid = (np.asarray(center, dtype=float) - m) @ B
    half = (radius + ext) * np.sqrt(np.sum(B * B, axis=0))
    lo = np.floor(mid - half).astype(int) - MARGIN
    hi = np.ceil(mid + half).astype(int) + MARGIN
    return lo, hi


def box_count(points, A, center, radius):
    lo, hi = box(points, A, center, radius)
    return int(np.prod((hi - lo + 1).astype(float))) if len(lo) else 1


def enumerate_images(points, A, center, radius, chunk=20000):
    """All images within the sphere.

    Returns (req, amb): two lists of (i, T) with T a tuple of ints; ``req`` certainly inside,
    ``amb`` within the boundary tolerance (excluded from every comparison).
    """
    points = np.asarray(points, dtype=float)
    A = np.asarray(A, dtype=float)
    center = np.asarray(center, dtype=float)
    N, d = points.shape
    K = A.shape[0]
    if not np.isfinite(radius) or radius < 0:
        raise OracleError("finite non-negative radius expected")
    lo, hi = box(points, A, center, radius)
    tol = BOUNDARY * scale_of(points, center, radius)
    req, amb = [], []
    if N == 0:
        return req, amb
    ranges = [range(int(a), int(b) + 1) for a, b in zip(lo, hi)]
    it = itertools.product(*ranges)
    while True:
        Ts = list(itertools.islice(it, chunk))
        if not Ts:
            break
        Ta = np.array(Ts, dtype=int).reshape(len(Ts), K)
        delta = Ta @ A if K else np.zeros((len(Ts), d))
        pos = points[None, :, :] + delta[:, None, :]
        dd = dist(pos, center)  # (M, N)
        near = np.abs(dd - radius) < tol
        # a point bit-identical to the centre (zero translation) is inside for every r >= 0: its distance is
        # exactly 0, not a rounded quantity (d == 0 alone could be an underflow).  Since fix fe2fbca the
        # periodic grid must return it at r == 0 as well, like the plain grid does.
        zero_T = np.all(Ta == 0, axis=1) if K else np.ones(len(Ts), dtype=bool)
        near &= ~(zero_T[:, None] & np.all(points == center, axis=-1)[None, :])
        inside = (dd <= radius) | near
        if not inside.any():
            continue
        tt, ii = np.nonzero(inside)
        for t, i in zip(tt, ii):
            T = tuple(int(v) for v in Ta[t])
            if K and any(T[k] == lo[k] or T[k] == hi[k] for k in range(K)):
                raise OracleError(f"image {T} on the outermost layer of the enumeration box {list(lo)}..{list(hi)}")
            (amb if near[t, i] else req).append((int(i), T))
    return req, amb


def decompose(pos, parent, A, B=None):
    """Integer translation T with pos ~= parent + T @ A, and the residual |pos - parent - T A|."""
    A = np.asarray(A, dtype=float)
    if B is None:
        B = pinv_rows(A)
    diff = np.asarray(pos, dtype=float) - np.asarray(parent, dtype=float)
    if A.shape[0] == 0:
        return (), float(np.sqrt(np.sum(diff * diff)))
    Tf = diff @ B
    T = np.rint(Tf).astype(int)
    res = diff - T @ A
    return tuple(int(v) for v in T), float(np.sqrt(np.sum(res * res)))


def selftest():
    # hand case 1: 1-D lattice a=1, points 0.1 and 0.6, centre 0.0, radius 1.0
    # images: 0.1+T (T=-1,0: -0.9, 0.1), 0.6+T (T=-1,0: -0.4, 0.6)  -> 4 images
    req, amb = enumerate_images(np.array([[0.1], [0.6]]), np.array([[1.0]]), np.array([0.0]), 1.0)
    want = sorted([(0, (-1,)), (0, (0,)), (1, (-1,)), (1, (0,))])
    if sorted(req) != want or amb:
        raise OracleError(f"hand case 1: {sorted(req)} {amb}")
    # hand case 2: square lattice side 1, one point at the origin, radius 1.2 around the origin:
    # origin + 4 nearest neighbours (distance 1); diagonal neighbours at 1.414 are outside
    req, amb = enumerate_images(np.zeros((1, 2)), np.eye(2), np.zeros(2), 1.2)
    if sorted(T for _, T in req) != sorted([(0, 0), (1, 0), (-1, 0), (0, 1), (0, -1)]) or amb:
        raise OracleError(f"hand case 2: {req}")
    # hand case 3: same with radius exactly 1 -> the four neighbours are ambiguous, the origin is required
    req, amb = enumerate_images(np.zeros((1, 2)), np.eye(2), np.zeros(2), 1.0)
    if [T for _, T in req] != [(0, 0)] or len(amb) != 4:
        raise OracleError(f"hand case 3: {req} {amb}")
    # hand case 4: negative skewed vector in 2-D with a single lattice vector (-1, 0.5), point (0.2, 0.1)
    # images p + T a: T=1 -> (-0.8, 0.6), T=-1 -> (1.2, -0.4); centre (-0.8, 0.6) radius 0.1 -> only T=1
    req, amb = enumerate_images(np.array([[0.2, 0.1]]), np.array([[-1.0, 0.5]]), np.array([-0.8, 0.6]), 0.1)
    if req != [(0, (1,))] or amb:
        raise OracleError(f"hand case 4: {req} {amb}")
    # hand case 5: no lattice vectors -> plain ball
    req, amb = enumerate_images(np.array([[0.0, 0.0], [3.0, 0.0]]), np.zeros((0, 2)), np.array([0.1, 0.0]), 1.0)
    if req != [(0, ())] or amb:
        raise OracleError(f"hand case 5: {req} {amb}")
    # pseudo-inverse and decomposition
    A = np.array([[1.0, 0.5, 0.0], [-0.3, 1.2, 0.4]])
    B = pinv_rows(A)
    if np.max(np.abs(A @ B - np.eye(2))) > 1e-13:
        raise OracleError("pinv_rows")
    T, res = decompose(np.array([0.1, 0.2, 0.3]) + np.array([3, -2]) @ A, np.array([0.1, 0.2, 0.3]), A)
    if T != (3, -2) or res > 1e-14:
        raise OracleError("decompose")
    if abs(sigma_min(A) - np.linalg.svd(A, compute_uv=False).min()) > 1e-12:
        raise OracleError("sigma_min")
    # ball: exact coincidence is inside for r=0 and r tiny; boundary point is ambiguous
    P = np.array([[0.0, 0.0], [1.0, 0.0], [2.0, 0.0]])
    r0, a0 = ball(P, np.array([1.0, 0.0]), 0.0)
    if r0.tolist() != [False, True, False] or a0.any():
        raise OracleError("ball r=0")
    r1, a1 = ball(P, np.array([1.0, 0.0]), 1.0)
    if r1.tolist() != [False, True, False] or a1.tolist() != [True, False, True]:
        raise OracleError("ball boundary")
    r2, a2 = ball(P, np.array([9.0, 9.0]), np.inf)
    if not r2.all() or a2.any():
        raise OracleError("ball inf")
