"""Multiprecision Coulomb potentials of the radial densities documented in grid/coulomb.py.

Definition used (spherical charge distribution, potential regular at 0 and vanishing at infinity):

    V(r) = (4 pi / r) int_0^r rho(s) s^2 ds  +  4 pi int_r^inf rho(s) s ds

for the four documented densities

    s, normalised      rho = (alpha/pi)^{3/2} exp(-alpha s^2)
    s, unnormalised    rho = exp(-alpha s^2)
    p, normalised      rho = (2/3) alpha^{5/2} pi^{-3/2} s^2 exp(-alpha s^2)
    p, unnormalised    rho = s^2 exp(-alpha s^2)

The two radial integrals are moments int s^m exp(-alpha s^2) ds = gamma((m+1)/2, alpha r^2) / (2 alpha^{(m+1)/2})
(lower/upper incomplete gamma functions, evaluated by mpmath at 50 digits).  Neither erf nor any
formula of grid/coulomb.py is used.  ``selftest`` cross-checks the incomplete-gamma evaluation against
direct mpmath quadrature of the definition, the radial Poisson equation (mp.diff), r V -> Q, and
regularity at r = 0.
"""
import mpmath as mp

DPS = 50


def _pref(kind, normalized, A):
    if not normalized:
        return mp.mpf(1)
    if kind == "s":
        return (A / mp.pi) ** mp.mpf("1.5")
    return mp.mpf(2) / 3 * A ** mp.mpf("2.5") / mp.pi ** mp.mpf("1.5")


def _power(kind):
    """rho(s) = pref * s^k * exp(-alpha s^2)."""
    return 0 if kind == "s" else 2


def density(kind, normalized, alpha, s):
    with mp.workdps(DPS):
        A = mp.mpf(alpha)
        s = mp.mpf(s)
        return _pref(kind, normalized, A) * s ** _power(kind) * mp.exp(-A * s * s)


def total_charge(kind, normalized, alpha):
    """Q = 4 pi int_0^inf rho s^2 ds."""
    with mp.workdps(DPS):
        A = mp.mpf(alpha)
        m = _power(kind) + 2
        a = mp.mpf(m + 1) / 2
        return 4 * mp.pi * _pref(kind, normalized, A) * mp.gamma(a) / (2 * A**a)


def potential(kind, normalized, alpha, r):
    """V(r) of the documented density, an mpf (50 digits); alpha, r are taken as exact binary floats."""
    with mp.workdps(DPS):
        A = mp.mpf(alpha)
        r = mp.mpf(r)
        k = _power(kind)
        x = A * r * r
        a_out = mp.mpf(k + 2) / 2  # moment m = k+1
        outer = mp.gammainc(a_out, x, mp.inf) / (2 * A**a_out)
        if r == 0:
            inner = mp.mpf(0)
        else:
            a_in = mp.mpf(k + 3) / 2  # moment m = k+2
            inner = mp.gammainc(a_in, 0, x) / (2 * A**a_in) / r
        return 4 * mp.pi * _pref(kind, normalized, A) * (inner + outer)


def potential_quad(kind, normalized, alpha, r):
    """The same potential by direct quadrature of the definition (slow; self-test only)."""
    with mp.workdps(DPS):
        A = mp.mpf(alpha)
        r = mp.mpf(r)
        sc = 1 / mp.sqrt(A)

        def rho(s):
            return _pref(kind, normalized, A) * s ** _power(kind) * mp.exp(-A * s * s)

        outer = 4 * mp.pi * mp.quad(lambda s: rho(s) * s, [r, r + sc, r + 4 * sc, r + 12 * sc, r + 40 * sc, mp.inf])
        if r == 0:
            return outer
        if r <= sc:
            brk = [0, r]
        elif r <= 12 * sc:
            brk = [0, sc, r]
        else:
            brk = [0, sc, 4 * sc, 12 * sc, r]
        inner = 4 * mp.pi / r * mp.quad(lambda s: rho(s) * s * s, brk)
        return inner + outer


def selftest():
    with mp.workdps(DPS):
        for kind in ("s", "p"):
            for normalized in (True, False):
                for alpha in (1e-6, 0.37, 1e6):
                    q = total_charge(kind, normalized, alpha)
                    qq = 4 * mp.pi * mp.quad(
                        lambda s: density(kind, normalized, alpha, s) * s * s,
                        [0, 1 / mp.sqrt(alpha), 4 / mp.sqrt(alpha), 12 / mp.sqrt(alpha), mp.inf],
                    )
                    assert abs(q - qq) <= mp.mpf(10) ** -30 * abs(q), ("charge", kind, normalized, alpha)
                    if normalized:
                        assert abs(q - 1) < mp.mpf(10) ** -40, ("normalised charge is not 1", kind, alpha)
                    ell = 1 / mp.sqrt(mp.mpf(alpha))
                    for x in (0, mp.mpf("1e-9"), mp.mpf("0.7"), mp.mpf("2.9"), 14, 3000):
                        r = x * ell
                        v = potential(kind, normalized, alpha, r)
                        vq = potential_quad(kind, normalized, alpha, r)
                        assert abs(v - vq) <= mp.mpf(10) ** -28 * abs(vq), ("gammainc vs quad", kind, normalized, alpha, x)
                        if x >= 14:  # r V -> Q
                            assert abs(r * v - q) <= mp.mpf(10) ** -40 * abs(q), ("rV->Q", kind, alpha, x)
                    # radial Poisson equation  (1/r^2) (r^2 V')' = -4 pi rho  at a few radii
                    for x in (mp.mpf("0.21"), mp.mpf("1.3"), mp.mpf("3.1")):
                        r = x * ell
                        f = lambda t: potential(kind, normalized, alpha, t)  # noqa: E731
                        lap = mp.diff(f, r, 2, h=ell * mp.mpf("1e-12")) + 2 / r * mp.diff(f, r, 1, h=ell * mp.mpf("1e-12"))
                        rhs = -4 * mp.pi * density(kind, normalized, alpha, r)
                        assert abs(lap - rhs) <= mp.mpf(10) ** -15 * abs(rhs), ("poisson", kind, normalized, alpha, x, lap, rhs)
                    # regular at the origin: V(0) is the limit of V(r)
                    v0 = potential(kind, normalized, alpha, 0)
                    v1 = potential(kind, normalized, alpha, ell * mp.mpf("1e-20"))
                    assert abs(v0 - v1) <= mp.mpf(10) ** -30 * abs(v0), ("origin", kind, alpha)


if __name__ == "__main__":
    import time

    t = time.time()
    selftest()
    print("coulomb_mp selftest ok", round(time.time() - t, 2), "s")
