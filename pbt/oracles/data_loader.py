"""Independent reader of the shipped angular-grid data.

The degree<->size table is taken from the *file names* in the data directories
(<method>_<degree>_<size>.npz), not from the dictionaries in grid/angular.py, so that it
can serve as an oracle for the library's tables and look-ups.  Weights are returned in the
4*pi normalisation the AngularGrid documents (Lebedev and spherical designs are stored
normalised to 1).
"""
import functools
import os
import re

import numpy as np

METHODS = ("lebedev", "spherical", "maxdet", "ahrens_beylkin")
_DIRS = {"lebedev": "lebedev", "spherical": "spherical_design", "maxdet": "maxdet", "ahrens_beylkin": "ahrens_beylkin"}


def data_root():
    import grid

    return os.path.join(os.path.dirname(os.path.abspath(grid.__file__)), "data")


# Files that are shipped but are not part of the method's documented table: three alternative
# low-order Lebedev point sets (the table documents 6 points for degree 3 and 18 for degree 5) and
# a max-det grid beyond the documented range 1..199.  They cannot be constructed through the API.
UNREACHABLE = {("lebedev", 3, 8), ("lebedev", 3, 12), ("lebedev", 5, 14), ("maxdet", 200, 40401)}


@functools.lru_cache(maxsize=None)
def file_table(method):
    """Sorted list of (degree, size) from ALL file names of one method."""
    d = os.path.join(data_root(), _DIRS[method])
    out = []
    pat = re.compile(rf"^{method}_(\d+)_(\d+)\.npz$")
    for fn in os.listdir(d):
        m = pat.match(fn)
        if m:
            out.append((int(m.group(1)), int(m.group(2))))
    out.sort()
    return tuple(out)


@functools.lru_cache(maxsize=None)
def table(method):
    """Sorted (degree, size) pairs of the grids that can be constructed."""
    return tuple(t for t in file_table(method) if (method,) + t not in UNREACHABLE)


def degrees(method):
    return [d for d, _ in table(method)]


def sizes(method):
    return sorted(s for _, s in table(method))


def size_of_degree(method, degree):
    return dict(table(method))[degree]


def degree_of_size(method, size):
    return {s: d for d, s in table(method)}[size]


def resolve_degree(method, request):
    """Smallest supported degree >= request (None if above the maximum)."""
    cands = [d for d in degrees(method) if d >= request]
    return min(cands) if cands else None


def resolve_size(method, request):
    cands = [s for s in sizes(method) if s >= request]
    return min(cands) if cands else None


def file_path(method, degree):
    return os.path.join(data_root(), _DIRS[method], f"{method}_{degree}_{size_of_degree(method, degree)}.npz")


def load_raw(method, degree):
    with np.load(file_path(method, degree)) as z:
        return np.array(z["points"]), np.array(z["weights"])


@functools.lru_cache(maxsize=64)
def _load_cached(method, degree):
    p, w = load_raw(method, degree)
    if w.shape[0] == 1 and p.shape[0] != 1:
        w = np.ones(p.shape[0]) * w
    if method in ("lebedev", "spherical"):
        w = w * 4 * np.pi
    p.setflags(write=False)
    w.setflags(write=False)
    return p, w


def load(method, degree):
    """(points, weights) of the supported grid with exactly this degree; 4*pi-normalised; read-only arrays."""
    return _load_cached(method, int(degree))


def load_for_request(method, request):
    d = resolve_degree(method, request)
    return (d,) + load(method, d)
