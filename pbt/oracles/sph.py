"""Independent real spherical harmonics (documented convention of grid.utils).

Y_l^m(theta, phi) = N_lm P_l^|m|(cos phi) * { 1 (m=0), sqrt2 cos(m theta) (m>0), sqrt2 sin(|m| theta) (m<0) }
theta = azimuth, phi = polar angle, P_l^m WITHOUT the Condon-Shortley phase, orthonormal on
the sphere; rows in "Horton 2" order m = 0, 1, -1, 2, -2, ..., l, -l for l = 0, 1, ...

Float implementation: fully normalised three-term recurrence (Holmes & Featherstone style,
stable to l > 2000).  mpmath implementation: textbook un-normalised recurrence with exact
factorials at 30+ digits (mp.legenp does not converge at the poles).
"""
import math

import numpy as np


def row_index(l, m):
    """Row of (l, m) in Horton-2 order."""
    return l * l + (0 if m == 0 else (2 * m - 1 if m > 0 else 2 * (-m)))


def lm_list(l_max):
    out = []
    for l in range(l_max + 1):
        out.append((l, 0))
        for m in range(1, l + 1):
            out.append((l, m))
            out.append((l, -m))
    return out


def _nbar_columns(l_max, ct, st):
    """Yield (m, l, Pbar_lm) with Pbar fully normalised so that Pbar*trig is orthonormal (without sqrt2)."""
    pmm = np.full(ct.shape, math.sqrt(1.0 / (4.0 * math.pi)))
    for m in range(0, l_max + 1):
        if m > 0:
            pmm = pmm * st * math.sqrt((2.0 * m + 1.0) / (2.0 * m))
        pl2 = pmm
        yield m, m, pl2
        if m + 1 <= l_max:
            pl1 = math.sqrt(2.0 * m + 3.0) * ct * pmm
            yield m, m + 1, pl1
            for l in range(m + 2, l_max + 1):
                a = math.sqrt((4.0 * l * l - 1.0) / (l * l - m * m))
                b = math.sqrt(((l - 1.0) ** 2 - m * m) / (4.0 * (l - 1.0) ** 2 - 1.0))
                p = a * (ct * pl1 - b * pl2)
                yield m, l, p
                pl2, pl1 = pl1, p


def real_sph_harm(l_max, theta, phi):
    """((l_max+1)^2, N) array, Horton-2 order.  phi must be in [0, pi] (sin phi >= 0)."""
    theta = np.atleast_1d(np.asarray(theta, dtype=float))
    phi = np.atleast_1d(np.asarray(phi, dtype=float))
    ct, st = np.cos(phi), np.sin(phi)
    out = np.zeros(((l_max + 1) ** 2, theta.size))
    s2 = math.sqrt(2.0)
    for m, l, p in _nbar_columns(l_max, ct, st):
        if m == 0:
            out[row_index(l, 0)] = p
        else:
            out[row_index(l, m)] = s2 * p * np.cos(m * theta)
            out[row_index(l, -m)] = s2 * p * np.sin(m * theta)
    return out


def real_sph_harm_xyz(l_max, unit_pts):
    """Harmonics at unit vectors (N,3) without going through angles of the library."""
    x, y, z = np.asarray(unit_pts, dtype=float).T
    ct = np.clip(z, -1.0, 1.0)
    st = np.sqrt(np.maximum(0.0, x * x + y * y))
    theta = np.arctan2(y, x)
    out = np.zeros(((l_max + 1) ** 2, len(z)))
    s2 = math.sqrt(2.0)
    for m, l, p in _nbar_columns(l_max, ct, st):
        if m == 0:
            out[row_index(l, 0)] = p
        else:
            out[row_index(l, m)] = s2 * p * np.cos(m * theta)
            out[row_index(l, -m)] = s2 * p * np.sin(m * theta)
    return out


def quadrature_defect(unit_pts, weights, l_max):
    """max over l<=l_max, m of |sum_i w_i Y_lm(p_i) - sqrt(4 pi) delta_l0|, matrix-free.

    Returns (worst value, (l, m) where it occurs).
    """
    x, y, z = np.asarray(unit_pts, dtype=float).T
    w = np.asarray(weights, dtype=float)
    ct = z
    st = np.sqrt(np.maximum(0.0, 1.0 - z * z))
    theta = np.arctan2(y, x)
    worst = (0.0, (0, 0))
    s2 = math.sqrt(2.0)
    cur_m = -1
    wc = ws = None
    for m, l, p in _nbar_columns(l_max, ct, st):
        if m != cur_m:
            cur_m = m
            wc = w * (np.cos(m * theta) * (s2 if m > 0 else 1.0))
            ws = w * np.sin(m * theta) * s2
        v = abs(float(wc @ p) - (math.sqrt(4.0 * math.pi) if (l == 0 and m == 0) else 0.0))
        if not (v <= worst[0]):
            worst = (v, (l, m))
        if m > 0:
            v = abs(float(ws @ p))
            if not (v <= worst[0]):
                worst = (v, (l, -m))
    return worst


# ---------------------------------------------------------------------------
# mpmath reference (used for spot checks and the oracle self-test)
# ---------------------------------------------------------------------------
def mp_real_sph_harm(l_max, theta, phi, dps=30):
    """dict {(l,m): mpf} at ONE point, from the un-normalised recurrence for P_l^m (no CS phase)."""
    import mpmath as mp

    with mp.workdps(dps):
        theta = mp.mpf(theta)
        phi = mp.mpf(phi)
        c, s = mp.cos(phi), mp.sin(phi)
        # P[m][l]
        out = {}
        pmm = mp.mpf(1)
        for m in range(0, l_max + 1):
            if m > 0:
                pmm = pmm * (2 * m - 1) * s  # P_m^m = (2m-1)!! sin^m  (no (-1)^m)
            pl2 = pmm
            vals = {m: pl2}
            if m + 1 <= l_max:
                pl1 = c * (2 * m + 1) * pmm
                vals[m + 1] = pl1
                for l in range(m + 2, l_max + 1):
                    p = ((2 * l - 1) * c * pl1 - (l + m - 1) * pl2) / (l - m)
                    vals[l] = p
                    pl2, pl1 = pl1, p
            for l, p in vals.items():
                norm = mp.sqrt((2 * l + 1) / (4 * mp.pi) * mp.factorial(l - m) / mp.factorial(l + m))
                if m == 0:
                    out[(l, 0)] = norm * p
                else:
                    out[(l, m)] = mp.sqrt(2) * norm * p * mp.cos(m * theta)
                    out[(l, -m)] = mp.sqrt(2) * norm * p * mp.sin(m * theta)
        return out


def selftest():
    """Float recurrence vs mpmath at a few points incl. poles; orthonormality on a product rule."""
    pts = [(0.3, 0.0), (1.1, math.pi), (-2.0, 1e-9), (5.0, 1.234), (0.7, math.pi / 2), (2.5, 3.0)]
    lmax = 12
    for th, ph in pts:
        f = real_sph_harm(lmax, [th], [ph])[:, 0]
        ref = mp_real_sph_harm(lmax, th, ph)
        for (l, m), v in ref.items():
            if abs(f[row_index(l, m)] - float(v)) > 1e-12 * max(1.0, abs(float(v))):
                raise AssertionError(f"sph oracle self-test failed at l={l} m={m} theta={th} phi={ph}: {f[row_index(l, m)]} vs {float(v)}")
    # xyz variant agrees with angle variant
    th = np.array([0.3, 1.0, 4.0])
    ph = np.array([0.4, 2.0, 3.0])
    u = np.stack([np.sin(ph) * np.cos(th), np.sin(ph) * np.sin(th), np.cos(ph)], axis=1)
    if np.max(np.abs(real_sph_harm(8, th, ph) - real_sph_harm_xyz(8, u))) > 1e-13:
        raise AssertionError("sph oracle self-test: xyz and angle variants disagree")


# ---------------------------------------------------------------------------
# additions for C08 / C14: reference derivatives, explicit low-degree solid harmonics
# ---------------------------------------------------------------------------
def mp_real_sph_harm_derivs(l_max, theta, phi, dps=60):
    """(d/dtheta, d/dphi) of every reference harmonic at ONE point, as two dicts {(l,m): mpf}.

    Numerical differentiation of ``mp_real_sph_harm`` itself (symmetric difference, step
    10^(-dps/3), carried out at ``dps`` digits: truncation ~ l^3 10^(-2 dps/3), rounding
    ~ 10^(-2 dps/3)), i.e. no derivative formula is typed in.  ``selftest`` compares it
    with ``mp.diff`` of single harmonics.
    """
    import mpmath as mp

    with mp.workdps(dps):
        h = mp.mpf(10) ** (-(dps // 3))
        th, ph = mp.mpf(theta), mp.mpf(phi)
        tp = mp_real_sph_harm(l_max, th + h, ph, dps=dps)
        tm = mp_real_sph_harm(l_max, th - h, ph, dps=dps)
        pp = mp_real_sph_harm(l_max, th, ph + h, dps=dps)
        pm = mp_real_sph_harm(l_max, th, ph - h, dps=dps)
        dth = {k: (tp[k] - tm[k]) / (2 * h) for k in tp}
        dph = {k: (pp[k] - pm[k]) / (2 * h) for k in pp}
    return dth, dph


def regular_solid_explicit(xyz):
    """Racah-normalised real regular solid harmonics R_lm = sqrt(4pi/(2l+1)) r^l Y_lm for l <= 3
    as explicit Cartesian polynomials (textbook table, e.g. Helgaker/Joergensen/Olsen table 6.3),
    rows in Horton-2 order; shape (16, N).  Independent of every recurrence in this file."""
    x, y, z = np.asarray(xyz, dtype=float).T
    r2 = x * x + y * y + z * z
    s3, s15 = math.sqrt(3.0), math.sqrt(15.0)
    s38, s58 = math.sqrt(3.0 / 8.0), math.sqrt(5.0 / 8.0)
    return np.array(
        [
            np.ones_like(x),
            z,
            x,
            y,
            (3 * z * z - r2) / 2,
            s3 * x * z,
            s3 * y * z,
            s3 / 2 * (x * x - y * y),
            s3 * x * y,
            z * (5 * z * z - 3 * r2) / 2,
            s38 * x * (5 * z * z - r2),
            s38 * y * (5 * z * z - r2),
            s15 / 2 * z * (x * x - y * y),
            s15 * x * y * z,
            s58 * x * (x * x - 3 * y * y),
            s58 * y * (3 * x * x - y * y),
        ]
    )


def solid_harm_xyz(l_max, xyz):
    """Regular solid harmonics sqrt(4pi/(2l+1)) r^l Y_lm at Cartesian displacement vectors (N,3),
    ((l_max+1)^2, N), from the float recurrence at the unit vectors (r = 0: only l = 0 survives)."""
    d = np.asarray(xyz, dtype=float).reshape(-1, 3)
    r = np.sqrt(np.sum(d * d, axis=1))
    unit = np.where(r[:, None] > 0, d / np.where(r > 0, r, 1.0)[:, None], np.array([0.0, 0.0, 1.0]))
    y = real_sph_harm_xyz(l_max, unit)
    out = np.empty_like(y)
    for l in range(l_max + 1):
        rl = np.ones_like(r) if l == 0 else r**l
        out[l * l : (l + 1) ** 2] = math.sqrt(4.0 * math.pi / (2 * l + 1)) * rl * y[l * l : (l + 1) ** 2]
    return out


def selftest_extra():
    """Self-checks of the additions (explicit table vs recurrence, difference quotient vs mp.diff)."""
    import mpmath as mp

    pts = np.array([[0.3, -1.2, 0.7], [0.0, 0.0, 2.0], [0.0, 0.0, -1.5], [1.0, 0.0, 0.0], [-0.4, 0.9, 0.0], [0.0, 0.0, 0.0], [-2.0, -0.1, -0.3]])
    a = regular_solid_explicit(pts)
    b = solid_harm_xyz(3, pts)
    if np.max(np.abs(a - b)) > 1e-13 * 30:
        raise AssertionError(f"sph oracle self-test: explicit solid harmonics disagree with the recurrence ({np.max(np.abs(a - b)):.2e})")
    th, ph = 0.7, 1.9
    dth, dph = mp_real_sph_harm_derivs(5, th, ph)
    with mp.workdps(40):  # mp.diff raises the precision itself; the integrand must not round its argument

        for l, m in [(0, 0), (1, 0), (2, 1), (3, -2), (5, 4), (5, -5), (4, 0)]:
            rt = mp.diff(lambda t: mp_real_sph_harm(l, t, mp.mpf(ph), dps=150)[(l, m)], mp.mpf(th))
            rp = mp.diff(lambda p: mp_real_sph_harm(l, mp.mpf(th), p, dps=150)[(l, m)], mp.mpf(ph))
            if abs(rt - dth[(l, m)]) > mp.mpf(10) ** -25 or abs(rp - dph[(l, m)]) > mp.mpf(10) ** -25:
                raise AssertionError(f"sph oracle self-test: difference quotient vs mp.diff at l={l} m={m}")


def real_sph_harm_ld(l_max, theta, phi):
    """Same definition and recurrence as ``real_sph_harm`` but carried out in ``np.longdouble``
    (coefficients, cos/sin of the polar angle, m*theta), returned as float64.

    With double precision cos(phi) the m=0..few columns lose up to eps*l^2/2 relative to S_l within
    ~1/l of the poles (P_l'(1) = l(l+1)/2); in extended precision the reference error stays below
    eps(double)*S_l for l <= 400 (validated against ``mp_real_sph_harm`` in C08's ``mp`` sub-check).
    On platforms where longdouble == double this silently degrades to ``real_sph_harm`` accuracy.
    """
    ld = np.longdouble
    theta = np.atleast_1d(np.asarray(theta, dtype=float)).astype(ld)
    phi = np.atleast_1d(np.asarray(phi, dtype=float)).astype(ld)
    ct, st = np.cos(phi), np.sin(phi)
    out = np.zeros(((l_max + 1) ** 2, theta.size))
    s2 = np.sqrt(ld(2))
    one = ld(1)
    pi_ld = 4 * np.arctan(one)
    pmm = np.full(ct.shape, np.sqrt(one / (4 * pi_ld)), dtype=ld)
    for m in range(0, l_max + 1):
        if m > 0:
            pmm = pmm * st * np.sqrt(ld(2 * m + 1) / ld(2 * m))
            cm, sm = s2 * np.cos(m * theta), s2 * np.sin(m * theta)
        pl2 = pmm
        cols = [(m, pl2)]
        if m + 1 <= l_max:
            pl1 = np.sqrt(ld(2 * m + 3)) * ct * pmm
            cols.append((m + 1, pl1))
            for l in range(m + 2, l_max + 1):
                a = np.sqrt(ld(4 * l * l - 1) / ld(l * l - m * m))
                b = np.sqrt(ld((l - 1) ** 2 - m * m) / ld(4 * (l - 1) ** 2 - 1))
                p = a * (ct * pl1 - b * pl2)
                cols.append((l, p))
                pl2, pl1 = pl1, p
        for l, p in cols:
            if m == 0:
                out[row_index(l, 0)] = p.astype(float)
            else:
                out[row_index(l, m)] = (p * cm).astype(float)
                out[row_index(l, -m)] = (p * sm).astype(float)
    return out
