"""Independent real spherical harmonics (documented convention of grid.utils).

Y_l^m(theta, phi) = N_lm P_l^|m|(cos phi) * { 1 (m=0), sqrt2 cos(m theta) (m>0), sqrt2 sin(|m| theta) (m<0) }
theta = azimuth, phi = polar angle, P_l^m WITHOUT the Condon-Shortley phase, orthonormal on
the sphere; rows in "Horton 2" order m = 0, 1, -1, 2, -2, ..., l, -l for l = 0, 1, ...

Float implementation: fully normalised three-term recurrence (Holmes & Featherstone style,
stable to l > 2000).  mpmath implementation: textbook un-normalised recurrence with exact
factorials at 30+ digits (mp.legenp does not converge at the poles).
"""
import math

import numpy as np


def row_index(l, m):
    """Row of (l, m) in Horton-2 order."""
    return l * l + (0 if m == 0 else (2 * m - 1 if m > 0 else 2 * (-m)))


def lm_list(l_max):
    out = []
    for l in range(l_max + 1):
        out.append((l, 0))
        for m in range(1, l + 1):
            out.append((l, m))
            out.append((l, -m))
    return out


def _nbar_columns(l_max, ct, st):
    """Yield (m, l, Pbar_lm) with Pbar fully normalised so that Pbar*trig is orthonormal (without sqrt2)."""
    pmm = np.full(ct.shape, math.sqrt(1.0 / (4.0 * math.pi)))
    for m in range(0, l_max + 1):
        if m > 0:
            pmm = pmm * st * math.sqrt((2.0 * m + 1.0) / (2.0 * m))
        pl2 = pmm
        yield m, m, pl2
        if m + 1 <= l_max:
            pl1 = math.sqrt(2.0 * m + 3.0) * ct * pmm
            yield m, m + 1, pl1
            for l in range(m + 2, l_max + 1):
                a = math.sqrt((4.0 * l * l - 1.0) / (l * l - m * m))
                b = math.sqrt(((l - 1.0) ** 2 - m * m) / (4.0 * (l - 1.0) ** 2 - 1.0))
                p = a * (ct * pl1 - b * pl2)
                yield m, l, p
                pl2, pl1 = pl1, p


def real_sph_harm(l_max, theta, phi):
    """((l_max+1)^2, N) array, Horton-2 order.  phi must be in [0, pi] (sin phi >= 0)."""
    theta = np.atleast_1d(np.asarray(theta, dtype=float))
    phi = np.atleast_1d(np.asarray(phi, dtype=float))
    ct, st = np.cos(phi), np.sin(phi)
    out = np.zeros(((l_max + 1) ** 2, theta.size))
    s2 = math.sqrt(2.0)
    for m, l, p in _nbar_columns(l_max, ct, st):
        if m == 0:
            out[row_index(l, 0)] = p
        else:
            out[row_index(l, m)] = s2 * p * np.cos(m * theta)
            out[row_index(l, -m)] = s2 * p * np.sin(m * theta)
    return out


def real_sph_harm_xyz(l_max, unit_pts):
    """Harmonics at unit vectors (N,3) without going through angles of the library."""
    x, y, z = np.asarray(unit_pts, dtype=float).T
    ct = np.clip(z, -1.0, 1.0)
    st = np.sqrt(np.maximum(0.0, x * x + y * y))
    theta = np.arctan2(y, x)
    out = np.zeros(((l_max + 1) ** 2, len(z)))
    s2 = math.sqrt(2.0)
    for m, l, p in _nbar_columns(l_max, ct, st):
        if m == 0:
            out[row_index(l, 0)] = p
        else:
            out[row_index(l, m)] = s2 * p * np.cos(m * theta)
            out[row_index(l, -m)] = s2 * p * np.sin(m * theta)
    return out


def quadrature_defect(unit_pts, weights, l_max):
    """max over l<=l_max, m of |sum_i w_i Y_lm(p_i) - sqrt(4 pi) delta_l0|, matrix-free.

    Returns (worst value, (l, m) where it occurs).
    """
    x, y, z = np.asarray(unit_pts, dtype=float).T
    w = np.asarray(weights, dtype=float)
    ct = z
    st = np.sqrt(np.maximum(0.0, 1.0 - z * z))
    theta = np.arctan2(y, x)
    worst = (0.0, (0, 0))
    s2 = math.sqrt(2.0)
    cur_m = -1
    wc = ws = None
    for m, l, p in _nbar_columns(l_max, ct, st):
        if m != cur_m:
            cur_m = m
            wc = w * (np.cos(m * theta) * (s2 if m > 0 else 1.0))
            ws = w * np.sin(m * theta) * s2
        v = abs(float(wc @ p) - (math.sqrt(4.0 * math.pi) if (l == 0 and m == 0) else 0.0))
        if not (v <= worst[0]):
            worst = (v, (l, m))
        if m > 0:
            v = abs(float(ws @ p))
            if not (v <= worst[0]):
                worst = (v, (l, -m))
    return worst


# ---------------------------------------------------------------------------
# mpmath reference (used for spot checks and the oracle self-test)
# ---------------------------------------------------------------------------
def mp_real_sph_harm(l_max, theta, phi, dps=30):
    """dict {(l,m): mpf} at ONE point, from the un-normalised recurrence for P_l^m (no CS phase)."""
    import mpmath as mp

    with mp.workdps(dps):
        theta = mp.mpf(theta)
        phi = mp.mpf(phi)
        c, s = mp.cos(phi), mp.sin(phi)
        # P[m][l]
        out = {}
        pmm = mp.mpf(1)
        for m in range(0, l_max + 1):
            if m > 0:
                pmm = pmm * (2 * m - 1) * s  # P_m^m = (2m-1)!! sin^m  (no (-1)^m)
            pl2 = pmm
            vals = {m: pl2}
            if m + 1 <= l_max:
                pl1 = c * (2 * m + 1) * pmm
                vals[m + 1] = pl1
                for l in range(m + 2, l_max + 1):
                    p = ((2 * l - 1) * c * pl1 - (l + m - 1) * pl2) / (l - m)
                    vals[l] = p
                    pl2, pl1 = pl1, p
            for l, p in vals.items():
                norm = mp.sqrt((2 * l + 1) / (4 * mp.pi) * mp.factorial(l - m) / mp.factorial(l + m))
                if m == 0:
                    out[(l, 0)] = norm * p
                else:
                    out[(l, m)] = mp.sqrt(2) * norm * p * mp.cos(m * theta)
                    out[(l, -m)] = mp.sqrt(2) * norm * p * mp.sin(m * theta)
        return out


def selftest():
    """Float recurrence vs mpmath at a few points incl. poles; orthonormality on a product rule."""
    pts = [(0.3, 0.0), (1.1, math.pi), (-2.0, 1e-9), (5.0, 1.234), (0.7, math.pi / 2), (2.5, 3.0)]
    lmax = 12
    for th, ph in pts:
        f = real_sph_harm(lmax, [th], [ph])[:, 0]
        ref = mp_real_sph_harm(lmax, th, ph)
        for (l, m), v in ref.items():
            if abs(f[row_index(l, m)] - float(v)) > 1e-12 * max(1.0, abs(float(v))):
                raise AssertionError(f"sph oracle self-test failed at l={l} m={m} theta={th} phi={ph}: {f[row_index(l, m)]} vs {float(v)}")
    # xyz variant agrees with angle variant
    th = np.array([0.3, 1.0, 4.0])
    ph = np.array([0.4, 2.0, 3.0])
    u = np.stack([np.sin(ph) * np.cos(th), np.sin(ph) * np.sin(th), np.cos(ph)], axis=1)
    if np.max(np.abs(real_sph_harm(8, th, ph) - real_sph_harm_xyz(8, u))) > 1e-13:
        raise AssertionError("sph oracle self-test: xyz and angle variants disagree")
