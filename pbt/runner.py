"""./check entry point: tiers, seeds, sharding, shrinking, replay files, evidence, exit codes."""
from __future__ import annotations

import argparse
import importlib
import json
import math
import multiprocessing as mp
import os
import sys
import time
import traceback

from . import known as known_mod
from .core import VERIF_DIR, Ctx, HarnessError, SubCheck, _Encoder, canon, case_hash, run_body, slug

NPROC = int(os.environ.get("VERIF_NPROC", "16"))


class _Found(Exception):
    """Raised inside the Hypothesis test function for the bucket being shrunk."""


def _load_module(prop):
    return importlib.import_module(f"pbt.props.{prop.lower()}")


class _Stats:
    def __init__(self):
        self.evaluations = 0
        self.nt_hashes = set()
        self.all_hashes = set()
        self.classes = {}
        self.samples = {}  # class -> [case]
        self.skips = {}
        self.known = {}  # fid -> [count, example msg, example case]
        self.budget_skipped = 0

    def record(self, case, ctx: Ctx):
        self.evaluations += 1
        h = case_hash(case)
        self.all_hashes.add(h)
        if ctx.nontrivial and not ctx.skips:
            self.nt_hashes.add(h)
        classes = ctx.classes or ["(unclassified)"]
        for c in classes:
            self.classes[c] = self.classes.get(c, 0) + 1
            lst = self.samples.setdefault(c, [])
            if len(lst) < 1 and len(canon(case)) < 4000:
                lst.append(case)
        for s in ctx.skips:
            self.skips[s] = self.skips.get(s, 0) + 1
        for fid, msg in ctx.known_hits:
            ent = self.known.setdefault(fid, [0, msg, case if len(canon(case)) < 4000 else None])
            ent[0] += 1

    def dump(self):
        return {
            "evaluations": self.evaluations,
            "nt_hashes": self.nt_hashes,
            "all_hashes": self.all_hashes,
            "classes": self.classes,
            "samples": self.samples,
            "skips": self.skips,
            "known": self.known,
            "budget_skipped": self.budget_skipped,
        }


def _run_shard(job):
    """Worker: one (subcheck, shard).  Returns a plain dict."""
    try:
        return _run_shard_inner(job)
    except HarnessError as exc:
        return {"sub": job["sub"], "harness_error": str(exc)}
    except Exception as exc:  # noqa: BLE001
        return {"sub": job["sub"], "harness_error": f"{type(exc).__name__}: {exc}\n{traceback.format_exc()}"}


def _run_shard_inner(job):
    import numpy as np

    prop, tier, seed, subname, shard, nshards = (job[k] for k in ("prop", "tier", "seed", "sub", "shard", "nshards"))
    mod = _load_module(prop)
    subs = {s.name: s for s in mod.subchecks(tier, seed)}
    sub: SubCheck = subs[subname]
    kids = known_mod.known_ids(prop)
    stats = _Stats()
    violations = []  # dicts: label, msg, case, shrunk
    t0 = time.time()

    def over_budget():
        return sub.budget_s > 0 and (time.time() - t0) > sub.budget_s

    # 1. enumerated / pinned cases: each exactly once
    if sub.cases:
        seen_labels = set()
        for case in sub.cases[shard::nshards]:
            if over_budget():
                stats.budget_skipped += 1
                continue
            np.random.seed(0)
            ctx = run_body(sub, case, kids)
            stats.record(case, ctx)
            for label, msg in ctx.issues:
                if label not in seen_labels:
                    seen_labels.add(label)
                    violations.append({"label": label, "msg": msg, "case": case, "shrunk": False})

    # 2. generated cases
    n_examples = int(math.ceil(sub.examples / nshards)) if (sub.strategy is not None and sub.examples > 0) else 0
    if n_examples > 0:
        import hypothesis
        from hypothesis import HealthCheck, Phase, Verbosity, given, settings

        phases = [Phase.generate] + ([Phase.shrink] if sub.shrink else [])
        sett = settings(
            max_examples=n_examples,
            database=None,
            deadline=None,
            derandomize=False,
            report_multiple_bugs=False,
            suppress_health_check=list(HealthCheck),
            phases=phases,
            verbosity=Verbosity.quiet,
        )
        suppressed = set(v["label"] for v in violations)
        for _round in range(max(1, sub.max_rounds)):
            state = {"target": None, "last": None}

            def test(case):
                if over_budget() and state["target"] is None:
                    stats.budget_skipped += 1
                    return
                np.random.seed(0)
                ctx = run_body(sub, case, kids)
                stats.record(case, ctx)
                fresh = [(l, m) for l, m in ctx.issues if l not in suppressed]
                if not fresh:
                    return
                if state["target"] is None:
                    state["target"] = fresh[0][0]
                for l, m in fresh:
                    if l == state["target"]:
                        state["last"] = (case, m)
                        raise _Found(l)
                # other buckets are picked up in a later round

            runner = hypothesis.seed(seed * 1000 + shard)(sett(given(sub.strategy)(test)))
            try:
                runner()
            except _Found as exc:
                label = str(exc)
                case, msg = state["last"]
                violations.append({"label": label, "msg": msg, "case": case, "shrunk": bool(sub.shrink)})
                suppressed.add(label)
                continue
            except HarnessError:
                raise
            except Exception as exc:  # Flaky, Unsatisfiable, ...
                if state["last"] is not None and state["target"] is not None:
                    # A discrepancy against the oracle WAS observed, but Hypothesis could not reproduce it when it
                    # replayed the example (FlakyFailure): the outcome depends on state carried between cases in
                    # this process (e.g. a module-level cache in the code under test).  That is a finding about the
                    # code, not about the harness: report the last failing case, unshrunk.
                    case, msg = state["last"]
                    label = state["target"]
                    violations.append({"label": label, "msg": msg + " [not reproducible in isolation: depends on earlier cases in the same process]",
                                       "case": case, "shrunk": False})
                    suppressed.add(label)
                    continue
                raise HarnessError(
                    f"hypothesis failed in {subname} shard {shard}: {type(exc).__name__}: {exc}\n{traceback.format_exc()}"
                ) from exc
            break

    out = stats.dump()
    out.update({"sub": subname, "shard": shard, "violations": violations, "wall": time.time() - t0})
    return out


def _merge(results, subs):
    agg = {}
    for r in results:
        a = agg.setdefault(
            r["sub"],
            {
                "evaluations": 0,
                "nt_hashes": set(),
                "all_hashes": set(),
                "classes": {},
                "samples": {},
                "skips": {},
                "known": {},
                "budget_skipped": 0,
                "violations": {},
            },
        )
        a["evaluations"] += r["evaluations"]
        a["nt_hashes"] |= r["nt_hashes"]
        a["all_hashes"] |= r["all_hashes"]
        a["budget_skipped"] += r["budget_skipped"]
        for k, v in r["classes"].items():
            a["classes"][k] = a["classes"].get(k, 0) + v
        for k, v in r["skips"].items():
            a["skips"][k] = a["skips"].get(k, 0) + v
        for k, v in r["samples"].items():
            lst = a["samples"].setdefault(k, [])
            if len(lst) < 1:
                lst.extend(v[:1])
        for fid, (cnt, msg, case) in r["known"].items():
            ent = a["known"].setdefault(fid, [0, msg, case])
            ent[0] += cnt
        for v in r["violations"]:
            cur = a["violations"].get(v["label"])
            if cur is None or len(canon(v["case"])) < len(canon(cur["case"])):
                a["violations"][v["label"]] = v
    return agg


def _pick_samples(agg, limit=10):
    out = []
    # round-robin over subchecks and classes so that the samples are stratified
    pools = []
    for subname, a in agg.items():
        for cls in sorted(a["samples"]):
            for case in a["samples"][cls]:
                pools.append({"subcheck": subname, "class": cls, "case": case})
    seen = set()
    by_sub = {}
    for p in pools:
        by_sub.setdefault(p["subcheck"], []).append(p)
    while len(out) < limit and any(by_sub.values()):
        for subname in list(by_sub):
            if by_sub[subname]:
                p = by_sub[subname].pop(0)
                key = canon(p["case"])
                if key in seen:
                    continue
                seen.add(key)
                out.append(p)
                if len(out) >= limit:
                    break
    return out


def main(argv=None):
    ap = argparse.ArgumentParser(prog="check")
    ap.add_argument("prop")
    ap.add_argument("tier", nargs="?", default=os.environ.get("VERIF_TIER", "quick"), choices=["quick", "thorough"])
    ap.add_argument("--replay", default=None)
    ap.add_argument("--only", default=None, help="comma-separated sub-check names (debugging)")
    ap.add_argument("--no-evidence", action="store_true")
    args = ap.parse_args(argv)
    prop = args.prop.upper()
    seed = int(os.environ.get("VERIF_SEED", "1") or "1")
    t0 = time.time()
    try:
        mod = _load_module(prop)
        if hasattr(mod, "selftest"):
            mod.selftest()
        subs = mod.subchecks(args.tier, seed)
        kids = known_mod.known_ids(prop)
    except Exception as exc:  # noqa: BLE001
        print(f"HARNESS-ERROR property={prop}: {type(exc).__name__}: {exc}", file=sys.stderr)
        traceback.print_exc()
        return 2

    if args.replay:
        return _replay(prop, subs, kids, args.replay)

    if args.only:
        keep = set(args.only.split(","))
        subs = [s for s in subs if s.name in keep]

    jobs = []
    for s in subs:
        nsh = max(1, s.shards)
        for sh in range(nsh):
            jobs.append({"prop": prop, "tier": args.tier, "seed": seed, "sub": s.name, "shard": sh, "nshards": nsh})
    # interleave sub-checks so that expensive ones start early on every core
    jobs.sort(key=lambda j: (j["shard"], j["sub"]))
    if NPROC > 1 and len(jobs) > 1:
        with mp.get_context("fork").Pool(min(NPROC, len(jobs))) as pool:
            results = list(pool.imap_unordered(_run_shard, jobs, chunksize=1))
    else:
        results = [_run_shard(j) for j in jobs]

    errs = [r for r in results if "harness_error" in r]
    if errs:
        for r in errs[:3]:
            print(f"HARNESS-ERROR property={prop} subcheck={r['sub']}: {r['harness_error']}", file=sys.stderr)
        return 2

    agg = _merge(results, subs)
    wall = time.time() - t0

    # ---- violations -> replay files ---------------------------------------
    nviol = 0
    os.makedirs(os.path.join(VERIF_DIR, "replays"), exist_ok=True)
    for subname in sorted(agg):
        for label, v in sorted(agg[subname]["violations"].items()):
            nviol += 1
            rel = os.path.join("replays", f"{prop}_{slug(subname, 30)}_{slug(label)}.json")
            with open(os.path.join(VERIF_DIR, rel), "w") as fh:
                json.dump(
                    {
                        "property": prop,
                        "subcheck": subname,
                        "label": label,
                        "message": v["msg"],
                        "shrunk": v["shrunk"],
                        "seed": seed,
                        "tier": args.tier,
                        "case": v["case"],
                    },
                    fh,
                    indent=1,
                    cls=_Encoder,
                )
            print(f"VIOLATION property={prop} replay={rel}")
            print(f"  subcheck={subname} label={label}\n  {v['msg']}")

    # ---- known findings ----------------------------------------------------
    known_tot = {}
    for subname, a in agg.items():
        for fid, (cnt, msg, case) in a["known"].items():
            ent = known_tot.setdefault(fid, [0, msg])
            ent[0] += cnt
    for fid in sorted(known_tot):
        cnt, msg = known_tot[fid]
        print(f"KNOWN-FINDING: property={prop} {known_mod.describe(fid)} [id={fid}; matched {cnt} case(s); e.g. {msg}]")

    # ---- evidence -----------------------------------------------------------
    evaluations = sum(a["evaluations"] for a in agg.values())
    nt = sum(len(a["nt_hashes"]) for a in agg.values())
    distinct = sum(len(a["all_hashes"]) for a in agg.values())
    exhaustive = bool(subs) and all(s.exhaustive for s in subs)
    evidence = {
        "property_id": prop,
        "tier": args.tier,
        "seed": seed,
        "level": "exploration",
        "coverage": {
            "evaluations": evaluations,
            "distinct_cases": distinct,
            "distinct_nontrivial": nt,
            "rule": mod.RULE,
            "samples": _pick_samples(agg),
            "exhaustive": exhaustive,
            "exhaustive_subchecks": [s.name for s in subs if s.exhaustive],
            "subchecks": {
                name: {
                    "evaluations": a["evaluations"],
                    "distinct_cases": len(a["all_hashes"]),
                    "distinct_nontrivial": len(a["nt_hashes"]),
                    "class_histogram": dict(sorted(a["classes"].items())),
                    "skipped_ambiguous_or_inconclusive": a["skips"],
                    "budget_exhausted": a["budget_skipped"] > 0,
                    "budget_skipped": a["budget_skipped"],
                    "known_finding_matches": {fid: v[0] for fid, v in a["known"].items()},
                    "violation_buckets": sorted(a["violations"]),
                }
                for name, a in sorted(agg.items())
            },
            "known_findings_matched": {fid: v[0] for fid, v in known_tot.items()},
            "engine": "hypothesis %s, sharded over %d processes; enumerated cases run once each" % (_hyp_version(), NPROC),
        },
        "assumptions": list(getattr(mod, "ASSUMPTIONS", [])),
        "wall_s": round(wall, 2),
        "violations": nviol,
    }
    if not args.no_evidence and not args.only:
        os.makedirs(os.path.join(VERIF_DIR, "evidence"), exist_ok=True)
        with open(os.path.join(VERIF_DIR, "evidence", f"{prop}.json"), "w") as fh:
            json.dump(evidence, fh, indent=1, cls=_Encoder)
    print(
        f"{prop} {args.tier} seed={seed}: {evaluations} evaluations, {distinct} distinct, {nt} distinct non-trivial, "
        f"{nviol} violation bucket(s), {len(known_tot)} known finding(s), {wall:.1f}s"
    )
    for name, a in sorted(agg.items()):
        print(f"  {name}: n={a['evaluations']} nt={len(a['nt_hashes'])} classes={dict(sorted(a['classes'].items()))}"
              + (f" skips={a['skips']}" if a["skips"] else "")
              + (f" BUDGET-EXHAUSTED({a['budget_skipped']})" if a["budget_skipped"] else ""))
    if evaluations == 0 or nt < 2:
        print(f"HARNESS-ERROR property={prop}: vacuous run (evaluations={evaluations}, non-trivial={nt})", file=sys.stderr)
        return 2
    return 1 if nviol else 0


def _hyp_version():
    try:
        import hypothesis

        return hypothesis.__version__
    except Exception:  # noqa: BLE001
        return "?"


def _replay(prop, subs, kids, path):
    with open(path) as fh:
        rec = json.load(fh)
    if rec.get("property") != prop:
        print(f"HARNESS-ERROR replay file is for {rec.get('property')}, not {prop}", file=sys.stderr)
        return 2
    sub = {s.name: s for s in subs}.get(rec["subcheck"])
    if sub is None:
        print(f"HARNESS-ERROR unknown subcheck {rec['subcheck']}", file=sys.stderr)
        return 2
    import numpy as np

    np.random.seed(0)
    try:
        ctx = run_body(sub, rec["case"], kids)
    except HarnessError as exc:
        print(f"HARNESS-ERROR {exc}", file=sys.stderr)
        return 2
    for fid, msg in ctx.known_hits:
        print(f"KNOWN-FINDING: property={prop} {known_mod.describe(fid)} [id={fid}; {msg}]")
    if ctx.issues:
        print(f"VIOLATION property={prop} replay={path}")
        for label, msg in ctx.issues:
            print(f"  label={label}\n  {msg}")
        return 1
    print(f"{prop} replay {path}: no violation")
    return 0


if __name__ == "__main__":
    sys.exit(main())
