"""Core types shared by every property module.

A property module (pbt/props/cXX.py) exposes

    PROPERTY    = "C01"
    RULE        = "how cases are generated and what makes one non-trivial/distinct"
    ASSUMPTIONS = ["..."]
    def selftest(): ...            # optional; raise to signal a broken oracle (exit 2)
    def subchecks(tier, seed): return [SubCheck(...), ...]

A SubCheck has a plain ``body(case, ctx)`` working on a JSON-serialisable case
descriptor.  The body reports through the context:

    ctx.fail(label, msg)                 a discrepancy (bucketed by label)
    ctx.known(finding_id, label, msg)    a discrepancy matching the buggy model of a
                                         finding; only suppressed when that id is
                                         listed as "known" in known_findings.json
    ctx.cls(name, ...)                   classify the case (generator distribution)
    ctx.nt()                             mark the case non-trivial
    ctx.skip(reason)                     ambiguous / inconclusive; counted, not compared
"""
from __future__ import annotations

import hashlib
import json
import os
import traceback
from dataclasses import dataclass, field
from typing import Any, Callable, Optional

import numpy as np

EPS = float(np.finfo(float).eps)
VERIF_DIR = os.path.dirname(os.path.dirname(os.path.abspath(__file__)))


class HarnessError(Exception):
    """Something is wrong with the checking machinery itself (exit 2)."""


class _Encoder(json.JSONEncoder):
    def default(self, o):
        if isinstance(o, np.integer):
            return int(o)
        if isinstance(o, np.floating):
            return float(o)
        if isinstance(o, np.bool_):
            return bool(o)
        if isinstance(o, np.ndarray):
            return o.tolist()
        return super().default(o)


def canon(case) -> str:
    return json.dumps(case, sort_keys=True, cls=_Encoder, allow_nan=True)


def case_hash(case) -> int:
    return int.from_bytes(hashlib.sha1(canon(case).encode()).digest()[:8], "big")


def slug(text: str, n: int = 60) -> str:
    out = "".join(ch if ch.isalnum() else "_" for ch in text)
    while "__" in out:
        out = out.replace("__", "_")
    return out.strip("_")[:n]


def _grid_pkg_dir() -> str:
    import grid

    return os.path.dirname(os.path.abspath(grid.__file__))


def library_frame(exc: BaseException) -> Optional[str]:
    """Innermost traceback frame that belongs to the grid package, as 'file:func'."""
    pkg = _grid_pkg_dir()
    found = None
    for fs in traceback.extract_tb(exc.__traceback__):
        fn = os.path.abspath(fs.filename)
        if fn.startswith(pkg + os.sep) and (os.sep + "tests" + os.sep) not in fn:
            found = f"{os.path.basename(fn)}:{fs.name}"
    return found


class Ctx:
    """Per-case reporting context handed to a body."""

    def __init__(self, known_ids=frozenset()):
        self.known_ids = known_ids
        self.issues: list[tuple[str, str]] = []
        self.known_hits: list[tuple[str, str]] = []
        self.classes: list[str] = []
        self.nontrivial = False
        self.skips: list[str] = []
        self.info: dict[str, Any] = {}

    # -- reporting ---------------------------------------------------------
    def fail(self, label: str, msg: str = ""):
        self.issues.append((str(label), str(msg)[:600]))

    def known(self, finding_id: str, label: str, msg: str = ""):
        if finding_id in self.known_ids:
            self.known_hits.append((finding_id, str(msg)[:300]))
        else:
            self.fail(label, msg)

    def cls(self, *names):
        for n in names:
            if n not in self.classes:
                self.classes.append(str(n))

    def nt(self, flag: bool = True):
        if flag:
            self.nontrivial = True

    def skip(self, reason: str):
        self.skips.append(str(reason))

    # -- comparison helpers -------------------------------------------------
    def close(self, got, ref, tol, label, what=""):
        """|got-ref| <= tol element-wise (tol scalar or array); NaN in got is a failure."""
        got = np.asarray(got, dtype=float)
        ref = np.asarray(ref, dtype=float)
        if got.shape != ref.shape:
            try:
                got, ref = np.broadcast_arrays(got, ref)
            except ValueError:
                self.fail(label, f"{what} shape {got.shape} vs reference {ref.shape}")
                return False
        with np.errstate(invalid="ignore"):
            err = np.abs(got - ref)
            # equal infinities are equal
            same_inf = np.isinf(got) & np.isinf(ref) & (np.sign(got) == np.sign(ref))
            err = np.where(same_inf, 0.0, err)
            bad = ~(err <= tol)
        if np.any(bad):
            t = np.broadcast_to(np.asarray(tol, dtype=float), err.shape)
            with np.errstate(invalid="ignore", divide="ignore"):
                ratio = np.where(bad, np.where(np.isnan(err), np.inf, err / np.maximum(t, 1e-320)), -1.0)
            idx = np.unravel_index(int(np.argmax(ratio)), err.shape) if err.shape else ()
            self.fail(
                label,
                f"{what} worst |got-ref|={float(np.asarray(err)[idx]):.3e} tol={float(t[idx]):.3e} "
                f"got={float(np.asarray(got)[idx])!r} ref={float(np.asarray(ref)[idx])!r} at {tuple(int(i) for i in idx)} ({int(np.sum(bad))} bad of {err.size})",
            )
            return False
        return True

    def equal(self, got, ref, label, what=""):
        got = np.asarray(got)
        ref = np.asarray(ref)
        if got.shape != ref.shape or not np.array_equal(got, ref, equal_nan=True):
            self.fail(label, f"{what} arrays differ: shape {got.shape} vs {ref.shape}")
            return False
        return True

    def check(self, cond, label, msg=""):
        if not cond:
            self.fail(label, msg)
        return bool(cond)


@dataclass
class SubCheck:
    name: str
    body: Callable[[dict, Ctx], None]
    strategy: Any = None  # hypothesis strategy producing case dicts (or None)
    examples: int = 0  # hypothesis examples in total for this tier (split over shards)
    cases: Optional[list] = None  # enumerated / pinned cases for this tier (run exactly once each)
    exhaustive: bool = False  # True if `cases` enumerates the whole (finite) space
    shrink: bool = True  # run Hypothesis' shrink phase on a failure
    shards: int = 16
    budget_s: float = 0.0  # soft wall-clock budget per shard (0 = none); hit => inconclusive
    max_rounds: int = 4  # re-runs with already reported buckets suppressed


def run_body(sub: SubCheck, case, known_ids) -> Ctx:
    """Execute one body; classify escaping exceptions."""
    ctx = Ctx(known_ids)
    try:
        sub.body(case, ctx)
    except HarnessError:
        raise
    except Exception as exc:  # noqa: BLE001 - classification below
        frame = library_frame(exc)
        if frame is None:
            raise HarnessError(
                f"exception inside the harness (no library frame) in {sub.name}: "
                f"{type(exc).__name__}: {exc}\ncase={canon(case)[:2000]}\n{traceback.format_exc()}"
            ) from exc
        ctx.fail(f"exception:{type(exc).__name__}@{frame}", f"{type(exc).__name__}: {exc}")
    return ctx
