"""Registry of public operations of theochem/grid for the aliasing property C20.

An operation is a function ``fn(p, A) -> thunk``:

* ``p`` is the JSON part of the case: ``{"seed": int, "n": int, "v": int}`` (seed of the data, a small
  size, a variant selector interpreted modulo the number of variants of the operation);
* ``A`` is an :class:`Args` factory through which EVERY array / list / dict / callback that the caller
  hands to the library is created.  The factory applies the aliasing pattern of the case (read-only
  arrays, the same object for two parameters, memoising / argument-returning callbacks) and remembers
  every object so that it can be snapshotted before and after;
* ``thunk()`` performs the public call(s) and returns something comparable (arrays, numbers, grids,
  nested lists of those).  Interpolants / ODE solutions are evaluated inside the thunk on a probe
  array that also comes from ``A``.

The reference run of a case uses pattern "plain" and callback mode "fresh": distinct, writable,
freshly allocated objects with the same values.
"""
from __future__ import annotations

import os
import tempfile

import numpy as np

PATTERNS = ("plain", "ro", "alias", "alias_ro", "shared")
CB_MODES = ("fresh", "arg", "cached", "cached_ro")


# ---------------------------------------------------------------------------
# snapshots
# ---------------------------------------------------------------------------
def snap(x):
    """Byte-wise picture of an argument: data, dtype, shape; recursively for lists / tuples / dicts."""
    if isinstance(x, np.ndarray):
        return ("nd", x.dtype.str, x.shape, x.tobytes())
    if isinstance(x, (list, tuple)):
        return ("seq", type(x).__name__, tuple(snap(v) for v in x))
    if isinstance(x, dict):
        return ("dict", tuple((repr(k), snap(v)) for k, v in x.items()))
    if isinstance(x, (bool, int, float, str, type(None), np.generic)):
        return ("val", type(x).__name__, repr(x))
    return ("obj", type(x).__name__, id(x))


def describe_change(before, after):
    if before[0] != after[0]:
        return f"type {before[0]} -> {after[0]}"
    if before[0] == "nd":
        if before[1:3] != after[1:3]:
            return f"dtype/shape {before[1:3]} -> {after[1:3]}"
        a = np.frombuffer(before[3], dtype=np.dtype(before[1]))
        b = np.frombuffer(after[3], dtype=np.dtype(after[1]))
        bad = np.flatnonzero(~((a == b) | ((a != a) & (b != b))))
        i = int(bad[0]) if len(bad) else 0
        return f"{len(bad)} of {a.size} elements changed, e.g. flat[{i}] {a[i]!r} -> {b[i]!r}"
    if before[0] == "seq":
        if len(before[2]) != len(after[2]):
            return f"length {len(before[2])} -> {len(after[2])}"
        for i, (x, y) in enumerate(zip(before[2], after[2])):
            if x != y:
                return f"[{i}]: " + describe_change(x, y)
    if before[0] == "dict":
        kb, ka = [k for k, _ in before[1]], [k for k, _ in after[1]]
        if kb != ka:
            return f"keys {kb} -> {ka}"
        for (k, x), (_, y) in zip(before[1], after[1]):
            if x != y:
                return f"[{k}]: " + describe_change(x, y)
    return f"{before[2] if len(before) > 2 else before} -> {after[2] if len(after) > 2 else after}"


def _clone(x):
    if isinstance(x, np.ndarray):
        return np.array(x)
    if isinstance(x, list):
        return [_clone(v) for v in x]
    if isinstance(x, tuple):
        return tuple(_clone(v) for v in x)
    if isinstance(x, dict):
        return {k: _clone(v) for k, v in x.items()}
    return x


class CallbackAbort(Exception):
    """Raised by a harness callback to stop a solver that can no longer terminate sensibly: the memoised array it
    is about to hand out again was modified by the library, or the call count ran away."""


MAX_CB_CALLS = 60000


class Args:
    """Factory for caller-side objects under one aliasing pattern."""

    def __init__(self, pattern="plain", cbmode="fresh"):
        assert pattern in PATTERNS and cbmode in CB_MODES
        self.pattern, self.cbmode = pattern, cbmode
        self.ro = pattern in ("ro", "alias_ro")
        self.alias = pattern in ("alias", "alias_ro")
        self.slots = []  # (name, object)
        self.cb_log = {}  # id(array) -> (array, bytes at return time, callback name)
        self.n_same = 0
        self.n_cb = 0
        self.n_cb_calls = 0
        self.tmp = None

    # -- objects --------------------------------------------------------------
    def _reg(self, name, obj):
        self.slots.append((name, obj))
        return obj

    def arr(self, name, values, dtype=None):
        a = np.array(values, dtype=dtype)
        if self.ro:
            a.setflags(write=False)
        return self._reg(name, a)

    def lst(self, name, values):
        return self._reg(name, _clone(list(values)))

    def dct(self, name, values):
        return self._reg(name, _clone(dict(values)))

    def same(self, name, obj, make=None):
        """The same object again (aliasing patterns) or an equal, distinct one (all other patterns).

        ``make`` builds the equal, distinct object for things that cannot be cloned generically (grids).
        """
        self.n_same += 1
        if self.alias:
            return self._reg(name, obj)
        new = make() if make is not None else _clone(obj)
        if isinstance(new, np.ndarray) and self.ro:
            new.setflags(write=False)
        return self._reg(name, new)

    def tmpdir(self):
        if self.tmp is None:
            self.tmp = tempfile.TemporaryDirectory(prefix="c20_")
        return self.tmp.name

    def cleanup(self):
        if self.tmp is not None:
            self.tmp.cleanup()
            self.tmp = None

    # -- callbacks --------------------------------------------------------------
    def cb(self, name, fn=None, ident=None, const=None, shape_of=None):
        """A user callback.

        ident=i        : the function is f(*a) = a[i]; in mode "arg" the callback returns that very object
        const=c        : f(*a) = full(shape_of(*a), c); in the cached modes ONE array per shape is returned
        fn             : general function of the arguments (must return a fresh array)
        Every ndarray the callback returns is logged with its bytes at return time.
        """
        self.n_cb += 1
        mode = self.cbmode
        memo = {}
        shape_of = shape_of or (lambda *a: np.shape(a[-1]))

        def fresh(*a):
            if ident is not None:
                return np.array(a[ident], dtype=float)
            if const is not None:
                return np.full(shape_of(*a), float(const))
            return np.array(fn(*a))

        def key(*a):
            if const is not None:
                return ("shape", tuple(shape_of(*a)))
            return tuple((x.dtype.str, x.shape, x.tobytes()) if isinstance(x, np.ndarray) else repr(x) for x in a)

        def call(*a):
            self.n_cb_calls += 1
            if self.n_cb_calls > MAX_CB_CALLS:
                raise CallbackAbort(f"callback {name} called more than {MAX_CB_CALLS} times")
            if mode == "fresh":
                out = fresh(*a)
            elif mode == "arg" and ident is not None:
                out = a[ident]
            else:  # "cached", "cached_ro" (and "arg" for functions that are not the identity)
                k = key(*a)
                if k not in memo:
                    val = fresh(*a)
                    if isinstance(val, np.ndarray) and mode == "cached_ro":
                        val.setflags(write=False)
                    memo[k] = (val, val.tobytes() if isinstance(val, np.ndarray) else None)
                out, b0 = memo[k]
                if b0 is not None and out.tobytes() != b0:
                    # a corrupted right-hand side can keep an adaptive solver busy for ever: stop here, the
                    # modification itself is reported from the callback log
                    raise CallbackAbort(f"the memoised array of callback {name} was modified by the library")
            if isinstance(out, np.ndarray) and id(out) not in self.cb_log and len(self.cb_log) < 20000:
                self.cb_log[id(out)] = (out, out.tobytes(), name)
            return out

        return call

    # -- checks -----------------------------------------------------------------
    def snapshot(self):
        return [(name, snap(obj)) for name, obj in self.slots]

    def changed_callback_results(self):
        out = []
        for arr, b0, name in self.cb_log.values():
            if arr.tobytes() != b0:
                out.append(name)
        return sorted(set(out))


# ---------------------------------------------------------------------------
# comparable form of results
# ---------------------------------------------------------------------------
_GRID_ATTRS = (
    "points weights indices center degrees aim_weights atweights atcoords shape origin axes realvecs recivecs "
    "frac_intvls spacings domain rotate method degree"
).split()


def canon(x, depth=0):
    from grid.basegrid import Grid

    if isinstance(x, np.ndarray):
        return np.array(x)
    if isinstance(x, (bool, int, float, complex, str, type(None), np.generic)):
        return x
    if isinstance(x, (list, tuple, range)):
        return [canon(v, depth + 1) for v in x]
    if isinstance(x, dict):
        return {str(k): canon(v, depth + 1) for k, v in x.items()}
    if isinstance(x, Grid) and depth < 4:
        out = {"__class__": type(x).__name__}
        for a in _GRID_ATTRS:
            try:
                v = getattr(x, a)
            except Exception:  # noqa: BLE001 - attribute not present on this grid type
                continue
            if callable(v) or hasattr(v, "__next__"):
                continue
            out[a] = canon(v, depth + 1)
        return out
    return ("object", type(x).__name__)


def compare(a, b, path="result"):
    """List of human-readable differences between two canonical results (b = reference)."""
    if isinstance(a, np.ndarray) or isinstance(b, np.ndarray):
        if not (isinstance(a, np.ndarray) and isinstance(b, np.ndarray)):
            return [f"{path}: {type(a).__name__} vs {type(b).__name__}"]
        if a.shape != b.shape or a.dtype.kind != b.dtype.kind:
            return [f"{path}: shape/dtype {a.shape}/{a.dtype} vs {b.shape}/{b.dtype}"]
        if a.dtype.kind in "fc":
            if np.array_equal(a, b, equal_nan=True):
                return []
            fin = np.abs(b[np.isfinite(b)]).astype(float)
            scale = max(1.0, float(fin.max())) if fin.size else 1.0
            with np.errstate(invalid="ignore"):
                ok = np.isclose(a.astype(complex if a.dtype.kind == "c" else float), b.astype(complex if b.dtype.kind == "c" else float), rtol=1e-13, atol=1e-13 * scale, equal_nan=True)
            if ok.all():
                return []
            i = np.unravel_index(int(np.argmin(ok)), ok.shape) if ok.shape else ()
            return [f"{path}: {int((~ok).sum())} of {ok.size} values differ, e.g. at {i}: {a[i]!r} vs {b[i]!r}"]
        return [] if np.array_equal(a, b) else [f"{path}: arrays differ"]
    if isinstance(a, (float, np.floating)) and isinstance(b, (float, np.floating)):
        return compare(np.array(float(a)), np.array(float(b)), path)
    if isinstance(a, list) and isinstance(b, list):
        if len(a) != len(b):
            return [f"{path}: length {len(a)} vs {len(b)}"]
        out = []
        for i, (x, y) in enumerate(zip(a, b)):
            out += compare(x, y, f"{path}[{i}]")
        return out
    if isinstance(a, dict) and isinstance(b, dict):
        if sorted(a) != sorted(b):
            return [f"{path}: keys {sorted(a)} vs {sorted(b)}"]
        out = []
        for k in sorted(a):
            out += compare(a[k], b[k], f"{path}.{k}")
        return out
    try:
        same = bool(a == b)
    except Exception:  # noqa: BLE001
        same = False
    return [] if same else [f"{path}: {a!r} vs {b!r}"]


# ---------------------------------------------------------------------------
# the registry
# ---------------------------------------------------------------------------
class Op:
    def __init__(self, name, fn, alias, cbs, cost):
        self.name, self.fn, self.alias, self.cbs, self.cost = name, fn, alias, cbs, cost


OPS: dict[str, Op] = {}


def op(name, alias=False, cbs=False, cost="cheap"):
    def deco(fn):
        assert name not in OPS, name
        OPS[name] = Op(name, fn, alias, cbs, cost)
        return fn

    return deco


def _rng(p):
    return np.random.default_rng(int(p["seed"]))


def _n(p, lo=2, hi=8):
    return lo + int(p["n"]) % (hi - lo + 1)


def _v(p, k):
    return int(p["v"]) % k


# ---- receivers built from caller arrays ---------------------------------------------------------
def _grid3(p, A, n=None, tag=""):
    from grid.basegrid import Grid

    R = _rng(p)
    n = n or _n(p, 3, 9)
    P = A.arr("points" + tag, R.normal(size=(n, 3)))
    W = A.arr("weights" + tag, R.uniform(0.1, 1.0, n))
    return Grid(P, W), P, W


def _grid1(p, A, n=None):
    from grid.basegrid import Grid

    R = _rng(p)
    n = n or _n(p, 3, 9)
    P = A.arr("points", np.sort(R.uniform(0.1, 3.0, n)))
    W = A.arr("weights", R.uniform(0.1, 1.0, n))
    return Grid(P, W), P, W


def _oned(A, n, lo=0.05, hi=2.5, tag="", domain=(0, np.inf)):
    from grid.basegrid import OneDGrid

    r = A.arr("rpoints" + tag, np.linspace(lo, hi, n))
    w = A.arr("rweights" + tag, np.full(n, (hi - lo) / n))
    return OneDGrid(r, w, domain)


def _atom(p, A, n=None, degs=None, center=True, rotate=0, tag="", r0=False, method="lebedev"):
    from grid.atomgrid import AtomGrid

    n = n or _n(p, 2, 4)
    rg = _oned(A, n, lo=0.0 if r0 else 0.2, tag=tag)
    degs = degs or [3, 5, 7, 5, 3][:n]
    D = A.lst("degrees" + tag, degs)
    C = A.arr("center" + tag, [0.1, -0.2, 0.3]) if center else None
    return AtomGrid(rg, degrees=D, center=C, rotate=rotate, method=method)


def _mol(p, A, store=True, n=3, deg=3):
    from grid.becke import BeckeWeights
    from grid.molgrid import MolGrid

    from grid.atomgrid import AtomGrid

    rg = _oned(A, n, lo=0.2)
    c1 = A.arr("center1", [0.0, 0.0, -0.7])
    c2 = A.arr("center2", [0.0, 0.0, 0.7])
    ags = A.lst("atgrids", [AtomGrid(rg, degrees=[deg], center=c1), AtomGrid(rg, degrees=[deg], center=c2)])
    atn = A.arr("atnums", [1, 8], dtype=int)
    return MolGrid(atn, ags, BeckeWeights(), store=store)


def _Q(p, A, m=3, name="eval_points"):
    R = np.random.default_rng(int(p["seed"]) + 7)
    return A.arr(name, R.normal(size=(m, 3)) * 0.8)


# =========================== basegrid =====================================================
@op("Grid.__init__", alias=True)
def _(p, A):
    from grid.basegrid import Grid

    R, n = _rng(p), _n(p)
    if _v(p, 2) == 0:
        P = A.arr("points", R.normal(size=(n, 3)))
        W = A.arr("weights", R.uniform(0.1, 1, n))
    else:  # 1-D grid whose points and weights are one array
        P = A.arr("points", R.uniform(0.1, 1, n))
        W = A.same("weights", P)
    return lambda: Grid(P, W)


@op("Grid.__getitem__")
def _(p, A):
    g, P, W = _grid3(p, A)
    n = g.size
    v = _v(p, 5)
    if v == 0:
        idx = n // 2
    elif v == 1:
        idx = slice(1, n, 2)
    elif v == 2:
        idx = A.arr("mask", np.arange(n) % 2 == 0)
    elif v == 3:
        idx = A.arr("index_array", [n - 1, 0, 1], dtype=int)
    else:
        idx = A.lst("index_list", [0, n - 1])
    return lambda: g[idx]


@op("Grid.integrate", alias=True)
def _(p, A):
    g, P, W = _grid3(p, A)
    v = _v(p, 4)
    if v == 0:  # the same value array twice
        F = A.arr("values", _rng(p).normal(size=g.size))
        G = A.same("values_again", F)
        return lambda: g.integrate(F, G)
    if v == 1:  # the values are the weights
        F = A.same("values", W)
        return lambda: g.integrate(F)
    if v == 2:
        F = A.same("values", W)
        G = A.same("values_again", W)
        H = A.arr("third", _rng(p).normal(size=g.size))
        return lambda: g.integrate(F, H, G)
    F = A.arr("values", _rng(p).normal(size=g.size + 1))  # wrong length: must raise and leave everything alone
    return lambda: g.integrate(F)


@op("Grid.points/weights setters", alias=True)
def _(p, A):
    g0, P, W = _grid1(p, A) if _v(p, 2) else _grid3(p, A)
    newp = A.arr("new_points", np.array(P) * 2.0)
    neww = A.same("new_weights", W) if P.ndim > 1 else A.same("new_weights", newp)
    c = A.arr("center", 0.5) if P.ndim == 1 else A.arr("center", [0.0, 0.0, 0.0])

    def run():
        g = type(g0)(P, W)  # the setters change the receiver: a new one for every call
        before = g.get_localgrid(c, 1.0)
        g.points = newp
        g.weights = neww
        return [before, g.get_localgrid(c, 1.0), g.integrate(neww)]

    return run


@op("Grid.get_localgrid")
def _(p, A):
    v = _v(p, 4)
    if v == 3:
        g, P, W = _grid1(p, A)
        c = A.arr("center", 1.0)
        return lambda: g.get_localgrid(c, 0.9)
    g, P, W = _grid3(p, A)
    c = A.lst("center", [0.1, 0.0, -0.1]) if v == 2 else A.arr("center", [0.1, 0.0, -0.1])
    rad = [1.2, np.inf, 0.0, 1.2][v]
    return lambda: g.get_localgrid(c, rad)


@op("Grid.moments", alias=True)
def _(p, A):
    g, P, W = _grid3(p, A)
    v = _v(p, 8)
    kind = ["cartesian", "radial", "pure", "pure-radial"][v % 4]
    order = 2 if kind != "cartesian" else 1 + (v // 4)
    if v < 4:
        C = A.same("centers", P)  # the centres are the grid points themselves
        F = A.same("values", W)
    else:
        C = A.arr("centers", _rng(p).normal(size=(2, 3)))
        F = A.arr("values", _rng(p).normal(size=g.size))
    ro = bool(v % 2)
    return lambda: g.moments(order, C, F, type_mom=kind, return_orders=ro)


@op("Grid.save")
def _(p, A):
    g, P, W = _grid3(p, A)
    fn = os.path.join(A.tmpdir(), "g.npz")

    def run():
        g.save(fn)
        with np.load(fn) as z:
            return [z["points"], z["weights"]]

    return run


@op("LocalGrid.__init__", alias=True)
def _(p, A):
    from grid.basegrid import LocalGrid

    R, n = _rng(p), _n(p)
    if _v(p, 2):
        P = A.arr("points", R.uniform(0, 1, n))
        W = A.same("weights", P)
        c = A.arr("center", 0.5)
    else:
        P = A.arr("points", R.normal(size=(n, 3)))
        W = A.arr("weights", R.uniform(0, 1, n))
        c = A.arr("center", [0.0, 0.1, 0.2])
    I = A.arr("indices", np.arange(n)[::-1], dtype=int)
    return lambda: LocalGrid(P, W, c, I)


@op("OneDGrid.__init__", alias=True)
def _(p, A):
    from grid.basegrid import OneDGrid

    n = _n(p)
    P = A.arr("points", np.linspace(0.1, 0.9, n))
    W = A.same("weights", P)
    dom = [None, (0, 1), A.lst("domain", [0.0, 2.0])][_v(p, 3)]
    return lambda: OneDGrid(P, W, dom)


@op("OneDGrid.__getitem__")
def _(p, A):
    n = _n(p, 3, 8)
    g = _oned(A, n, domain=(0, 5))
    idx = [1, slice(0, n - 1), A.arr("index_array", [0, n - 1], dtype=int), A.arr("mask", np.arange(n) % 2 == 1)][_v(p, 4)]
    return lambda: g[idx]


# =========================== onedgrid (no caller arrays except the Trefethen general rules) ========
@op("TrefethenGeneral/StripGeneral")
def _(p, A):
    from grid.onedgrid import GaussChebyshev, TrefethenGeneral, TrefethenStripGeneral

    n = _n(p, 3, 8)
    if _v(p, 2):
        return lambda: TrefethenGeneral(n, GaussChebyshev, d=5)
    return lambda: TrefethenStripGeneral(n, GaussChebyshev, rho=1.2)


# =========================== rtransform ======================================================
def _tf_classes():
    from grid import rtransform as rt

    return {
        "BeckeRTransform": (lambda: rt.BeckeRTransform(0.1, 1.2), "fin"),
        "LinearFiniteRTransform": (lambda: rt.LinearFiniteRTransform(0.1, 3.0), "fin"),
        "MultiExpRTransform": (lambda: rt.MultiExpRTransform(0.1, 1.2), "fin"),
        "KnowlesRTransform": (lambda: rt.KnowlesRTransform(0.1, 1.2, 3), "fin"),
        "HandyRTransform": (lambda: rt.HandyRTransform(0.1, 1.2, 3), "fin"),
        "HandyModRTransform": (lambda: rt.HandyModRTransform(0.1, 30.0, 2), "fin"),
        "InverseRTransform": (lambda: rt.InverseRTransform(rt.BeckeRTransform(0.1, 1.2)), "inv"),
        "IdentityRTransform": (lambda: rt.IdentityRTransform(), "inf"),
        "LinearInfiniteRTransform": (lambda: rt.LinearInfiniteRTransform(0.1, 3.0), "inf"),
        "ExpRTransform": (lambda: rt.ExpRTransform(0.1, 3.0), "inf"),
        "PowerRTransform": (lambda: rt.PowerRTransform(0.1, 3.0), "inf"),
        "HyperbolicRTransform": (lambda: rt.HyperbolicRTransform(0.5, 0.05), "inf"),
    }


_TF_NAMES = (
    "BeckeRTransform LinearFiniteRTransform MultiExpRTransform KnowlesRTransform HandyRTransform HandyModRTransform "
    "InverseRTransform IdentityRTransform LinearInfiniteRTransform ExpRTransform PowerRTransform HyperbolicRTransform"
).split()
_TF_FWD = ("transform", "deriv", "deriv2", "deriv3")
_TF_BWD = ("inverse", "deriv_inverse", "deriv2_inverse", "deriv3_inverse")


def _tf_domain_x(kind, n):
    if kind == "fin":
        return np.linspace(-0.9, 0.9, n)
    if kind == "inv":
        return np.linspace(0.2, 5.0, n)
    return np.linspace(0.1, 5.0, n)


def _register_transforms():
    for cname in _TF_NAMES:
        for meth in _TF_FWD + _TF_BWD:

            def fn(p, A, cname=cname, meth=meth):
                make, kind = _tf_classes()[cname]
                tf = make()
                n = _n(p, 2, 7)
                x0 = _tf_domain_x(kind, n)
                if meth in _TF_BWD:
                    x0 = make().transform(x0)  # a separate instance: the tested one has seen nothing yet
                    if _v(p, 2) and cname in ("LinearInfiniteRTransform", "ExpRTransform", "PowerRTransform"):
                        tf.transform(_tf_domain_x(kind, n))
                x = A.arr("x", x0)
                return lambda: getattr(tf, meth)(x)

            OPS[f"{cname}.{meth}"] = Op(f"{cname}.{meth}", fn, False, False, "cheap")

        def fg(p, A, cname=cname):
            from grid.basegrid import OneDGrid

            make, kind = _tf_classes()[cname]
            tf = make()
            n = _n(p, 2, 7)
            P = A.arr("points", _tf_domain_x(kind, n))
            W = A.same("weights", P)  # a grid whose points and weights are one array
            dom = (-1, 1) if kind == "fin" else (0.1, 6.0) if kind == "inv" else (0, np.inf)
            g = OneDGrid(P, W, dom)
            return lambda: tf.transform_1d_grid(g)

        OPS[f"{cname}.transform_1d_grid"] = Op(f"{cname}.transform_1d_grid", fg, True, False, "cheap")


_register_transforms()


@op("BeckeRTransform.find_parameter")
def _(p, A):
    from grid.rtransform import BeckeRTransform

    x = A.arr("array", np.linspace(-0.9, 0.9, _n(p, 3, 8)))
    return lambda: BeckeRTransform.find_parameter(x, 0.1, 1.2)


# =========================== angular ========================================================
@op("AngularGrid.convert_angular_sizes_to_degrees")
def _(p, A):
    from grid.angular import AngularGrid

    v = _v(p, 4)
    meth = ["lebedev", "spherical", "maxdet", "lebedev"][v]
    s = A.arr("sizes", [[6, 26, 26, 50, 7], [2, 6, 12, 33], [4, 9, 10, 16], [6]][v], dtype=int)
    return lambda: AngularGrid.convert_angular_sizes_to_degrees(s, meth)


# =========================== atomgrid =======================================================
@op("AtomGrid.__init__", alias=True)
def _(p, A):
    from grid.atomgrid import AtomGrid

    n = _n(p, 2, 4)
    rg = _oned(A, n, lo=0.0 if _v(p, 2) else 0.2)
    v = _v(p, 6)
    C = A.arr("center", [0.1, -0.2, 0.3]) if v % 2 else None
    # half of the descriptors request degrees/sizes that are not shipped and must be rounded up by the library
    # (the caller's sequence has to stay as it was given)
    up = bool((int(p["seed"]) >> 3) & 1)
    degs = [2, 4, 6, 10] if up else [3, 5, 7, 9]
    szs = [5, 17, 25, 37] if up else [6, 18, 26, 38]
    if v < 2:
        D = A.lst("degrees", degs[:n])
        return lambda: AtomGrid(rg, degrees=D, center=C, rotate=int(p["seed"]) % 3)
    if v < 4:
        D = A.arr("degrees", degs[:n], dtype=int)
        return lambda: AtomGrid(rg, degrees=D, center=C, method="spherical")
    S = A.lst("sizes", szs[:n]) if v == 4 else A.arr("sizes", szs[:n], dtype=int)
    D = A.same("degrees", S)  # degrees are documented to be ignored when sizes are given
    return lambda: AtomGrid(rg, degrees=D, sizes=S, center=C)


@op("AtomGrid.from_preset")
def _(p, A):
    from grid.atomgrid import AtomGrid

    v = _v(p, 4)
    C = A.arr("center", [0.0, 0.5, -0.5])
    if v == 0:
        return lambda: AtomGrid.from_preset(1, "coarse", center=C)
    rg = _oned(A, 6 + _n(p, 0, 4), lo=0.05, hi=4.0)
    preset = ["coarse", "sg_0", "g1"][v - 1]
    return lambda: AtomGrid.from_preset(int(p["seed"]) % 2 * 5 + 1, preset, rg, center=C, rotate=v)


@op("AtomGrid.from_pruned", alias=True)
def _(p, A):
    from grid.atomgrid import AtomGrid

    rg = _oned(A, _n(p, 3, 6), lo=0.1, hi=2.0)
    v = _v(p, 6)
    C = A.arr("center", [0.0, 0.5, -0.5]) if v % 2 else None
    if v < 2:
        rs = A.lst("r_sectors", [0.5, 1.0])
        ds = A.lst("d_sectors", [3, 5, 7])
        return lambda: AtomGrid.from_pruned(rg, 1.1, r_sectors=rs, d_sectors=ds, center=C)
    if v < 4:
        rs = A.arr("r_sectors", [0.5, 1.0])
        ds = A.arr("d_sectors", [3, 5, 7], dtype=int)
        return lambda: AtomGrid.from_pruned(rg, 1.1, r_sectors=rs, d_sectors=ds, center=C, rotate=2)
    rs = A.lst("r_sectors", [0.7]) if v == 4 else A.arr("r_sectors", [0.7])
    ss = A.lst("s_sectors", [6, 26]) if v == 4 else A.arr("s_sectors", [6, 26], dtype=int)
    ds = A.same("d_sectors", ss)  # ignored when s_sectors is given
    return lambda: AtomGrid.from_pruned(rg, 1.3, r_sectors=rs, d_sectors=ds, s_sectors=ss, center=C)


@op("AtomGrid.get_shell_grid")
def _(p, A):
    ag = _atom(p, A, rotate=_v(p, 3))
    return lambda: ag.get_shell_grid(_v(p, ag.n_shells), r_sq=bool(_v(p, 2)))


@op("AtomGrid.convert_cartesian_to_spherical", alias=True)
def _(p, A):
    ag = _atom(p, A, r0=bool(_v(p, 2)))
    v = _v(p, 4)
    if v == 0:
        return lambda: ag.convert_cartesian_to_spherical()
    if v == 1:
        Q = _Q(p, A)
        c = A.arr("new_center", [1.0, 1.0, 1.0])
        return lambda: ag.convert_cartesian_to_spherical(Q, c)
    if v == 2:  # one point, and the centre is that very array
        q = A.arr("point", [0.3, -0.4, 0.5])
        c = A.same("new_center", q)
        return lambda: ag.convert_cartesian_to_spherical(q, c)
    Q = _Q(p, A)
    c = A.lst("new_center", [0.0, 0.0, 1.0])
    return lambda: ag.convert_cartesian_to_spherical(Q, c)


def _fv(p, A, grid, name="func_vals", two=False):
    R = np.random.default_rng(int(p["seed"]) + 3)
    pts = grid.points
    f = np.exp(-np.sum(pts**2, axis=1)) * (1 + 0.1 * R.normal(size=len(pts)))
    return A.arr(name, np.vstack([f, 2 * f]) if two else f)


@op("AtomGrid.integrate_angular_coordinates")
def _(p, A):
    ag = _atom(p, A, r0=bool(_v(p, 2)))
    F = _fv(p, A, ag, two=_v(p, 4) >= 2)
    return lambda: ag.integrate_angular_coordinates(F)


@op("AtomGrid.spherical_average")
def _(p, A):
    ag = _atom(p, A, n=_n(p, 3, 5), r0=bool(_v(p, 2)))
    F = _fv(p, A, ag)
    r = A.arr("r_eval", [0.3, 1.0, 1.7])
    return lambda: ag.spherical_average(F)(r)


@op("AtomGrid.radial_component_splines")
def _(p, A):
    ag = _atom(p, A, n=_n(p, 3, 5), r0=bool(_v(p, 2)))
    F = _fv(p, A, ag)
    r = A.arr("r_eval", [0.3, 1.0, 1.7])
    return lambda: [s(r) for s in ag.radial_component_splines(F)]


@op("AtomGrid.interpolate")
def _(p, A):
    ag = _atom(p, A, n=_n(p, 3, 5), rotate=_v(p, 2))
    F = _fv(p, A, ag)
    Q = _Q(p, A)
    v = _v(p, 5)
    kw = [{}, {"deriv": 1}, {"deriv": 1, "deriv_spherical": True}, {"deriv": 2, "only_radial_deriv": True}, {"deriv": 3, "only_radial_deriv": True}][v]
    return lambda: ag.interpolate(F)(Q, **kw)


@op("AtomGrid.integrate/moments/get_localgrid", alias=True)
def _(p, A):
    ag = _atom(p, A)
    v = _v(p, 4)
    F = _fv(p, A, ag)
    G = A.same("values_again", F)
    if v == 0:
        return lambda: ag.integrate(F, G)
    if v == 1:
        C = A.arr("centers", [[0.0, 0.0, 0.0], [0.1, -0.2, 0.3]])
        return lambda: ag.moments(2, C, F, type_mom="pure")
    c = A.arr("lg_center", [0.1, -0.2, 0.3])
    if v == 2:
        return lambda: ag.get_localgrid(c, 1.0)
    return lambda: [ag.get_localgrid(c, 1.0), ag.get_localgrid(c, 2.0), ag[1], ag.integrate(G)]


@op("AtomGrid.save")
def _(p, A):
    ag = _atom(p, A)
    fn = os.path.join(A.tmpdir(), "ag.npz")

    def run():
        ag.save(fn)
        with np.load(fn) as z:
            return [z["points"], z["weights"], z["center"], z["indices"], z["rgrid_pts"]]

    return run


# =========================== molgrid ========================================================
@op("MolGrid.__init__", alias=True, cbs=True)
def _(p, A):
    from grid.atomgrid import AtomGrid
    from grid.becke import BeckeWeights
    from grid.hirshfeld import HirshfeldWeights
    from grid.molgrid import MolGrid

    rg = _oned(A, 3, lo=0.2)
    c1 = A.arr("center1", [0.0, 0.0, -0.7])
    ag1 = AtomGrid(rg, degrees=[3], center=c1)
    v = _v(p, 6)
    atn = A.arr("atnums", [1, 8], dtype=int)
    store = bool(int(p["seed"]) % 2)
    if v == 5:  # the same atomic grid twice in the list
        ags = A.lst("atgrids", [ag1])
        ags.append(A.same("atgrid_again", ag1, make=lambda: AtomGrid(rg, degrees=[3], center=c1)))
        aim = A.arr("aim_weights", np.full(ag1.size * 2, 0.5))
        return lambda: MolGrid(atn, ags, aim, store=store)
    c2 = A.arr("center2", [0.0, 0.0, 0.7])
    ag2 = AtomGrid(rg, degrees=[3], center=c2)
    ags = A.lst("atgrids", [ag1, ag2])
    if v == 0:
        return lambda: MolGrid(atn, ags, BeckeWeights(), store=store)
    if v == 1:
        return lambda: MolGrid(atn, ags, HirshfeldWeights(), store=store)
    if v == 2:
        aim = A.arr("aim_weights", np.linspace(0.1, 0.9, ag1.size + ag2.size))
        return lambda: MolGrid(atn, ags, aim, store=store)
    if v == 3:  # a weight callable that hands out a constant array
        cb = A.cb("aim_weights()", const=0.5, shape_of=lambda pts, *a: (len(pts),))
        return lambda: MolGrid(atn, ags, cb, store=store)
    bw = BeckeWeights()
    cb = A.cb("aim_weights()", fn=lambda pts, atc, nums, ind: bw(pts, atc, nums, ind))
    return lambda: MolGrid(atn, ags, cb, store=store)


def _two_atoms(A, heavy=8):
    atn = A.arr("atnums", [1, heavy], dtype=int)
    atc = A.arr("atcoords", [[0.0, 0.0, -0.7], [0.0, 0.0, 0.7]])
    return atn, atc


@op("MolGrid.from_size")
def _(p, A):
    from grid.molgrid import MolGrid

    atn, atc = _two_atoms(A)
    rg = _oned(A, _n(p, 2, 4), lo=0.2)
    v = _v(p, 3)
    if v == 0:
        return lambda: MolGrid.from_size(atn, atc, 6, rg, store=True)
    if v == 1:
        aim = A.arr("aim_weights", np.full(2 * rg.size * 18, 0.5))
        return lambda: MolGrid.from_size(atn, atc, 18, rg, aim_weights=aim, rotate=0)
    return lambda: MolGrid.from_size(atn, atc, 6, rg, rotate=5)


@op("MolGrid.from_preset", alias=True, cbs=True)
def _(p, A):
    from grid.molgrid import MolGrid

    atn, atc = _two_atoms(A, heavy=[6, 8][int(p["seed"]) % 2])
    v = _v(p, 6)
    if v == 0:
        return lambda: MolGrid.from_preset(atn, atc, "coarse")  # default radial grids
    rg = _oned(A, _n(p, 5, 8), lo=0.05, hi=4.0)
    if v == 1:
        return lambda: MolGrid.from_preset(atn, atc, "sg_0", rg, store=True)
    if v == 2:
        pre = A.lst("preset", ["coarse", "medium"])
        rgs = A.lst("rgrid", [rg])
        rgs.append(A.same("rgrid_again", rg, make=lambda: _oned(A, rg.size, lo=0.05, hi=4.0, tag="_b")))
        return lambda: MolGrid.from_preset(atn, atc, pre, rgs)
    if v == 3:
        pre = A.dct("preset", {1: "coarse", int(atn[1]): "g1"})
        rgs = A.dct("rgrid", {1: rg, int(atn[1]): rg})
        return lambda: MolGrid.from_preset(atn, atc, pre, rgs, rotate=0)
    if v == 4:
        aim = A.cb("aim_weights()", const=0.5, shape_of=lambda pts, *a: (len(pts),))
        return lambda: MolGrid.from_preset(atn, atc, "coarse", rg, aim_weights=aim)
    return lambda: MolGrid.from_preset(atn, atc, "g2", rg, rotate=3, store=True)



@op("MolGrid.from_pruned", alias=True)
def _(p, A):
    from grid.molgrid import MolGrid

    atn, atc = _two_atoms(A)
    rg = _oned(A, _n(p, 3, 6), lo=0.1, hi=2.0)
    v = _v(p, 6)
    if v == 0:  # documented defaults: integer d_sectors
        rs = A.lst("r_sectors", [[0.5], [0.5, 1.0]])
        return lambda: MolGrid.from_pruned(atn, atc, 1.0, rs, rgrid=rg)
    if v == 1:  # one inner list object for both atoms
        inner = A.lst("r_sector_of_atom", [0.5, 1.0])
        rs = A.lst("r_sectors", [inner])
        rs.append(A.same("r_sector_of_atom_again", inner))
        dinner = A.lst("d_sector_of_atom", [3, 5, 7])
        ds = A.lst("d_sectors", [dinner])
        ds.append(A.same("d_sector_of_atom_again", dinner))
        return lambda: MolGrid.from_pruned(atn, atc, 1.0, rs, d_sectors=ds, rgrid=rg, store=True)
    if v == 2:
        rs = A.lst("r_sectors", [[0.5], [0.5, 1.0]])
        ss = A.lst("s_sectors", [[6, 18], [6, 18, 26]])
        rad = A.lst("radius", [1.0, 1.4])
        return lambda: MolGrid.from_pruned(atn, atc, rad, rs, s_sectors=ss, rgrid=rg)
    if v == 3:
        rs = A.lst("r_sectors", [[0.5], [0.7]])
        rgs = A.lst("rgrid", [rg])
        rgs.append(A.same("rgrid_again", rg, make=lambda: _oned(A, rg.size, lo=0.1, hi=2.0, tag="_b")))
        return lambda: MolGrid.from_pruned(atn, atc, 1.0, rs, s_sectors=18, rgrid=rgs, rotate=0)
    if v == 4:
        rs = A.lst("r_sectors", [A.arr("r_sector_0", [0.5]), A.arr("r_sector_1", [0.5, 1.0])])
        ds = A.lst("d_sectors", [A.arr("d_sector_0", [3, 5], dtype=int), A.arr("d_sector_1", [3, 5, 7], dtype=int)])
        return lambda: MolGrid.from_pruned(atn, atc, 1.0, rs, d_sectors=ds, rgrid=rg)
    rs = A.lst("r_sectors", [[0.5], [0.5, 1.0]])
    ds = A.lst("d_sectors", [[3, 5]])  # wrong number of atoms: must raise, arguments untouched
    return lambda: MolGrid.from_pruned(atn, atc, 1.0, rs, d_sectors=ds, rgrid=rg)


@op("MolGrid.get_atomic_grid/__getitem__")
def _(p, A):
    mg = _mol(p, A, store=bool(_v(p, 2)))
    i = int(p["seed"]) % 2
    return lambda: [mg.get_atomic_grid(i), mg[i], mg.atgrids is None]


@op("MolGrid.interpolate")
def _(p, A):
    mg = _mol(p, A, n=_n(p, 3, 5), deg=[3, 5][_v(p, 2)])
    F = _fv(p, A, mg)
    Q = _Q(p, A)
    v = _v(p, 3)
    args = [(0,), (1,), (1, True)][v]
    return lambda: mg.interpolate(F)(Q, *args)


@op("MolGrid.integrate/moments/get_localgrid", alias=True)
def _(p, A):
    mg = _mol(p, A, store=False)
    F = _fv(p, A, mg)
    G = A.same("values_again", F)
    v = _v(p, 3)
    if v == 0:
        return lambda: mg.integrate(F, G)
    if v == 1:
        C = A.arr("centers", [[0.0, 0.0, 0.1]])
        return lambda: mg.moments(1, C, G, type_mom="cartesian", return_orders=True)
    c = A.arr("lg_center", [0.0, 0.0, 0.5])
    return lambda: [mg.get_localgrid(c, 0.9), mg.integrate(G)]


@op("MolGrid.save")
def _(p, A):
    mg = _mol(p, A, store=True)
    fn = os.path.join(A.tmpdir(), "mg.npz")

    def run():
        mg.save(fn)
        with np.load(fn) as z:
            return [z["points"], z["weights"], z["aim_weights"], z["atgrid_1_points"]]

    return run


# =========================== becke / hirshfeld ===============================================
def _becke_args(p, A, alias_points=False):
    R = _rng(p)
    m = 2 + int(p["seed"]) % 4  # 2..5 atoms: from 4 atoms on the whole-grid call works in several chunks
    atc = A.arr("atcoords", np.array([[0.0, 0.0, -0.7], [0.0, 0.0, 0.7], [1.1, 0.3, 0.0], [-1.2, 0.9, 0.4], [0.2, -1.5, 1.0]])[:m])
    atn = A.arr("atnums", [1, 8, 6, 7, 1][:m], dtype=int)
    if alias_points:
        pts = A.same("points", atc)  # the weights are evaluated at the nuclei themselves
        ind = A.arr("indices", np.arange(m + 1), dtype=int)
    else:
        per = _n(p, 2, 5)
        pts = A.arr("points", np.repeat(atc, per, axis=0) + 0.4 * R.normal(size=(m * per, 3)))
        ind = A.arr("indices", np.arange(m + 1) * per, dtype=int)
    return pts, atc, atn, ind


@op("BeckeWeights.__init__")
def _(p, A):
    from grid.becke import BeckeWeights

    radii = A.dct("radii", {1: 0.5, 8: 1.1})
    pts, atc, atn, ind = _becke_args(p, A)
    return lambda: BeckeWeights(radii, order=2 + _v(p, 2))(pts, atc, atn, ind)


@op("BeckeWeights.__call__", alias=True)
def _(p, A):
    from grid.becke import BeckeWeights

    pts, atc, atn, ind = _becke_args(p, A, alias_points=_v(p, 2) == 1)
    return lambda: BeckeWeights()(pts, atc, atn, ind)


@op("BeckeWeights.generate_weights", alias=True)
def _(p, A):
    from grid.becke import BeckeWeights

    v = _v(p, 4)
    pts, atc, atn, ind = _becke_args(p, A, alias_points=v == 1)
    if v == 2:
        return lambda: BeckeWeights().generate_weights(pts, atc, atn, select=1)
    if v == 3:
        sel = A.lst("select", list(range(len(atn))))
        pi = A.lst("pt_ind", [int(i) for i in ind])
        return lambda: BeckeWeights().generate_weights(pts, atc, atn, select=sel, pt_ind=pi)
    return lambda: BeckeWeights().generate_weights(pts, atc, atn, pt_ind=ind)


@op("BeckeWeights.compute_weights", alias=True)
def _(p, A):
    from grid.becke import BeckeWeights

    v = _v(p, 4)
    pts, atc, atn, ind = _becke_args(p, A, alias_points=v == 1)
    if v == 2:
        return lambda: BeckeWeights().compute_weights(pts, atc, atn, select=0)
    if v == 3:
        sel = A.lst("select", list(range(len(atn))))
        return lambda: BeckeWeights(order=2).compute_weights(pts, atc, atn, select=sel, pt_ind=ind)
    return lambda: BeckeWeights().compute_weights(pts, atc, atn, pt_ind=ind)


@op("BeckeWeights.compute_atom_weight", alias=True)
def _(p, A):
    from grid.becke import BeckeWeights

    pts, atc, atn, ind = _becke_args(p, A, alias_points=_v(p, 2) == 1)
    return lambda: BeckeWeights().compute_atom_weight(pts, atc, atn, int(p["seed"]) % 2)


@op("HirshfeldWeights.__call__", alias=True)
def _(p, A):
    from grid.hirshfeld import HirshfeldWeights

    pts, atc, atn, ind = _becke_args(p, A, alias_points=_v(p, 2) == 1)
    return lambda: HirshfeldWeights()(pts, atc, atn, ind)


@op("HirshfeldWeights.generate_proatom", alias=True)
def _(p, A):
    from grid.hirshfeld import HirshfeldWeights

    if _v(p, 2):
        c = A.arr("coord", [[0.1, 0.2, 0.3]])
        pts = A.same("points", c)  # one point, which is the nucleus
        return lambda: HirshfeldWeights.generate_proatom(pts, c[0], 8)
    pts, atc, atn, ind = _becke_args(p, A)
    c = A.arr("coord", [0.1, 0.2, 0.3])
    return lambda: HirshfeldWeights.generate_proatom(pts, c, 6)


# =========================== cubic ==========================================================
_WEIGHTS = ["Trapezoid", "Rectangle", "Fourier1", "Alternative", "Fourier2"]


def _uniform(p, A, n=None, diag=True):
    from grid.cubic import UniformGrid

    n = n or _n(p, 3, 5)
    o = A.arr("origin", [-0.5, -0.6, -0.7])
    ax = A.arr("axes", np.diag([0.3, 0.35, 0.4]) if diag else np.array([[0.3, 0.02, 0.0], [0.0, 0.35, 0.01], [0.03, 0.0, 0.4]]))
    sh = A.arr("shape", [n, n + 1, n], dtype=int)
    return UniformGrid(o, ax, sh), o, ax, sh


@op("UniformGrid.__init__")
def _(p, A):
    from grid.cubic import UniformGrid

    v = _v(p, 7)
    n = _n(p, 2, 4)
    if v < 5:
        o = A.arr("origin", [-0.5, -0.6, -0.7])
        ax = A.arr("axes", [[0.3, 0.02, 0.0], [0.0, 0.35, 0.01], [0.03, 0.0, 0.4]])
        sh = A.arr("shape", [n, n + 1, n + 2], dtype=int)
        return lambda: UniformGrid(o, ax, sh, weight=_WEIGHTS[v])
    o = A.arr("origin", [-0.5, -0.6])
    ax = A.arr("axes", [[0.3, 0.02], [0.0, 0.35]])
    sh = A.arr("shape", [n, n + 1], dtype=int)
    return lambda: UniformGrid(o, ax, sh, weight=["Trapezoid", "Fourier1"][v - 5])


@op("UniformGrid.from_molecule")
def _(p, A):
    from grid.cubic import UniformGrid

    v = _v(p, 4)
    atc = A.arr("atcoords", [[0.0, 0.0, -0.7], [0.0, 0.1, 0.7], [0.9, 0.0, 0.0]])
    nums = A.arr("atcorenums", [1.0, 8.0, 6.0] if v == 3 else [1.0, 8.0, 1.0])
    return lambda: UniformGrid.from_molecule(nums, atc, spacing=0.6, extension=0.8, rotate=bool(v % 2), weight=_WEIGHTS[v])


@op("UniformGrid.generate_cube/from_cube")
def _(p, A):
    from grid.cubic import UniformGrid

    ug, o, ax, sh = _uniform(p, A)
    data = A.arr("data", np.exp(-np.sum(ug.points**2, axis=1)))
    atc = A.arr("atcoords", [[0.0, 0.0, -0.7], [0.0, 0.1, 0.7]])
    atn = A.arr("atnums", [1, 8], dtype=int)
    ps = A.arr("pseudo_numbers", [1.0, 6.0]) if _v(p, 2) else None
    fn = os.path.join(A.tmpdir(), "a.cube")

    def run():
        ug.generate_cube(fn, data, atc, atn, pseudo_numbers=ps)
        return list(UniformGrid.from_cube(fn, return_data=True))

    return run


@op("UniformGrid.interpolate")
def _(p, A):
    ug, o, ax, sh = _uniform(p, A, n=6)
    vals = A.arr("values", np.exp(-np.sum((ug.points - 0.3) ** 2, axis=1)))
    v = _v(p, 5)
    q = A.arr("interp_points", [[0.3, 0.35, 0.2], [0.1, 0.2, 0.3]][: 1 if v < 3 else 2])
    kw = [{}, {"nu_x": 1}, {"use_log": True, "nu_y": 1}, {"method": "linear"}, {"method": "nearest"}][v]
    return lambda: ug.interpolate(q, vals, **kw)


@op("UniformGrid.closest_point/coordinates_to_index")
def _(p, A):
    ug, o, ax, sh = _uniform(p, A)
    v = _v(p, 4)
    if v < 2:
        pt = A.arr("point", [0.05, 0.1, -0.2])
        return lambda: ug.closest_point(pt, ["closest", "origin"][v])
    ijk = A.arr("ijk", [1, 2, 1], dtype=int) if v == 2 else A.lst("ijk", [1, 2, 1])
    return lambda: [ug.coordinates_to_index(ijk), ug.index_to_coordinates(7), ug.get_points_along_axes()]


@op("UniformGrid.save/integrate/get_localgrid", alias=True)
def _(p, A):
    ug, o, ax, sh = _uniform(p, A, diag=False)
    vals = A.arr("values", np.exp(-np.sum(ug.points**2, axis=1)))
    G = A.same("values_again", vals)
    fn = os.path.join(A.tmpdir(), "u.npz")
    c = A.arr("lg_center", [0.0, 0.0, 0.0])

    def run():
        ug.save(fn)
        with np.load(fn) as z:
            saved = [z["points"], z["origin"], z["axes"]]
        return [saved, ug.integrate(vals, G), ug.get_localgrid(c, 0.5)]

    return run


@op("Tensor1DGrids.__init__", alias=True)
def _(p, A):
    from grid.cubic import Tensor1DGrids

    gx = _oned(A, _n(p, 2, 4), lo=-1.0, hi=1.0, tag="_x", domain=(-1, 1))
    v = _v(p, 3)
    if v == 0:
        gy = A.same("oned_y", gx, make=lambda: _oned(A, gx.size, lo=-1.0, hi=1.0, tag="_y", domain=(-1, 1)))
        return lambda: Tensor1DGrids(gx, gy)
    gy = _oned(A, 3, lo=0.0, hi=2.0, tag="_y", domain=(0, 2))
    gz = A.same("oned_z", gx, make=lambda: _oned(A, gx.size, lo=-1.0, hi=1.0, tag="_z", domain=(-1, 1)))
    t = Tensor1DGrids(gx, gy, gz)
    if v == 1:
        return lambda: Tensor1DGrids(gx, gy, gz)
    vals = A.arr("values", np.cos(np.sum(t.points, axis=1)))
    return lambda: [t.integrate(vals), t.origin, t.get_points_along_axes()]


# =========================== periodicgrid ====================================================
def _periodic(p, A, dim=None, wrap=True):
    from grid.periodicgrid import PeriodicGrid

    R = _rng(p)
    dim = dim if dim is not None else 1 + _v(p, 3)
    n = _n(p, 4, 9)
    if dim == 1:
        P = A.arr("points", R.uniform(-1.0, 3.0, n))
        V = A.arr("realvecs", [1.3])
    else:
        P = A.arr("points", R.uniform(-1.0, 3.0, (n, dim)))
        V = A.arr("realvecs", (np.eye(dim) * 1.2 + 0.1)[: dim - int(p["seed"]) % 2])
    W = A.arr("weights", R.uniform(0.1, 1.0, n))
    return PeriodicGrid(P, W, V, wrap=wrap), P, W, V


@op("PeriodicGrid.__init__", alias=True)
def _(p, A):
    from grid.periodicgrid import PeriodicGrid

    v = _v(p, 5)
    R = _rng(p)
    n = _n(p, 4, 9)
    if v == 0:  # 1-D, points and weights are one array
        P = A.arr("points", R.uniform(0.1, 3.0, n))
        W = A.same("weights", P)
        V = A.arr("realvecs", [1.3])
        return lambda: PeriodicGrid(P, W, V, wrap=True)
    if v == 1:
        P = A.arr("points", R.uniform(0.1, 3.0, n))
        W = A.same("weights", P)
        return lambda: PeriodicGrid(P, W)  # no lattice vectors
    dim = v - 1 if v < 4 else 3
    P = A.arr("points", R.uniform(-1.0, 3.0, (n, dim)))
    W = A.arr("weights", R.uniform(0.1, 1.0, n))
    V = A.arr("realvecs", np.eye(dim) * 1.2 + 0.1)
    return lambda: PeriodicGrid(P, W, V, wrap=v != 4)


@op("PeriodicGrid.get_localgrid")
def _(p, A):
    pg, P, W, V = _periodic(p, A, wrap=bool(int(p["seed"]) % 2))
    dim = 1 if P.ndim == 1 else P.shape[1]
    c = A.arr("center", 0.4) if dim == 1 else A.arr("center", [0.4, 0.5, 0.6][:dim])
    return lambda: pg.get_localgrid(c, [0.8, 1.6, 0.0][int(p["n"]) % 3])


@op("PeriodicGrid.__getitem__")
def _(p, A):
    pg, P, W, V = _periodic(p, A)
    idx = [1, slice(0, 3), A.arr("index_array", [1, 2], dtype=int), A.arr("mask", np.arange(pg.size) % 2 == 0)][int(p["n"]) % 4]
    return lambda: pg[idx]


@op("PeriodicGrid.integrate", alias=True)
def _(p, A):
    pg, P, W, V = _periodic(p, A)
    F = A.same("values", W)
    return lambda: pg.integrate(F)


# =========================== ngrid ============================================================
@op("MultiDomainGrid.integrate", alias=True, cbs=True)
def _(p, A):
    from grid.ngrid import MultiDomainGrid

    v = _v(p, 6)
    n = _n(p, 2, 4)
    g1 = _oned(A, n, lo=0.1, hi=1.0, tag="_1")
    if v == 0:  # one domain, the integrand returns the points it was given
        f = A.cb("integrand()", ident=0)
        gl = A.lst("grid_list", [g1])
        return lambda: MultiDomainGrid(gl).integrate(f)
    if v == 1:  # the same grid twice in the list; integrand returns its last argument
        gl = A.lst("grid_list", [g1])
        gl.append(A.same("grid_again", g1, make=lambda: _oned(A, n, lo=0.1, hi=1.0, tag="_2")))
        f = A.cb("integrand()", ident=1)
        return lambda: MultiDomainGrid(gl).integrate(f)
    g2 = _oned(A, n + 1, lo=0.0, hi=2.0, tag="_2")
    gl = A.lst("grid_list", [g1, g2])
    if v == 2:
        f = A.cb("integrand()", const=0.75)
        return lambda: MultiDomainGrid(gl).integrate(f)
    if v == 3:
        f = A.cb("integrand()", fn=lambda x, y: np.exp(-x * y))
        return lambda: MultiDomainGrid(gl).integrate(f)
    if v == 4:
        f = A.cb("integrand()", fn=lambda x, y: x + y * y)
        return lambda: MultiDomainGrid(gl).integrate(f, non_vectorized=True, integration_chunk_size=3)
    g3, P, W = _grid3(p, A, n=3)
    gl3 = A.lst("grid_list3", [g3])
    f = A.cb("integrand()", fn=lambda x, y: np.exp(-np.sum((x - y) ** 2, axis=-1)))
    return lambda: MultiDomainGrid(gl3, num_domains=2).integrate(f)


# =========================== ode ==============================================================
def _ode_parts(p, A, v):
    """fx and coefficient callbacks for y'' + a1 y' + a0 y = f."""
    if v % 3 == 0:
        fx = A.cb("fx()", ident=0)  # f(x) = x: may return its argument
    elif v % 3 == 1:
        fx = A.cb("fx()", const=1.5)
    else:
        fx = A.cb("fx()", fn=lambda x: np.sin(x) + 0.5)
    if v % 2 == 0:
        co = A.lst("coeffs", [1.0, 0.5, 1.0])
    elif v % 4 == 1:
        co = A.arr("coeffs", [1.0, 0.5, 1.0])
    else:
        co = A.lst("coeffs", [A.cb("coeff0()", const=1.0), A.cb("coeff1()", ident=0), 1.0])
    return fx, co


@op("solve_ode_bvp", cbs=True, cost="solver")
def _(p, A):
    from grid.ode import solve_ode_bvp
    from grid.rtransform import BeckeRTransform, InverseRTransform

    v = _v(p, 12)
    fx, co = _ode_parts(p, A, v)
    n = 10 + _n(p, 0, 8)
    use_tf = v >= 6
    x = A.arr("x", np.linspace(0.05, 1.5, n) if use_tf else np.linspace(0.0, 1.0, n))
    bc = A.lst("bd_cond", [[0, 0, 0.0], [1, 0, 1.0]]) if v % 2 else A.lst("bd_cond", [(0, 0, 0.0), (1, 0, 1.0)])
    y0 = A.arr("initial_guess_y", np.zeros((2, n)))
    ev = A.arr("x_eval", [0.2, 0.5, 0.9])
    tf = InverseRTransform(BeckeRTransform(0.0, 1.0)) if use_tf else None
    return lambda: solve_ode_bvp(x, fx, co, bc, tf, initial_guess_y=y0, no_derivatives=bool(v % 2))(ev)


@op("solve_ode_ivp", cbs=True, cost="solver")
def _(p, A):
    from grid.ode import solve_ode_ivp
    from grid.rtransform import BeckeRTransform, InverseRTransform

    v = _v(p, 12)
    fx, co = _ode_parts(p, A, v)
    use_tf = v >= 6
    span = A.lst("x_span", [0.1, 1.2]) if v % 2 else (0.1, 1.2)
    y0 = A.arr("y0", [0.0, 1.0]) if v % 4 < 2 else A.lst("y0", [0.0, 1.0])
    ev = A.arr("x_eval", [0.2, 0.5, 0.9])
    tf = InverseRTransform(BeckeRTransform(0.0, 1.0)) if use_tf else None
    return lambda: solve_ode_ivp(span, fx, co, y0, tf, no_derivatives=bool(v % 2), rtol=1e-6, atol=1e-8)(ev)


# =========================== poisson ============================================================
def _poisson_atom(p, A, nr=None, deg=3):
    from grid.atomgrid import AtomGrid
    from grid.onedgrid import GaussLegendre
    from grid.rtransform import BeckeRTransform, InverseRTransform

    tfb = BeckeRTransform(1e-4, 1.0)
    rg = tfb.transform_1d_grid(GaussLegendre(nr or 30 + _n(p, 0, 10)))
    C = A.arr("center", [0.0, 0.0, 0.0])
    ag = AtomGrid(rg, degrees=A.lst("degrees", [deg]), center=C)
    rho = A.arr("func_vals", (1 / np.pi) ** 1.5 * np.exp(-np.sum(ag.points**2, axis=1)))
    return ag, rho, InverseRTransform(tfb)


@op("solve_poisson_bvp", cost="solver")
def _(p, A):
    from grid.poisson import solve_poisson_bvp

    v = _v(p, 4)
    ag, rho, tf = _poisson_atom(p, A)
    Q = _Q(p, A)
    params = A.dct("ode_params", [{"tol": 1e-4}, {}, {"tol": 1e-3, "max_nodes": 20000}, {"tol": 1e-4, "no_derivatives": True}][v])
    kw = [{}, {"boundary": 1.0}, {"include_origin": False}, {}][v]
    return lambda: solve_poisson_bvp(ag, rho, tf, remove_large_pts=10.0, ode_params=params, **kw)(Q)


@op("solve_poisson_bvp[MolGrid]", cost="solver")
def _(p, A):
    from grid.onedgrid import GaussLegendre
    from grid.poisson import solve_poisson_bvp
    from grid.rtransform import BeckeRTransform, InverseRTransform

    from grid.atomgrid import AtomGrid
    from grid.becke import BeckeWeights
    from grid.molgrid import MolGrid

    tfb = BeckeRTransform(1e-4, 1.0)
    rg = tfb.transform_1d_grid(GaussLegendre(16))
    c1, c2 = A.arr("center1", [0.0, 0.0, -0.7]), A.arr("center2", [0.0, 0.0, 0.7])
    ags = A.lst("atgrids", [AtomGrid(rg, degrees=[3], center=c1), AtomGrid(rg, degrees=[3], center=c2)])
    mg = MolGrid(A.arr("atnums", [1, 1], dtype=int), ags, BeckeWeights(), store=True)
    rho = A.arr("func_vals", np.exp(-np.sum(mg.points**2, axis=1)))
    Q = _Q(p, A)
    params = A.dct("ode_params", {"tol": 1e-3})
    return lambda: solve_poisson_bvp(mg, rho, InverseRTransform(tfb), remove_large_pts=10.0, ode_params=params)(Q)


@op("solve_poisson_ivp", cost="solver")
def _(p, A):
    from grid.poisson import solve_poisson_ivp

    v = _v(p, 3)
    ag, rho, tf = _poisson_atom(p, A, nr=30)
    Q = _Q(p, A)
    params = A.dct("ode_params", [{"rtol": 1e-5}, {}, {"method": "RK45", "atol": 1e-5, "rtol": 1e-4}][v])
    r_int = (float(ag.rgrid.points.max()), float(ag.rgrid.points.min())) if v != 1 else (10.0, 1e-2)
    return lambda: solve_poisson_ivp(ag, rho, tf, r_interval=r_int, ode_params=params)(Q)


@op("interpolate_laplacian")
def _(p, A):
    from grid.poisson import interpolate_laplacian

    v = _v(p, 3)
    if v == 2:
        mg = _mol(p, A, n=4)
        F = _fv(p, A, mg)
        Q = _Q(p, A)
        return lambda: interpolate_laplacian(mg, F)(Q)
    ag = _atom(p, A, n=_n(p, 3, 5), center=bool(v))
    F = _fv(p, A, ag)
    Q = _Q(p, A)
    return lambda: interpolate_laplacian(ag, F)(Q, 1e-3 if v else 1e-6)


@op("solve_poisson_robust", cost="solver")
def _(p, A):
    from grid.robust_poisson import solve_poisson_robust

    v = _v(p, 4)
    ag, rho, tf = _poisson_atom(p, A, nr=30)
    atn = A.arr("atnums", [[1], [6], [8], [1]][v], dtype=int)
    atc = A.arr("atcoords", [[0.0, 0.0, 0.0]])
    Q = _Q(p, A)
    kw = {}
    if v >= 2:
        kw["ode_params"] = A.dct("ode_params", {"tol": 1e-4})
    if v == 3:
        ab = A.arr("alphas_basis", [0.3, 1.0, 4.0])
        return lambda: solve_poisson_robust(ag, rho, tf, atn, atc, split2=True, alphas_basis=ab, remove_large_pts=10.0, **kw)(Q)
    if v == 1:
        ab = A.lst("alphas_basis", [0.3, 1.0, 4.0])
        return lambda: solve_poisson_robust(ag, rho, tf, atn, atc, split2=True, alphas_basis=ab, remove_large_pts=10.0)(Q)
    return lambda: solve_poisson_robust(ag, rho, tf, atn, atc, remove_large_pts=10.0, **kw)(Q)


# =========================== coulomb ============================================================
@op("coulomb_gaussian_s/p")
def _(p, A):
    from grid.coulomb import coulomb_gaussian_p, coulomb_gaussian_s

    v = _v(p, 6)
    r = A.arr("r", [0.0, 1e-13, 0.5, 3.0][: _n(p, 1, 4)]) if v < 4 else (A.lst("r", [0.0, 0.7]) if v == 4 else A.arr("r", 0.7))
    f = coulomb_gaussian_s if v % 2 == 0 else coulomb_gaussian_p
    return lambda: f(r, 1.3, normalized=v < 2)


@op("coulomb_potential", alias=True)
def _(p, A):
    from grid.coulomb import coulomb_potential

    R = _rng(p)
    v = _v(p, 5)
    k = _n(p, 1, 4)
    cs = A.arr("centers_s", R.normal(size=(k, 3)))
    al = A.arr("alphas_s", R.uniform(0.3, 3.0, k))
    if v == 0:  # evaluate at the centres; coefficients are the exponents
        pts = A.same("points", cs)
        co = A.same("coeffs_s", al)
        return lambda: coulomb_potential(pts, cs, co, al)
    if v == 1:  # p-type shells share everything with the s-type shells
        pts = _Q(p, A)
        co = A.same("coeffs_s", al)
        cp, cop, alp = A.same("centers_p", cs), A.same("coeffs_p", al), A.same("alphas_p", al)
        return lambda: coulomb_potential(pts, cs, co, al, centers_p=cp, coeffs_p=cop, alphas_p=alp, normalized=False)
    if v == 2:
        pts = _Q(p, A)
        co = A.arr("coeffs_s", R.normal(size=k))
        cp = A.arr("centers_p", R.normal(size=(1, 3)))
        cop = A.arr("coeffs_p", [0.7])
        alp = A.arr("alphas_p", [1.1])
        return lambda: coulomb_potential(pts, cs, co, al, centers_p=cp, coeffs_p=cop, alphas_p=alp)
    if v == 3:  # plain lists
        pts = A.lst("points", [[0.0, 0.0, 0.0], [0.5, 0.5, 0.5]])
        c_l = A.lst("centers_s", [[0.0, 0.0, 0.0]])
        co = A.lst("coeffs_s", [1.0])
        a_l = A.same("alphas_s", co)
        return lambda: coulomb_potential(pts, c_l, co, a_l)
    pts = _Q(p, A)
    co = A.arr("coeffs_s", R.normal(size=k + 1))  # wrong length: must raise
    return lambda: coulomb_potential(pts, cs, co, al)


@op("load_atomic_gaussian_params")
def _(p, A):
    from grid.coulomb import load_atomic_gaussian_params

    el = ["H", "c", 7, np.int64(8), "Cl"][_v(p, 5)]
    return lambda: list(load_atomic_gaussian_params(el))


# =========================== utils =============================================================
@op("get_cov_radii")
def _(p, A):
    from grid.utils import get_cov_radii

    v = _v(p, 4)
    if v == 3:
        return lambda: get_cov_radii(8, "bragg")
    nums = A.arr("atnums", [1, 6, 8, 17][: _n(p, 1, 4)], dtype=int) if v else A.lst("atnums", [1, 6, 8])
    return lambda: get_cov_radii(nums, ["bragg", "cambridge", "alvarez"][v % 3])


def _angles(p, A, alias):
    R = _rng(p)
    n = _n(p, 1, 6)
    th = A.arr("theta", R.uniform(0.0, np.pi, n))
    ph = A.same("phi", th) if alias else A.arr("phi", R.uniform(0.0, np.pi, n))
    return th, ph


@op("generate_real_spherical_harmonics", alias=True)
def _(p, A):
    from grid.utils import generate_real_spherical_harmonics

    th, ph = _angles(p, A, _v(p, 2) == 0)
    return lambda: generate_real_spherical_harmonics(_v(p, 5), th, ph)


@op("generate_real_spherical_harmonics_scipy", alias=True)
def _(p, A):
    from grid.utils import generate_real_spherical_harmonics_scipy

    th, ph = _angles(p, A, _v(p, 2) == 0)
    return lambda: generate_real_spherical_harmonics_scipy(_v(p, 5), th, ph)


@op("generate_derivative_real_spherical_harmonics", alias=True)
def _(p, A):
    from grid.utils import generate_derivative_real_spherical_harmonics

    th, ph = _angles(p, A, _v(p, 2) == 0)
    return lambda: generate_derivative_real_spherical_harmonics(_v(p, 4), th, ph)


@op("solid_harmonics")
def _(p, A):
    from grid.utils import solid_harmonics

    R = _rng(p)
    n = _n(p, 1, 5)
    sp = A.arr("sph_pts", np.column_stack([R.uniform(0, 2, n), R.uniform(-3, 3, n), R.uniform(0, np.pi, n)]))
    return lambda: solid_harmonics(_v(p, 4), sp)


@op("convert_cart_to_sph", alias=True)
def _(p, A):
    from grid.utils import convert_cart_to_sph

    v = _v(p, 4)
    Q = _Q(p, A, m=_n(p, 1, 5))
    if v == 0:
        return lambda: convert_cart_to_sph(Q)
    if v == 1:
        c = A.arr("center", [0.5, 0.5, 0.5])
        return lambda: convert_cart_to_sph(Q, c)
    if v == 2:
        c = A.lst("center", [0.5, 0.5, 0.5])
        return lambda: convert_cart_to_sph(Q, c)
    sq = A.arr("three_points", _rng(p).normal(size=(3, 3)))
    c = A.same("center", sq)  # a 3x3 array used as points and as "centre" (broadcast row-wise)
    return lambda: convert_cart_to_sph(sq, c)


@op("convert_derivative_from_spherical_to_cartesian/generate_orders_horton_order")
def _(p, A):
    from grid.utils import convert_derivative_from_spherical_to_cartesian, generate_orders_horton_order

    v = _v(p, 4)
    if v == 0:
        return lambda: convert_derivative_from_spherical_to_cartesian(0.3, -0.2, 0.5, 1.2, 0.4, 0.9)
    return lambda: generate_orders_horton_order(2, ["cartesian", "radial", "pure", "pure-radial"][v], 3)


@op("dipole_moment_of_molecule", alias=True)
def _(p, A):
    from grid.utils import dipole_moment_of_molecule

    g, P, W = _grid3(p, A, n=_n(p, 4, 9))
    v = _v(p, 2)
    dens = A.same("density", W) if v == 0 else A.arr("density", np.exp(-np.sum(P**2, axis=1)))
    coords = A.arr("coords", [[0.0, 0.0, -0.7], [0.0, 0.0, 0.7]])
    ch = A.arr("charges", [1, 8], dtype=int)
    return lambda: dipole_moment_of_molecule(g, dens, coords, ch)


# ---------------------------------------------------------------------------
def names(cost=None):
    return [n for n, o in OPS.items() if cost is None or o.cost == cost]


_ALIAS_VARIANTS = {}


def alias_variants(name):
    """Variant selectors v (0..119) for which the operation really hands one object to two parameters."""
    if name not in _ALIAS_VARIANTS:
        o, good = OPS[name], []
        if o.alias:
            for v in range(120):
                A = Args("alias", "fresh")
                try:
                    o.fn({"seed": 1, "n": 3, "v": v}, A)
                finally:
                    A.cleanup()
                if A.n_same:
                    good.append(v)
        _ALIAS_VARIANTS[name] = good
    return _ALIAS_VARIANTS[name]


def patterns_for(o):
    out = ["plain", "ro", "shared"]
    if alias_variants(o.name):
        out += ["alias", "alias_ro"]
    return out


def cbmodes_for(o):
    return list(CB_MODES) if o.cbs else ["fresh"]
