import warnings; warnings.simplefilter("ignore")
import numpy as np, mpmath as mp, collections
from scipy.special import eval_legendre
from scipy.interpolate import CubicSpline
from importlib.resources import files
from grid.onedgrid import *
from grid.rtransform import *
from grid.hirshfeld import HirshfeldWeights
from grid.coulomb import *
rng=np.random.default_rng(1)
# C04
st=collections.Counter()
rules11=[GaussLegendre,GaussChebyshev,GaussChebyshevType2,GaussChebyshevLobatto,Trapezoidal,RectangleRuleSineEndPoints,Simpson,MidPoint,ClenshawCurtis,FejerFirst,TanhSinh,SingleTanh,TrefethenCC,TrefethenStripGC2]
rules0inf=[GaussLaguerre,UniformInteger,SingleExp,SingleArcSinhExp,LogExpSinh]
def tf11():
    k=rng.integers(0,6); rmin=float(rng.uniform(0,1)); R=float(rng.uniform(.3,3))
    return [BeckeRTransform(rmin,R),LinearFiniteRTransform(rmin,rmin+R*3),MultiExpRTransform(rmin,R),KnowlesRTransform(rmin,R,int(rng.integers(1,5))),HandyRTransform(rmin,R,int(rng.integers(1,4))),HandyModRTransform(rmin,rmin+40.0,int(rng.integers(1,4)))][k]
def tf0inf(n):
    k=rng.integers(0,5); rmin=float(rng.uniform(0.01,1)); rmax=rmin+float(rng.uniform(1,20))
    return [IdentityRTransform(),LinearInfiniteRTransform(rmin,rmax,b=float(n)),ExpRTransform(rmin,rmax,b=float(n)),PowerRTransform(rmin,rmax,b=float(n)),LinearInfiniteRTransform(rmin,rmax)][k]
for trial in range(1500):
    if rng.random()<0.7:
        c=rules11[rng.integers(0,len(rules11))]; n=int(rng.integers(2,30)); n=n if c not in (Simpson,TanhSinh,SingleTanh) else 2*(n//2)+1
        g=c(n); tf=tf11()
    else:
        c=rules0inf[rng.integers(0,len(rules0inf))]; n=int(rng.integers(2,30)); n=n if c in (GaussLaguerre,UniformInteger) else 2*(n//2)+1
        g=c(n); tf=tf0inf(n)
    name=type(tf).__name__
    try: ng=tf.transform_1d_grid(g)
    except Exception as e: st[(name,c.__name__,"EXC",type(e).__name__,str(e)[:40])]+=1; continue
    x=g.points.astype(float)
    h=1e-6*np.maximum(1,np.abs(x))
    inner=(x-h>tf.domain[0])&(x+h<tf.domain[1])
    fd=(tf.transform(x+h)-tf.transform(x-h))/(2*h)
    ok_pts=np.allclose(ng.points,tf.transform(x),rtol=1e-13,atol=0)
    with np.errstate(all="ignore"):
        ok_w=np.allclose(ng.weights[inner],(np.abs(fd)*g.weights)[inner],rtol=1e-5,atol=1e-12)
    nonneg=np.all(ng.weights>=0) if np.all(g.weights>=0) else True
    dom=ng.domain; ok_dom=dom[0]<=dom[1] and ng.points.min()>=dom[0]-1e-7 and ng.points.max()<=dom[1]+1e-7
    st[(name,"pts" if ok_pts else "PTS-BAD","w" if ok_w else "W-BAD","nonneg" if nonneg else "NEG","dom" if ok_dom else "DOM-BAD")]+=1
for k,v in sorted(st.items(),key=str): print(k,v)
# exactness transport
bad=0
for trial in range(300):
    n=int(rng.integers(2,40)); a=float(rng.normal()*3); b=a+float(rng.uniform(.1,10)); g=LinearFiniteRTransform(a,b).transform_1d_grid(GaussLegendre(n))
    t=(2*g.points-(a+b))/(b-a)
    for k in range(0,2*n):
        v=np.sum(g.weights*eval_legendre(k,t)); ref=(b-a) if k==0 else 0
        if abs(v-ref)>1e-12*(b-a)*(k+1): bad+=1
print("exactness transport bad",bad)
# Hirshfeld
hw=HirshfeldWeights(); bad=0; worst=0
dat={z:np.load(files("grid.data.proatoms").joinpath(f"a{z:03d}.npz")) for z in (1,6,7,8)}
print({z:(float(d["r"].min()),float(d["r"].max()),len(d["r"]), float(d["dn"].min())) for z,d in dat.items()})
for trial in range(200):
    M=int(rng.integers(1,5)); atn=rng.choice([1,6,7,8],M); at=rng.uniform(-2,2,(M,3)); pts=rng.uniform(-4,4,(50,3))
    tot=np.zeros(50); pro=[CubicSpline(dat[z]["r"],dat[z]["dn"],bc_type="natural")(np.linalg.norm(pts-c,axis=1)) for z,c in zip(atn,at)]
    for a in range(M):
        idx=np.zeros(M+1,dtype=int); idx[a+1:]=50
        w=hw(pts,at,atn,idx); tot+=w; worst=max(worst,np.max(np.abs(w-pro[a]/sum(pro))))
    if np.max(np.abs(tot-1))>1e-10: bad+=1
print("hirshfeld bad sums",bad,"worst share err",worst)
# C17 s-type vs mp
mp.mp.dps=40; worst=0; worstp=0
for trial in range(300):
    al=float(np.exp(rng.uniform(np.log(1e-6),np.log(1e6)))); r=float(np.exp(rng.uniform(np.log(1e-14),np.log(1e6)))) if trial%10 else 0.0
    A=mp.mpf(al); rr=mp.mpf(r)
    rho_s=lambda s: (A/mp.pi)**1.5*mp.exp(-A*s*s)
    rho_p=lambda s: mp.mpf(2)/3*A**2.5/mp.pi**1.5*s*s*mp.exp(-A*s*s)
    def V(rho):
        sc=1/mp.sqrt(A)
        outer=4*mp.pi*mp.quad(lambda s: rho(s)*s,[rr,rr+sc,rr+4*sc,rr+12*sc,mp.inf])
        if rr==0: return outer
        inner=4*mp.pi/rr*mp.quad(lambda s: rho(s)*s*s,[0,rr] if rr<sc else [0,sc,min(rr,12*sc),rr] if rr>12*sc else [0,sc,rr])
        return inner+outer
    vs=float(V(rho_s)); vp=float(V(rho_p))
    gs=float(coulomb_gaussian_s(np.array([r]),al)[0]); gp=float(coulomb_gaussian_p(np.array([r]),al)[0])
    worst=max(worst,abs(gs-vs)/abs(vs)); 
    off=2*np.sqrt(al/np.pi)*np.exp(-al*r*r)
    worstp=max(worstp,abs((gp-vp)-off)/abs(vp))
print("s-type worst rel err",worst,"; p-type: rel deviation from (true + known offset)",worstp)
