import warnings; warnings.simplefilter("ignore")
import numpy as np
from grid.cubic import UniformGrid
rng=np.random.default_rng(0)
bad=0; tot=0; worst=0
for trial in range(400):
    M=int(rng.integers(1,6)); z=rng.choice([1,6,8,17,35],size=M).astype(float); at=rng.uniform(-3,3,(M,3))
    sp=float(rng.uniform(0.2,0.6)); ext=float(rng.uniform(1,4)); rot=bool(rng.integers(0,2))
    g=UniformGrid.from_molecule(z,at,spacing=sp,extension=ext,rotate=rot)
    # fractional coordinates of nuclei in grid frame
    frac=np.linalg.solve(g.axes.T,(at-g.origin).T).T   # in units of steps
    lo=frac.min(axis=0)*sp; hi=((np.array(g.shape)-1)-frac.max(axis=0))*sp
    margin=min(lo.min(),hi.min())
    tot+=1
    if margin < ext-sp-1e-9: bad+=1; worst=max(worst,ext-sp-margin)
print("violations",bad,"of",tot,"worst shortfall",worst)
# symmetric case
at=np.array([[0,0,-1.],[0,0,1.]]); z=np.array([1.,1.])
g=UniformGrid.from_molecule(z,at,spacing=0.25,extension=2.0,rotate=False)
frac=np.linalg.solve(g.axes.T,(at-g.origin).T).T
print("sym margins", frac.min(axis=0)*0.25, ((np.array(g.shape)-1)-frac.max(axis=0))*0.25)
