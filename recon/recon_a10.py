import warnings; warnings.simplefilter("ignore")
import numpy as np, collections
from grid.basegrid import Grid, OneDGrid, LocalGrid
from grid.atomgrid import AtomGrid
from grid.molgrid import MolGrid
from grid.angular import AngularGrid
from grid.becke import BeckeWeights
from grid.onedgrid import GaussLegendre
from grid.rtransform import BeckeRTransform
from grid.cubic import UniformGrid, Tensor1DGrids
from grid.periodicgrid import PeriodicGrid
rng=np.random.default_rng(5)
stats=collections.Counter(); fails=collections.Counter()
def mk(kind):
    if kind=="grid1": return Grid(rng.normal(size=(12,1)),rng.uniform(.1,1,12))
    if kind=="grid2": return Grid(rng.normal(size=(12,2)),rng.uniform(.1,1,12))
    if kind=="grid3": return Grid(rng.normal(size=(12,3)),rng.uniform(.1,1,12))
    if kind=="oned": return OneDGrid(np.sort(rng.normal(size=9)),rng.uniform(.1,1,9),(-10,10))
    rg=BeckeRTransform(0,1.0).transform_1d_grid(GaussLegendre(4))
    if kind=="atom": return AtomGrid(rg,degrees=[3],center=rng.normal(size=3),rotate=int(rng.integers(0,99)))
    if kind=="mol": return MolGrid(np.array([1,8]),[AtomGrid(rg,degrees=[3],center=np.array([0,0,-.7])),AtomGrid(rg,degrees=[5],center=np.array([0,0,.7]))],BeckeWeights(),store=bool(rng.integers(0,2)))
    if kind=="uniform": return UniformGrid(rng.normal(size=3),np.diag(rng.uniform(.2,.5,3))+rng.normal(size=(3,3))*0.05,np.array([2,3,4]))
    if kind=="uniform2": return UniformGrid(rng.normal(size=2),np.diag(rng.uniform(.2,.5,2)),np.array([3,4]))
    if kind=="tensor": 
        o=lambda n: OneDGrid(np.sort(rng.normal(size=n)),rng.uniform(.1,1,n),(-10,10))
        return Tensor1DGrids(o(2),o(3),o(2))
    if kind=="angular": return AngularGrid(degree=5)
    if kind=="periodic0": return PeriodicGrid(rng.normal(size=(10,2)),rng.uniform(.1,1,10))
def check_local(g,kind):
    P=np.asarray(g.points); W=np.asarray(g.weights)
    oned=P.ndim==1
    c = float(rng.normal()) if oned else (P[rng.integers(0,len(P))].copy() if rng.random()<0.3 else rng.normal(size=P.shape[1])*rng.choice([1,100]))
    r=float(rng.choice([0.0,1e-12,0.3,1.0,3.0,1e6,np.inf]))
    d=np.abs(P-c) if oned else np.linalg.norm(P-c,axis=1)
    if np.any(np.abs(d-r)<1e-9) and r not in (0.0,): stats["ambiguous"]+=1; return
    exp=np.where(d<=r)[0]
    try:
        lg=g.get_localgrid(c,r)
        ok = sorted(lg.indices.tolist())==exp.tolist() and np.allclose(lg.points,P[lg.indices]) and np.allclose(lg.weights,W[lg.indices]) and np.allclose(lg.center,c)
        if r==np.inf: ok = ok and np.array_equal(lg.indices,np.arange(len(P)))
        stats[(kind,"local","ok" if ok else "MISMATCH")]+=1
        if not ok: fails[(kind,"local mismatch",r)]+=1
    except Exception as e:
        fails[(kind,"local",type(e).__name__,str(e)[:50])]+=1
for trial in range(1500):
    kind=rng.choice(["grid1","grid2","grid3","oned","atom","mol","uniform","uniform2","tensor","angular","periodic0"])
    g=mk(kind)
    for step in range(6):
        op=rng.choice(["q","q","setp","setw","sel"])
        if op=="q": check_local(g,kind)
        elif op=="setp":
            try:
                P=np.asarray(g.points); g.points=P*float(rng.uniform(.5,2))+float(rng.normal()); stats[(kind,"setp")]+=1
            except AttributeError: stats[(kind,"setp-unsupported")]+=1
            except Exception as e: fails[(kind,"setp",type(e).__name__,str(e)[:40])]+=1
        elif op=="setw":
            try: g.weights=np.asarray(g.weights)*2.0; stats[(kind,"setw")]+=1
            except AttributeError: stats[(kind,"setw-unsupported")]+=1
            except Exception as e: fails[(kind,"setw",type(e).__name__,str(e)[:40])]+=1
        else:
            if kind not in ("grid1","grid2","grid3","oned","periodic0"): continue
            N=g.size; which=rng.choice(["int","npint","neg","slice","arr","mask"])
            idx={"int":int(rng.integers(0,N)),"npint":np.int64(rng.integers(0,N)),"neg":-int(rng.integers(1,N+1)),"slice":slice(int(rng.integers(0,N)),None,int(rng.integers(1,3))),"arr":rng.integers(0,N,size=4),"mask":rng.random(N)<0.5}[which]
            try:
                s=g[idx]; P=np.asarray(g.points); W=np.asarray(g.weights)
                eP=P[idx] if which not in("int","npint","neg") else P[idx:idx+1] if idx!=-1 else P[-1:]
                eW=W[idx] if which not in("int","npint","neg") else W[idx:idx+1] if idx!=-1 else W[-1:]
                ok=type(s) is type(g) and np.array_equal(np.asarray(s.points),eP) and np.array_equal(np.asarray(s.weights),eW)
                if kind=="oned": ok=ok and s.domain==g.domain
                stats[(kind,"sel",which,"ok" if ok else "MISMATCH")]+=1
                if not ok: fails[(kind,"sel mismatch",which)]+=1
            except Exception as e: fails[(kind,"sel",which,type(e).__name__,str(e)[:50])]+=1
print("FAILS"); [print(" ",k,v) for k,v in sorted(fails.items(),key=str)]
print("STATS", sum(v for k,v in stats.items() if "ok" in k), "ok;", {k:v for k,v in stats.items() if "ok" not in k})
