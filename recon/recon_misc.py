import warnings; warnings.simplefilter("ignore")
import numpy as np, traceback
from grid.basegrid import Grid, OneDGrid, LocalGrid
from grid.atomgrid import AtomGrid
from grid.molgrid import MolGrid
from grid.angular import AngularGrid
from grid.becke import BeckeWeights
from grid.onedgrid import GaussLegendre
from grid.rtransform import BeckeRTransform
from grid.cubic import UniformGrid, Tensor1DGrids
from grid.periodicgrid import PeriodicGrid
def tryit(name, f):
    try:
        r=f(); print("OK  ", name, "->", r)
    except Exception as e:
        print("FAIL", name, "->", type(e).__name__, str(e)[:100])
rg=BeckeRTransform(0,1.0).transform_1d_grid(GaussLegendre(6))
ag=AtomGrid(rg,degrees=[5],center=np.array([0.5,0,0]))
tryit("AtomGrid.get_localgrid", lambda: ag.get_localgrid(np.zeros(3),1.0).size)
tryit("AtomGrid.get_localgrid inf", lambda: (ag.get_localgrid(np.zeros(3),np.inf).size, np.allclose(ag.get_localgrid(np.zeros(3),np.inf).points, ag.points)))
g=Grid(np.random.rand(10,3),np.ones(10))
tryit("Grid empty sphere", lambda: g.get_localgrid(np.array([5.,5,5]),0.1).size)
tryit("Grid radius 0", lambda: g.get_localgrid(g.points[3],0.0).size)
def stale():
    g=Grid(np.random.rand(10,3),np.ones(10)); a=g.get_localgrid(np.zeros(3),0.5)
    g.points=g.points+10.0; b=g.get_localgrid(np.zeros(3),0.5); return a.size,b.size
tryit("stale kdtree after points reassign", stale)
tryit("Grid[np.int64]", lambda: g[np.int64(2)].size)
tryit("Grid[mask]", lambda: g[g.points[:,0]>0.5].size)
tryit("Grid[-1]", lambda: g[-1].size)
od=OneDGrid(np.linspace(0,1,5),np.ones(5),(0,1))
tryit("OneD localgrid", lambda: od.get_localgrid(0.5,0.3).size)
tryit("OneD[np.int64]", lambda: od[np.int64(1)].size)
tryit("OneD[[0,2]]", lambda: od[[0,2]].size)
mg=MolGrid(np.array([1,1]),[ag,AtomGrid(rg,degrees=[5],center=np.array([-0.5,0,0]))],BeckeWeights(),store=True)
tryit("MolGrid localgrid", lambda: mg.get_localgrid(np.zeros(3),1.0).size)
tryit("MolGrid localgrid empty", lambda: mg.get_localgrid(np.ones(3)*1e9,1.0).size)
ug=UniformGrid(np.zeros(3),np.eye(3)*0.5,np.array([3,4,5]))
tryit("Uniform localgrid", lambda: ug.get_localgrid(np.zeros(3),0.7).size)
tryit("Uniform[2]", lambda: type(ug[2]).__name__)
tryit("Uniform[1:5]", lambda: type(ug[1:5]).__name__)
for w in ["Rectangle","Trapezoid","Fourier1","Fourier2","Alternative"]:
    tryit("3D "+w, lambda: (UniformGrid(np.zeros(3),np.eye(3)*0.5,np.array([6,7,8]),weight=w).weights.sum(), 0.5**3*6*7*8))
    tryit("2D "+w, lambda: (UniformGrid(np.zeros(2),np.eye(2)*0.5,np.array([6,7]),weight=w).weights.sum(), 0.25*42))
u2=UniformGrid(np.array([1.,2.]),np.array([[0.5,0.1],[0.0,0.3]]),np.array([2,3]))
print(u2.points)
tryit("moments 1D", lambda: Grid(np.random.rand(5,1),np.ones(5)).moments(2,np.zeros((1,1)),np.ones(5)))
tryit("moments 2D", lambda: Grid(np.random.rand(5,2),np.ones(5)).moments(2,np.zeros((1,2)),np.ones(5)).shape)
# cache aliasing
a=AngularGrid(degree=7,method="maxdet"); ref=a.points.copy(); a.points[:]=0; b=AngularGrid(degree=7,method="maxdet")
print("maxdet cache corrupted by in-place edit of points:", not np.allclose(b.points,ref))
a=AngularGrid(degree=7); ref=a.points.copy(); refw=a.weights.copy(); a.points[:]=0; a.weights[:]=0; b=AngularGrid(degree=7)
print("lebedev cache corrupted points:", not np.allclose(b.points,ref), "weights:", not np.allclose(b.weights,refw))
a=AngularGrid(degree=9,method="ahrens_beylkin"); 
a=AngularGrid(degree=20,method="ahrens_beylkin"); refw=a.weights.copy(); a.weights*=2; b=AngularGrid(degree=20,method="ahrens_beylkin")
print("AB cache corrupted weights:", not np.allclose(b.weights,refw))
# periodic
tryit("periodic 1D no realvecs", lambda: PeriodicGrid(np.linspace(0,1,5),np.ones(5)).get_localgrid(0.5,0.2).size)
tryit("periodic 1D negative vec", lambda: PeriodicGrid(np.linspace(0,0.9,5),np.ones(5),np.array([-1.0])).get_localgrid(0.5,0.3).size)
tryit("periodic 1D positive vec", lambda: PeriodicGrid(np.linspace(0,0.9,5),np.ones(5),np.array([1.0])).get_localgrid(0.5,0.3).size)
tryit("periodic empty sphere", lambda: PeriodicGrid(np.array([[0.1,0.1],[0.2,0.2]]),np.ones(2),np.eye(2)).get_localgrid(np.array([0.6,0.6]),0.05).size)
tryit("periodic 2D, neg vec", lambda: PeriodicGrid(np.random.rand(6,2),np.ones(6),np.array([[-1.0,0],[0.2,1.0]])).get_localgrid(np.array([0.6,0.6]),1.5).size)
