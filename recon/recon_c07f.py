import warnings; warnings.simplefilter("ignore")
import numpy as np, time, sys
from importlib.resources import files
from grid.molgrid import MolGrid
from grid.atomgrid import AtomGrid, _get_rgrid_size
from grid.becke import BeckeWeights
from grid.onedgrid import UniformInteger
from grid.rtransform import PowerRTransform
from grid.utils import _DEFAULT_POWER_RTRANSFORM_PARAMS as DP, ANGSTROM_TO_BOHR
presets=sys.argv[3].split(",")
rng=np.random.default_rng(int(sys.argv[1]))
avail={}
for p in set(presets):
    d=np.load(files("grid.data.prune_grid").joinpath(f"prune_grid_{p}.npz"))
    avail[p]=sorted({int(k.split("_")[0]) for k in d.keys() if k[0].isdigit()} & set(DP))
worst={}
for trial in range(int(sys.argv[2])):
    preset=presets[trial%len(presets)]
    M=int(rng.integers(1,6))
    atn=rng.choice(avail[preset],size=M)
    while True:
        at=rng.uniform(-3,3,(M,3))
        d=[np.linalg.norm(at[i]-at[j]) for i in range(M) for j in range(i)]
        if not d or min(d)>1.2: break
    shellcount = preset in ["sg_0","sg_2","sg_3","g1","g2","g3","g4","g5","g6","g7"]
    try:
        if shellcount:
            rgs=[]
            for z in atn:
                n=_get_rgrid_size(preset,int(z))[0]; rmin,rmax,_=DP[int(z)]
                rgs.append(PowerRTransform(rmin*ANGSTROM_TO_BOHR,rmax*ANGSTROM_TO_BOHR).transform_1d_grid(UniformInteger(int(n))))
            mg=MolGrid.from_preset(atn,at,preset,rgrid=rgs)
        else:
            mg=MolGrid.from_preset(atn,at,preset)
    except Exception as e:
        print(preset,list(atn),"ERR",type(e).__name__,str(e)[:80]); continue
    tot=0; f=np.zeros(mg.size)
    for a in range(M):
        for _ in range(int(rng.integers(1,4))):
            al=float(np.exp(rng.uniform(np.log(0.3),np.log(30)))); c=float(rng.uniform(0.2,2))
            f+=c*(al/np.pi)**1.5*np.exp(-al*np.sum((mg.points-at[a])**2,axis=1)); tot+=c
    rel=abs(mg.integrate(f)-tot)/tot
    if rel>worst.get(preset,(0,))[0]: worst[preset]=(rel,list(map(int,atn)))
for k,v in worst.items(): print(k,f"{v[0]:.2e}",v[1])
