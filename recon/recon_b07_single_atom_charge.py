import warnings; warnings.simplefilter("ignore")
import numpy as np
from importlib.resources import files
from grid.atomgrid import AtomGrid
from grid.utils import _DEFAULT_POWER_RTRANSFORM_PARAMS as DP
als=np.exp(np.linspace(np.log(0.3),np.log(30),60))
for preset in ["coarse","medium","fine","veryfine","ultrafine","insane","sg_1"]:
    d=np.load(files("grid.data.prune_grid").joinpath(f"prune_grid_{preset}.npz"))
    zs=sorted({int(k.split("_")[0]) for k in d.keys() if k[0].isdigit()} & set(DP))
    if preset=="sg_1": zs=[z for z in zs if z<=18]
    worst=(0,None,None)
    for z in zs:
        ag=AtomGrid.from_preset(z,preset)
        r2=np.sum(ag.points**2,axis=1)
        for al in als:
            v=ag.integrate((al/np.pi)**1.5*np.exp(-al*r2)); e=abs(v-1)
            if e>worst[0]: worst=(e,z,al)
    print(preset,f"single-atom worst {worst[0]:.2e} at Z={worst[1]} alpha={worst[2]:.2f}")
