import warnings; warnings.simplefilter("ignore")
import numpy as np
from grid.becke import BeckeWeights
from grid.utils import _bragg
print("nan bragg:", [i for i in range(1,87) if np.isnan(_bragg[i])])
rng=np.random.default_rng(0)
def ref_weights(points, atcoords, radii, order):
    # direct definition, loops
    M=len(atcoords); P=np.ones((len(points),M))
    for a in range(M):
        for b in range(M):
            if a==b: continue
            ra=np.linalg.norm(points-atcoords[a],axis=1); rb=np.linalg.norm(points-atcoords[b],axis=1)
            mu=(ra-rb)/np.linalg.norm(atcoords[a]-atcoords[b])
            u=(radii[a]-radii[b])/(radii[a]+radii[b]); al=u/(u*u-1); al=min(max(al,-0.45),0.45)
            nu=mu+al*(1-mu*mu)
            for _ in range(order): nu=1.5*nu-0.5*nu**3
            P[:,a]*=0.5*(1-nu)
    return P/P.sum(axis=1,keepdims=True)
worst=0
for trial in range(300):
    M=int(rng.integers(1,9)); 
    atnums=rng.choice([1,6,7,8,9,15,16,17,26,35],size=M)
    while True:
        at=rng.uniform(-3,3,(M,3))
        d=[np.linalg.norm(at[i]-at[j]) for i in range(M) for j in range(i)]
        if not d or min(d)>0.5: break
    sizes=rng.integers(0,40,size=M); sizes[rng.integers(0,M)]+=1
    idx=np.concatenate([[0],np.cumsum(sizes)]); N=idx[-1]
    pts=rng.uniform(-5,5,(N,3))
    order=int(rng.integers(1,5))
    bw=BeckeWeights(order=order)
    w=bw(pts,at,atnums,idx)
    radii=np.array([_bragg[z] for z in atnums])
    W=ref_weights(pts,at,radii,order)
    ref=np.concatenate([W[idx[a]:idx[a+1],a] for a in range(M)])
    e=np.max(np.abs(w-ref)) if N else 0
    g=bw.generate_weights(pts,at,atnums,pt_ind=idx) if M>1 else w
    c=bw.compute_weights(pts,at,atnums,pt_ind=idx) if M>1 else w
    e2=max(np.max(np.abs(w-g)),np.max(np.abs(w-c)))
    worst=max(worst,e,e2)
    if e>1e-10 or e2>1e-12: print("MISMATCH",trial,M,N,order,e,e2)
print("worst",worst)
