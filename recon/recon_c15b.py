import warnings; warnings.simplefilter("ignore")
import numpy as np, sys, collections, time
from grid.ode import solve_ode_ivp, solve_ode_bvp
from grid.rtransform import *
rng=np.random.default_rng(int(sys.argv[1]))
def make_solution():
    J=int(rng.integers(1,3)); c=rng.uniform(-1,1,J); p=rng.uniform(-0.8,0.8,J); q=rng.uniform(0,2.0,J); s=rng.uniform(0,6,J)
    def deriv(x,k):
        x=np.asarray(x,dtype=float); z=p+1j*q
        return sum(c[j]*np.real(z[j]**k*np.exp(z[j]*x+1j*s[j])) for j in range(J))
    return deriv
res=collections.defaultdict(list); t0=time.time()
for trial in range(int(sys.argv[2])):
    order=int(rng.integers(1,4)); ysol=make_solution()
    # well-posed families
    if order==1:
        a1=float(rng.uniform(0.6,1.5))*rng.choice([-1,1]); a0f=(lambda x,a=rng.uniform(-1,1),b=rng.uniform(-.5,.5): a+b*np.sin(x))
        coeffs=[a0f,a1]; cf=[a0f,lambda x:np.full(np.shape(x),a1)]
    elif order==2:
        a2=float(rng.uniform(0.6,1.5)); a1f=(lambda x,a=rng.uniform(-1,1),b=rng.uniform(-.5,.5): a+b*np.sin(x)); a0f=(lambda x,a=rng.uniform(0,1.5),b=rng.uniform(0,.5): -(a+b*np.cos(x)**2))
        coeffs=[a0f,a1f,a2]; cf=[a0f,a1f,lambda x:np.full(np.shape(x),a2)]
    else:
        r1,r2,r3=rng.uniform(-1.5,1.5,3)  # (D-r1)(D-r2)(D-r3)
        e=[-r1*r2*r3, r1*r2+r1*r3+r2*r3, -(r1+r2+r3), 1.0]
        coeffs=e; cf=[(lambda x,v=v: np.full(np.shape(x),v)) for v in e]
    fx=lambda x: sum(cf[k](x)*ysol(x,k) for k in range(order+1))
    tfk=rng.choice(["none","becke_inv","linfin","knowles_inv","identity","handy_inv"])
    if tfk=="none": tf=None; a0,b0=sorted(rng.uniform(-2,2,2))
    elif tfk=="linfin": tf=LinearFiniteRTransform(float(rng.uniform(0,1)),float(rng.uniform(2,5))); a0,b0=sorted(rng.uniform(-0.95,0.95,2))
    elif tfk=="identity": tf=IdentityRTransform(); a0,b0=sorted(rng.uniform(0.1,3,2))
    elif tfk=="becke_inv": tf=InverseRTransform(BeckeRTransform(0.0,float(rng.uniform(0.5,2)))); a0,b0=sorted(rng.uniform(0.1,4,2))
    elif tfk=="knowles_inv": tf=InverseRTransform(KnowlesRTransform(0.0,float(rng.uniform(0.5,2)),int(rng.integers(1,4)))); a0,b0=sorted(rng.uniform(0.1,4,2))
    elif tfk=="handy_inv": tf=InverseRTransform(HandyRTransform(0.0,float(rng.uniform(0.5,2)),int(rng.integers(1,4)))); a0,b0=sorted(rng.uniform(0.1,4,2))
    if b0-a0<0.3: b0=a0+0.3
    if b0-a0>2.5: b0=a0+2.5
    x=np.linspace(a0,b0,30)
    # Dirichlet-type conditions (j=0) to be transform independent: order1: y(a); order2: y(a),y(b); order3: y(a),y(b), and y'(a) only w/o transform else y at both + y(a)... use y(a),y(b) + derivative at a converted
    if order==1: bc=[(0,0,float(ysol(a0,0)))]
    elif order==2: bc=[(0,0,float(ysol(a0,0))),(1,0,float(ysol(b0,0)))]
    else:
        d1=float(ysol(a0,1))
        if tf is not None: d1=d1/float(np.asarray(tf.deriv(np.array([a0])))[0])  # dy/dr = dy/dx / (dr/dx)
        bc=[(0,0,float(ysol(a0,0))),(1,0,float(ysol(b0,0))),(0,1,d1)]
    try:
        sol=solve_ode_bvp(x,fx,coeffs,bc,tf,tol=1e-8,max_nodes=20000,initial_guess_y=np.zeros((order,x.size)),no_derivatives=False)
        xs=np.linspace(a0,b0,41); out=np.atleast_2d(sol(xs))
        err=max(np.max(np.abs(out[k]-ysol(xs,k))) for k in range(out.shape[0]))
        scale=max(1,max(np.max(np.abs(ysol(xs,k))) for k in range(order)))
        res[("bvp",str(tfk),order)].append(err/scale)
    except Exception as e:
        res[("bvp",str(tfk),order,"EXC",type(e).__name__,str(e)[:50])].append(1)
for k in sorted(res,key=str):
    v=res[k]
    if "EXC" in k: print(k,len(v))
    else: print(k,len(v),f"max {max(v):.1e} med {np.median(v):.1e}")
print("time",time.time()-t0)
