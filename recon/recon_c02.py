import warnings; warnings.simplefilter("ignore")
import numpy as np, time, sys
from grid import angular as A
def integ_all(pts, w, L):
    """return max |int Y_lm - sqrt(4pi) d_l0| over l<=L via stable normalised recursion; also returns worst (l,m)"""
    x,y,z=pts.T
    ct=z; st=np.sqrt(np.maximum(0,1-z*z)); phi=np.arctan2(y,x)
    worst=(0,None)
    pmm=np.full(len(z), np.sqrt(1/(4*np.pi)))
    for m in range(0,L+1):
        if m>0:
            pmm=pmm*st*np.sqrt((2*m+1)/(2*m))
        c=np.cos(m*phi)*(np.sqrt(2) if m>0 else 1); s=np.sin(m*phi)*np.sqrt(2)
        wc=w*c; ws=w*s
        pl2=pmm; 
        vals=[(m,pl2)]
        v=abs(wc@pl2-(np.sqrt(4*np.pi) if m==0 else 0));  worst=max(worst,(v,(m,m)),key=lambda t:t[0])
        if m>0:
            v=abs(ws@pl2); worst=max(worst,(v,(m,-m)),key=lambda t:t[0])
        if m+1<=L:
            pl1=np.sqrt(2*m+3)*ct*pmm
            v=abs(wc@pl1); worst=max(worst,(v,(m+1,m)),key=lambda t:t[0])
            if m>0:
                v=abs(ws@pl1); worst=max(worst,(v,(m+1,-m)),key=lambda t:t[0])
            for l in range(m+2,L+1):
                a=np.sqrt((4*l*l-1)/(l*l-m*m)); b=np.sqrt(((l-1)**2-m*m)/(4*(l-1)**2-1))
                p=a*(ct*pl1-b*pl2)
                v=abs(wc@p); worst=max(worst,(v,(l,m)),key=lambda t:t[0])
                if m>0:
                    v=abs(ws@p); worst=max(worst,(v,(l,-m)),key=lambda t:t[0])
                pl2,pl1=pl1,p
    return worst
meth=sys.argv[1]
tab={"lebedev":A.LEBEDEV_DEGREES,"spherical":A.SPHERICAL_DEGREES,"maxdet":A.MAX_DET_DEGREES,"ahrens_beylkin":A.AHRENS_BEYLKIN_DEGREES}[meth]
lim=int(sys.argv[2]) if len(sys.argv)>2 else 10**9
for d,s in tab.items():
    if d>lim: continue
    t=time.time()
    g=A.AngularGrid(degree=d,method=meth,cache=False)
    nrm=np.max(np.abs(np.linalg.norm(g.points,axis=1)-1))
    w=integ_all(g.points,g.weights,d)
    w1=integ_all(g.points,g.weights,d+1)
    flag = "  <<<<<<" if w[0]>1e-9 or nrm>1e-10 or g.size!=s else ""
    print(meth,d,s,g.size,f"norm {nrm:.1e} worst {w[0]:.2e} at {w[1]}  beyond(d+1) {w1[0]:.1e} sumabs {np.abs(g.weights).sum()/4/np.pi:.2f} t={time.time()-t:.1f}s{flag}",flush=True)
