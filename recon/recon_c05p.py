import warnings; warnings.simplefilter("ignore")
import numpy as np, os, re, time
from importlib.resources import files
from grid.atomgrid import AtomGrid, _get_rgrid_size
from grid.onedgrid import GaussLegendre, UniformInteger
from grid.rtransform import BeckeRTransform, PowerRTransform
from grid.utils import _DEFAULT_POWER_RTRANSFORM_PARAMS
d=files("grid.data.prune_grid")
fl=sorted(f for f in os.listdir(d) if f.endswith(".npz"))
print(fl)
for f in fl:
    preset=f[len("prune_grid_"):-4]
    data=np.load(d.joinpath(f))
    keys=list(data.keys())
    ats=sorted({int(k.split("_")[0]) for k in keys if re.match(r"^\d+_", k)})
    other=[k for k in keys if not re.match(r"^\d+_",k)]
    fails=[]
    t=time.time()
    for z in ats:
        rad=data[f"{z}_rad"]; npt=data[f"{z}_npt"]
        try:
            if preset in ["sg_0","sg_1","sg_2","sg_3","g1","g2","g3","g4","g5","g6","g7"]:
                n=_get_rgrid_size(preset, z)[0]
            else: n=30
            rg=BeckeRTransform(0,1.0).transform_1d_grid(GaussLegendre(int(n)))
            g=AtomGrid.from_preset(z,preset,rg)
        except Exception as e:
            fails.append((z,type(e).__name__,str(e)[:80], rad.tolist()[:6], npt.tolist()[:6]))
    print(preset, "elements",len(ats), f"{ats[0]}..{ats[-1]}", "other keys",other, "fails",len(fails), f"{time.time()-t:.1f}s")
    for x in fails[:6]: print("    ",x)
