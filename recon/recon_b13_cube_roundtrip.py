import warnings; warnings.simplefilter("ignore")
import numpy as np, os, tempfile, io, contextlib
from grid.cubic import UniformGrid
from grid.utils import ANGSTROM_TO_BOHR, BOHR_TO_ANGSTROM
rng=np.random.default_rng(0)
worst=dict(p=0,d=0,a=0); bad=0
for trial in range(100):
    shape=rng.integers(2,6,3); axes=np.diag(rng.uniform(.1,.6,3))+rng.normal(size=(3,3))*0.05; o=rng.normal(size=3)*3
    g=UniformGrid(o,axes,shape,weight=str(rng.choice(["Trapezoid","Rectangle"])))
    data=rng.normal(size=g.size)*np.exp(rng.uniform(-30,30,g.size)); M=int(rng.integers(1,4)); at=rng.normal(size=(M,3))*2; z=rng.integers(1,30,M); pseudo=z.astype(float)-rng.integers(0,2,M)*2
    pseudo=np.where(pseudo<=0,z,pseudo)
    with tempfile.TemporaryDirectory() as d:
        fn=os.path.join(d,"a.cube"); g.generate_cube(fn,data,at,z,pseudo_numbers=pseudo)
        g2,cd=UniformGrid.from_cube(fn,return_data=True)
        tol=5e-7*(1+np.sum(shape-1))*1.01+1e-12
        ok=np.max(np.abs(g2.points-g.points))<=tol and np.allclose(cd["data"],data,rtol=5.1e-6,atol=0) and np.max(np.abs(cd["atcoords"]-at))<=5.1e-7 and np.array_equal(cd["atnums"],z) and np.allclose(cd["atcorenums"],pseudo,atol=5.1e-7) and tuple(g2.shape)==tuple(shape)
        worst["p"]=max(worst["p"],np.max(np.abs(g2.points-g.points))/tol)
        # angstrom convention: rewrite header lengths in angstrom and negate first count
        L=open(fn).read().split("\n")
        def conv(line,neg=False,atom=False):
            t=line.split()
            if atom: return f"{int(t[0]):5d} {float(t[1]):11.6f} "+" ".join(f"{float(v)*BOHR_TO_ANGSTROM:13.8f}" for v in t[2:])
            n=int(t[0]); return f"{-n if neg else n:5d} "+" ".join(f"{float(v)*BOHR_TO_ANGSTROM:13.8f}" for v in t[1:])
        L2=L[:2]+[conv(L[2])]+[conv(L[3],neg=True),conv(L[4]),conv(L[5])]+[conv(l,atom=True) for l in L[6:6+M]]+L[6+M:]
        fn2=os.path.join(d,"b.cube"); open(fn2,"w").write("\n".join(L2))
        with contextlib.redirect_stdout(io.StringIO()):
            g3,cd3=UniformGrid.from_cube(fn2,return_data=True)
        ok2=np.max(np.abs(g3.points-g2.points))<1e-6*(1+np.sum(shape-1)) and np.max(np.abs(cd3["atcoords"]-cd["atcoords"]))<1e-6 and np.array_equal(cd3["data"],cd["data"]) and tuple(g3.shape)==tuple(shape)
        if not (ok and ok2): bad+=1; print("BAD",trial,ok,ok2)
print("bad",bad,"worst point err / tol",worst["p"])
