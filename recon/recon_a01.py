import warnings; warnings.simplefilter("ignore")
import numpy as np, mpmath as mp, itertools
from grid.onedgrid import *
mp.mp.dps=40
pi=mp.pi
maps={
 "TanhSinh": (lambda t: mp.tanh(pi/2*mp.sinh(t)), (-1,1), "delta"),
 "ExpSinh": (lambda t: mp.exp(pi/2*mp.sinh(t)), (0,np.inf), "h"),
 "LogExpSinh": (lambda t: mp.log(mp.exp(pi/2*mp.sinh(t))+1), (0,np.inf), "h"),
 "ExpExp": (lambda t: mp.exp(t)*mp.exp(-mp.exp(-t)), (0,np.inf), "h"),
 "SingleTanh": (lambda t: mp.tanh(t), (-1,1), "h"),
 "SingleExp": (lambda t: mp.exp(t), (0,np.inf), "h"),
 "SingleArcSinhExp": (lambda t: mp.asinh(mp.exp(t)), (0,np.inf), "h"),
}
cls={c.__name__:c for c in [TanhSinh,ExpSinh,LogExpSinh,ExpExp,SingleTanh,SingleExp,SingleArcSinhExp]}
for name,(f,dom,par) in maps.items():
    worst=0; bad=[]
    for n in [3,5,9,21,41]:
        for h in [0.05,0.1,0.3,1.0]:
            g=cls[name](n,h)
            m=(n-1)//2
            for idx,k in enumerate(range(-m,m+1)):
                t=mp.mpf(k)*mp.mpf(h)
                x=f(t); w=mp.mpf(h)*mp.diff(f,t)
                ex=abs(float(x)-g.points[idx])/max(1e-300,abs(float(x))); ew=abs(float(w)-g.weights[idx])/max(1e-300,abs(float(w)))
                if not (np.isfinite(g.points[idx]) and np.isfinite(g.weights[idx])): bad.append((n,h,k,"nonfinite")); continue
                worst=max(worst,ex,ew)
            if not np.all(np.diff(g.points)>0): bad.append((n,h,"not strictly ascending"))
            if g.points.min()<dom[0]-1e-12 or g.points.max()>dom[1]+1e-12: bad.append((n,h,"domain"))
    print(name,"worst rel",f"{worst:.1e}","issues",bad[:6],len(bad))
# Trefethen sausage maps and strip
from grid.onedgrid import _g2,_g3,_derg2,_derg3,_gstrip,_dergstrip
x=np.linspace(-1,1,41)
for g,dg,nm in [(_g2,_derg2,"g2"),(_g3,_derg3,"g3")]:
    fd=[float(mp.diff(lambda t: (1/mp.mpf(149))*(120*t+20*t**3+9*t**5) if nm=="g2" else (1/mp.mpf(53089))*(40320*t+6720*t**3+3024*t**5+1800*t**7+1225*t**9), mp.mpf(float(v)))) for v in x]
    print(nm,"deriv err",np.max(np.abs(dg(x)-np.array(fd))),"ends",g(np.array([-1.0,1.0])))
def gstrip_mp(rho,s):
    tau=pi/mp.log(rho); d=mp.mpf(1)/2+1/(mp.exp(tau*pi)+1); u=mp.asin(s)
    cn=1/(mp.log(1+mp.exp(-tau*pi))-mp.log(2)+pi*tau*d/2)
    return cn*(mp.log(1+mp.exp(-tau*(pi/2+u)))-mp.log(1+mp.exp(-tau*(pi/2-u)))+d*tau*u)
for rho in [1.1,1.4,2.0,3.0]:
    xs=np.linspace(-0.999,0.999,31)
    ref=np.array([float(mp.diff(lambda t: gstrip_mp(mp.mpf(rho),t), mp.mpf(float(v)))) for v in xs])
    val=np.array([float(gstrip_mp(mp.mpf(rho),mp.mpf(float(v)))) for v in xs])
    print("strip rho",rho,"g err",np.max(np.abs(_gstrip(rho,xs)-val)),"deriv relerr",np.max(np.abs(_dergstrip(rho,xs)-ref)/np.abs(ref)),"ends",_gstrip(rho,np.array([-1.0,1.0])), "deriv at ends", _dergstrip(rho,np.array([-1.0,1.0])), float(mp.diff(lambda t: gstrip_mp(mp.mpf(rho),t), mp.mpf('0.9999999999'))))
# structure for all classes
allc=[GaussLaguerre,GaussLegendre,GaussChebyshev,UniformInteger,GaussChebyshevType2,GaussChebyshevLobatto,Trapezoidal,RectangleRuleSineEndPoints,TanhSinh,Simpson,MidPoint,ClenshawCurtis,FejerFirst,FejerSecond,TrefethenCC,TrefethenGC2,TrefethenStripCC,TrefethenStripGC2,ExpSinh,LogExpSinh,ExpExp,SingleTanh,SingleExp,SingleArcSinhExp]
for c in allc:
    issues=[]
    for n in list(range(2,40))+[63,64,65,101,128,129,200,257]:
        try: g=c(n)
        except ValueError: continue
        except Exception as e: issues.append((n,type(e).__name__)); continue
        if g.size!=n: issues.append((n,"size"))
        if not np.all(np.diff(g.points)>0): issues.append((n,"order"))
        if not np.all(np.isfinite(g.points)) or not np.all(np.isfinite(g.weights)): issues.append((n,"nonfinite"))
        if g.points.min()<g.domain[0]-1e-12 or g.points.max()>g.domain[1]+1e-12: issues.append((n,"domain"))
        if np.any(g.weights<0): issues.append((n,"negw"))
    print(c.__name__, issues[:8], len(issues))
