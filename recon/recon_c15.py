import warnings; warnings.simplefilter("ignore")
import numpy as np, sys, collections
from grid.ode import solve_ode_ivp, solve_ode_bvp
from grid.rtransform import *
rng=np.random.default_rng(int(sys.argv[1]))
# solution family: y = sum_j c_j * exp(p_j x) * cos(q_j x + s_j) ; analytic derivatives via complex exponent
def make_solution():
    J=int(rng.integers(1,3)); c=rng.uniform(-1,1,J); p=rng.uniform(-0.8,0.8,J); q=rng.uniform(0,2.0,J); s=rng.uniform(0,6,J)
    def deriv(x,k):
        x=np.asarray(x,dtype=float); z=p+1j*q
        return sum(c[j]*np.real(z[j]**k*np.exp(z[j]*x+1j*s[j])) for j in range(J))
    return deriv, dict(c=c.tolist(),p=p.tolist(),q=q.tolist(),s=s.tolist())
def make_coeff(kind):
    if kind=="const":
        v=float(rng.uniform(-1.5,1.5)); return v, (lambda x,v=v: np.full(np.shape(x),v)), ("const",v)
    a,b,w=rng.uniform(-1,1),rng.uniform(-0.5,0.5),rng.uniform(0.3,1.5)
    f=lambda x,a=a,b=b,w=w: a+b*np.sin(w*x)
    return f,f,("sin",a,b,w)
res=collections.defaultdict(list)
ntr=int(sys.argv[2])
for trial in range(ntr):
    order=int(rng.integers(1,4))
    ysol,desc=make_solution()
    coeffs=[];cf=[]
    for k in range(order+1):
        kind="const" if rng.random()<0.4 else "fn"
        c,f,_=make_coeff(kind)
        if k==order:
            # leading coefficient bounded away from zero
            a=float(rng.uniform(0.6,1.5))*rng.choice([-1,1]); b=float(rng.uniform(-0.3,0.3)); w=float(rng.uniform(0.3,1.5))
            if kind=="const": c=a; f=lambda x,a=a: np.full(np.shape(x),a)
            else:
                f=lambda x,a=a,b=b,w=w: a+b*np.sin(w*x); c=f
        coeffs.append(c); cf.append(f)
    fx=lambda x: sum(cf[k](x)*ysol(x,k) for k in range(order+1))
    tfk=rng.choice(["none","becke_inv","linfin","knowles_inv","identity","handy_inv","multiexp_inv"])
    # original variable domain: choose interval in original x
    if tfk=="none": tf=None; a0,b0=sorted(rng.uniform(-2,2,2)); 
    elif tfk=="linfin": tf=LinearFiniteRTransform(float(rng.uniform(0,1)),float(rng.uniform(2,5))); a0,b0=sorted(rng.uniform(-0.95,0.95,2))
    elif tfk=="identity": tf=IdentityRTransform(); a0,b0=sorted(rng.uniform(0.1,3,2))
    elif tfk=="becke_inv": tf=InverseRTransform(BeckeRTransform(0.0,float(rng.uniform(0.5,2)))); a0,b0=sorted(rng.uniform(0.1,4,2))
    elif tfk=="knowles_inv": tf=InverseRTransform(KnowlesRTransform(0.0,float(rng.uniform(0.5,2)),int(rng.integers(1,4)))); a0,b0=sorted(rng.uniform(0.1,4,2))
    elif tfk=="handy_inv": tf=InverseRTransform(HandyRTransform(0.0,float(rng.uniform(0.5,2)),int(rng.integers(1,4)))); a0,b0=sorted(rng.uniform(0.1,4,2))
    elif tfk=="multiexp_inv": tf=InverseRTransform(MultiExpRTransform(0.0,float(rng.uniform(0.5,2)))); a0,b0=sorted(rng.uniform(0.1,4,2))
    if b0-a0<0.3: b0=a0+0.3
    xs=np.linspace(a0,b0,25)
    # IVP
    y0=[float(ysol(a0,k)) for k in range(order)]
    try:
        sol=solve_ode_ivp((a0,b0),fx,coeffs,y0,tf,rtol=1e-9,atol=1e-9)
        out=sol(xs); out=np.atleast_2d(out)
        err=max(np.max(np.abs(out[k]-ysol(xs,k))) for k in range(out.shape[0]))
        scale=max(1,max(np.max(np.abs(ysol(xs,k))) for k in range(order)))
        res[("ivp",tfk,order)].append(err/scale)
    except Exception as e:
        res[("ivp",tfk,order,"EXC",type(e).__name__,str(e)[:60])].append(1)
for k in sorted(res,key=str):
    v=res[k]; 
    if "EXC" in k: print(k,len(v))
    else: print(k,len(v),f"max {max(v):.1e} med {np.median(v):.1e}")
