import warnings; warnings.simplefilter("ignore")
import numpy as np, sys
from grid.molgrid import MolGrid
rng=np.random.default_rng(int(sys.argv[1]))
heavy=[55,56,37,38,19,20,11,3,57,81]; light=[1,2,5,6,7,8,9,10]
worst={}
for trial in range(int(sys.argv[2])):
    preset=["coarse","medium","fine","veryfine","ultrafine","insane"][trial%6]
    M=int(rng.integers(2,4)); atn=np.array([rng.choice(heavy)]+[rng.choice(light+heavy) for _ in range(M-1)])
    # compact geometry: chain with nearest distances in [1.2,1.6]
    at=[np.zeros(3)]
    for a in range(1,M):
        while True:
            v=rng.normal(size=3); v/=np.linalg.norm(v); p=at[rng.integers(0,len(at))]+v*rng.uniform(1.2,1.6)
            if min(np.linalg.norm(p-q) for q in at)>=1.2: at.append(p); break
    at=np.array(at)
    mg=MolGrid.from_preset(atn,at,preset)
    tot=0; f=np.zeros(mg.size)
    for a in range(M):
        for _ in range(int(rng.integers(1,3))):
            al=float(np.exp(rng.uniform(np.log(3),np.log(30)))); c=float(rng.uniform(0.2,2))
            f+=c*(al/np.pi)**1.5*np.exp(-al*np.sum((mg.points-at[a])**2,axis=1)); tot+=c
    rel=abs(mg.integrate(f)-tot)/tot
    if rel>worst.get(preset,(0,))[0]: worst[preset]=(rel,atn.tolist(),np.round(at,3).tolist())
for k,v in worst.items(): print(k,f"{v[0]:.2e}",v[1])
