import warnings; warnings.simplefilter("ignore")
import numpy as np, itertools
from grid.cubic import UniformGrid, Tensor1DGrids
rng=np.random.default_rng(0)
worst={}
for dim in (2,3):
    for shape in itertools.product(range(2,13),repeat=dim):
        if dim==3 and rng.random()>0.15: continue
        shape=np.array(shape); axes=np.diag(rng.uniform(.1,.9,dim))+rng.normal(size=(dim,dim))*0.1
        V=abs(np.linalg.det(axes*shape[:,None]))
        for w in ["Rectangle","Trapezoid","Fourier1","Alternative","Fourier2"]:
            try:
                g=UniformGrid(rng.normal(size=dim),axes,shape,weight=w)
                dev=abs(g.weights.sum()-V)/V; bound=np.sum(1.0/shape)
                k=(dim,w); worst[k]=max(worst.get(k,(0,))[0:1]+(dev/bound,)),
                if dev>bound and w!="Fourier2": print("BOUND VIOL",dim,shape,w,dev,bound)
            except Exception as e:
                worst[(dim,w)]=("EXC "+type(e).__name__,)
print({k:v for k,v in worst.items()})
# index maps & layout
bad=0
for trial in range(300):
    dim=int(rng.integers(2,4)); shape=rng.integers(2,7,dim); axes=np.diag(rng.uniform(.1,.9,dim)*rng.choice([-1,1],dim))+rng.normal(size=(dim,dim))*0.1; o=rng.normal(size=dim)
    g=UniformGrid(o,axes,shape)
    for idx in range(g.size):
        c=g.index_to_coordinates(idx)
        if g.coordinates_to_index(c)!=idx: bad+=1
        if not np.allclose(g.points[idx], o+np.array(c)@axes): bad+=1
    for c in itertools.product(*[range(s) for s in shape]):
        if tuple(int(v) for v in g.index_to_coordinates(g.coordinates_to_index(c)))!=c: bad+=1
    ax=g.get_points_along_axes() if np.count_nonzero(axes-np.diag(np.diagonal(axes)))==0 else None
print("index/layout mismatches",bad)
# closest point
cp_bad={"pos":0,"neg":0}; n={"pos":0,"neg":0}
for trial in range(2000):
    dim=3; shape=rng.integers(2,7,dim); sign=rng.choice([-1,1],dim) if trial%2 else np.ones(dim)
    axes=np.diag(rng.uniform(.1,.9,dim)*sign); o=rng.normal(size=dim); g=UniformGrid(o,axes,shape)
    lo=g.points.min(axis=0); hi=g.points.max(axis=0); p=rng.uniform(lo,hi)
    key="neg" if np.any(sign<0) else "pos"; n[key]+=1
    try:
        i=int(g.closest_point(p)); d=np.linalg.norm(g.points-p,axis=1)
        if not (0<=i<g.size) or d[i]>d.min()+1e-12: cp_bad[key]+=1
    except Exception as e: cp_bad[key]+=1
print("closest_point bad",cp_bad,"of",n)
# tensor grids
from grid.basegrid import OneDGrid
bad=0
for trial in range(200):
    dim=int(rng.integers(2,4)); gs=[OneDGrid(np.sort(rng.normal(size=int(rng.integers(2,6)))),rng.uniform(.1,1,1)[0]*np.ones(1).repeat(1) if False else rng.uniform(.1,1,int(1)) ,None) for _ in range(0)]
    gs=[]
    for _ in range(dim):
        n_=int(rng.integers(2,6)); gs.append(OneDGrid(np.sort(rng.normal(size=n_)),rng.uniform(.1,1,n_),(-10,10)))
    t=Tensor1DGrids(*gs)
    for idx in range(t.size):
        c=t.index_to_coordinates(idx)
        if not np.allclose(t.points[idx],[gs[d].points[c[d]] for d in range(dim)]): bad+=1
        if not np.isclose(t.weights[idx],np.prod([gs[d].weights[c[d]] for d in range(dim)])): bad+=1
    ax=t.get_points_along_axes()
    if not all(np.allclose(ax[d],gs[d].points) for d in range(dim)): bad+=1
print("tensor mismatches",bad)
