import warnings; warnings.simplefilter("ignore")
import os, numpy as np, hypothesis
from hypothesis import settings, strategies as st, HealthCheck
from hypothesis.stateful import RuleBasedStateMachine, rule, invariant, precondition, initialize, run_state_machine_as_test, Bundle
from importlib.resources import files
from grid import angular as A
from grid.angular import AngularGrid
from grid.atomgrid import AtomGrid
from grid.basegrid import OneDGrid
from grid.rtransform import LinearInfiniteRTransform, ExpRTransform, PowerRTransform
from grid.coulomb import load_atomic_gaussian_params
import grid.coulomb as C, json
TAB={"lebedev":(A.LEBEDEV_DEGREES,"lebedev",A.LEBEDEV_CACHE),"spherical":(A.SPHERICAL_DEGREES,"spherical_design",A.SPHERICAL_CACHE),"maxdet":(A.MAX_DET_DEGREES,"maxdet",A.MAX_DET_CACHE),"ahrens_beylkin":(A.AHRENS_BEYLKIN_DEGREES,"ahrens_beylkin",A.AHRENS_BEYLKIN_CACHE)}
_ref={}
def load(method,deg):
    tab,d,_=TAB[method]; dd=min(x for x in sorted(tab) if x>=deg); n=tab[dd]
    if (method,dd) not in _ref:
        z=np.load(files("grid.data."+d).joinpath(f"{method}_{dd}_{n}.npz")); p=z["points"]; w=z["weights"]
        if len(w)==1: w=np.ones(len(p))*w
        if method in("lebedev","spherical"): w=w*4*np.pi
        _ref[(method,dd)]=(p.copy(),w.copy())
    return _ref[(method,dd)]
JS=json.load(open(files("grid.data").joinpath("atomic_gauss_params.json")))
class M(RuleBasedStateMachine):
    grids=Bundle("grids")
    def __init__(self):
        super().__init__()
        for t in TAB.values(): t[2].clear()
        self.used=[]; self.tf=None; self.b=None; self.log=[]
    @rule(target=grids, method=st.sampled_from(list(TAB)), deg=st.integers(1,30), cache=st.booleans())
    def build(self, method, deg, cache):
        if method=="ahrens_beylkin": deg=max(deg,14)
        g=AngularGrid(degree=deg,method=method,cache=cache); p,w=load(method,deg)
        assert np.array_equal(g.points,p) and np.allclose(g.weights,w,rtol=1e-15), ("fresh grid differs from shipped data",method,deg,cache)
        self.used.append((method,deg)); return g
    @rule(g=grids, what=st.sampled_from(["points","weights"]), op=st.sampled_from(["zero","scale","reverse"]))
    def edit(self,g,what,op):
        a=getattr(g,what)
        if op=="zero": a[...]=0
        elif op=="scale": a*=3.0
        else: a[...]=a[::-1].copy()
    @rule(method=st.sampled_from(list(TAB)), deg=st.integers(3,20), n=st.integers(2,4), rot=st.integers(0,5), r0=st.booleans())
    def atom(self,method,deg,n,rot,r0):
        if method=="ahrens_beylkin": deg=max(deg,14)
        r=np.linspace(0.0 if r0 else 0.3,2.0,n); w=np.full(n,0.5)
        ag=AtomGrid(OneDGrid(r,w,(0,np.inf)),degrees=[deg],rotate=rot,method=method)
        p,uw=load(method,deg)
        for i in range(n):
            sl=slice(ag.indices[i],ag.indices[i+1])
            assert np.allclose(ag.weights[sl],w[i]*r[i]**2*uw,rtol=1e-13), "atomgrid weights"
            assert np.allclose(np.linalg.norm(ag.points[sl],axis=1),r[i],atol=1e-13), "atomgrid radii"
        f=np.ones(ag.size); ag.integrate_angular_coordinates(f); sg=ag.get_shell_grid(n-1); sg.points[...]=0; sg.weights[...]=0
        self.used.append((method,deg))
    @rule(kind=st.sampled_from(["lin","exp","pow"]), bgiven=st.booleans())
    def newtf(self,kind,bgiven):
        cls={"lin":LinearInfiniteRTransform,"exp":ExpRTransform,"pow":PowerRTransform}[kind]
        self.tf=cls(0.5,20.0,b=7.0 if bgiven else None); self.b=7.0 if bgiven else None; self.kind=kind
    @precondition(lambda self: self.tf is not None)
    @rule(meth=st.sampled_from(["transform","deriv","deriv2","deriv3","inverse"]), xs=st.lists(st.floats(0.1,9.0),min_size=1,max_size=5))
    def calltf(self,meth,xs):
        x=np.array(xs)
        if self.b is None:
            if meth in("deriv2","deriv3") and self.kind=="lin":
                getattr(self.tf,meth)(x); return
            self.b=float(np.max(x))   # scale inferred from first array seen (documented)
        got=getattr(self.tf,meth)(x); b=self.b; rmin,rmax=0.5,20.0
        if self.kind=="lin":
            a=(rmax-rmin)/b; ref={"transform":a*x+rmin,"deriv":a+0*x,"deriv2":0*x,"deriv3":0*x,"inverse":(x-rmin)/a}[meth]
        elif self.kind=="exp":
            a=np.log(rmax/rmin)/b; ref={"transform":rmin*np.exp(a*x),"deriv":a*rmin*np.exp(a*x),"deriv2":a*a*rmin*np.exp(a*x),"deriv3":a**3*rmin*np.exp(a*x),"inverse":np.log(x/rmin)/a}[meth]
        else:
            p=np.log(rmax/rmin)/np.log(b+1); ref={"transform":rmin*(x+1)**p,"deriv":p*rmin*(x+1)**(p-1),"deriv2":p*(p-1)*rmin*(x+1)**(p-2),"deriv3":p*(p-1)*(p-2)*rmin*(x+1)**(p-3),"inverse":(x/rmin)**(1/p)-1}[meth]
        assert np.allclose(got,ref,rtol=1e-12,atol=1e-12), ("transform result depends on history",self.kind,meth,self.b)
    @rule(el=st.sampled_from(["H","C","N","O","Cl",1,6,17]))
    def coul(self,el):
        c,a=load_atomic_gaussian_params(el); sym={1:"H",6:"C",17:"Cl"}.get(el,el)
        assert np.array_equal(c,JS[sym]["coeffs_s"]) and np.array_equal(a,JS[sym]["alphas_s"]), "coulomb params changed"
        c[...]=0; a[...]=-1
    @invariant()
    def cache_pristine(self):
        for method,deg in self.used[-2:]:
            for cache in (True,False):
                g=AngularGrid(degree=deg,method=method,cache=cache); p,w=load(method,deg)
                assert np.array_equal(g.points,p) and np.allclose(g.weights,w,rtol=1e-15), ("later construction differs from shipped data",method,deg,cache)
seedv=int(os.environ.get("VERIF_SEED","1"))
try:
    run_state_machine_as_test(hypothesis.seed(seedv)(M), settings=settings(max_examples=int(os.environ.get("N","60")),stateful_step_count=12,deadline=None,database=None,suppress_health_check=list(HealthCheck),report_multiple_bugs=False))
    print("PASS")
except AssertionError as e:
    print("FAIL", str(e)[:300])
