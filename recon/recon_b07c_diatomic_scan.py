import warnings; warnings.simplefilter("ignore")
import numpy as np
from grid.molgrid import MolGrid
from grid.utils import _bragg
pairs=[(11,8),(37,1),(55,2),(19,7),(37,10),(55,8),(3,9),(12,8),(6,1),(8,1),(17,1),(8,8),(55,55),(26,6)]
als=[1,3,10,30]
print("pair ratio | preset: max rel err over exponents at d=1.2,1.4,1.6,2.0,2.5,3.0,4.0")
for za,zb in pairs:
    ra=_bragg[za] if not np.isnan(_bragg[za]) else _bragg[za-1]; rb=_bragg[zb] if not np.isnan(_bragg[zb]) else _bragg[zb-1]
    for preset in ["coarse","fine","ultrafine"]:
        row=[]
        for d in [1.2,1.4,1.6,2.0,2.5,3.0,4.0]:
            at=np.array([[0,0,0],[0.3*d,0.4*d,np.sqrt(1-0.25)*d]]); at[1]*=d/np.linalg.norm(at[1])
            mg=MolGrid.from_preset(np.array([za,zb]),at,preset); w=0
            for c in (0,1):
                for al in als:
                    v=mg.integrate((al/np.pi)**1.5*np.exp(-al*np.sum((mg.points-at[c])**2,axis=1))); w=max(w,abs(v-1))
            row.append(w)
        print(f"{za:3d}-{zb:<3d} ratio {max(ra,rb)/min(ra,rb):4.2f} {preset:9s}", " ".join(f"{v:.1e}" for v in row))
