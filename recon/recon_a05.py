import warnings; warnings.simplefilter("ignore")
import numpy as np, collections
from importlib.resources import files
from grid.atomgrid import AtomGrid
from grid.molgrid import MolGrid
from grid.becke import BeckeWeights
from grid.basegrid import OneDGrid
from grid import angular as A
rng=np.random.default_rng(3)
TAB={"lebedev":(A.LEBEDEV_DEGREES,"lebedev"),"spherical":(A.SPHERICAL_DEGREES,"spherical_design"),"maxdet":(A.MAX_DET_DEGREES,"maxdet"),"ahrens_beylkin":(A.AHRENS_BEYLKIN_DEGREES,"ahrens_beylkin")}
def load(method,deg):
    tab,d=TAB[method]; degs=sorted(tab); dd=min(x for x in degs if x>=deg); n=tab[dd]
    z=np.load(files("grid.data."+d).joinpath(f"{method}_{dd}_{n}.npz")); p=z["points"]; w=z["weights"]
    if len(w)==1: w=np.ones(len(p))*w
    if method in("lebedev","spherical"): w=w*4*np.pi
    return dd,p,w
st=collections.Counter()
for trial in range(400):
    n=int(rng.integers(2,9)); r=np.sort(rng.uniform(0.05,5,n)); 
    if trial%4==0: r[0]=0.0
    w=rng.uniform(.1,1,n); rg=OneDGrid(r,w,(0,np.inf))
    method=str(rng.choice(list(TAB))); lo=14 if method=="ahrens_beylkin" else 1
    mode=rng.choice(["const","list","sizes","pruned"])
    c=rng.normal(size=3)*rng.choice([0,1,10]); rot=int(rng.choice([0,1,7,2**31]))
    kw=dict(center=c,rotate=rot,method=method)
    if mode=="const": req=[int(rng.integers(lo,30))]*n; ag=AtomGrid(rg,degrees=[req[0]],**kw)
    elif mode=="list": req=[int(v) for v in rng.integers(lo,30,n)]; ag=AtomGrid(rg,degrees=req,**kw)
    elif mode=="sizes":
        sz=[int(v) for v in rng.integers(1,300,n)]; ag=AtomGrid(rg,degrees=None,sizes=sz,**kw); req=None
    else:
        S=int(rng.integers(0,4)); rs=np.sort(rng.uniform(.2,4,S)).tolist(); ds=[int(v) for v in rng.integers(lo,30,S+1)]; rad=float(rng.uniform(.5,2))
        ag=AtomGrid.from_pruned(rg,rad,r_sectors=rs,d_sectors=ds,**kw)
        amb=np.any(np.abs(r[:,None]-np.array(rs)[None,:]*rad)<1e-12) if S else False
        req=[ds[int(np.sum(ri>np.array(rs)*rad))] for ri in r]
        if amb: st["ambiguous"]+=1; continue
    P=ag.points; W=ag.weights; ind=ag.indices; ok=True; why=[]
    if ind[0]!=0 or ind[-1]!=len(P): ok=False; why.append("ind")
    for i in range(n):
        sl=slice(ind[i],ind[i+1])
        dd,up,uw=load(method,ag.degrees[i])
        if req is not None:
            want=min(x for x in sorted(TAB[method][0]) if x>=req[i])
            if ag.degrees[i]!=want: ok=False; why.append("deg")
        if mode=="sizes":
            tabn=sorted(TAB[method][0].values()); wantn=min(x for x in tabn if x>=sz[i])
            if ind[i+1]-ind[i]!=wantn: ok=False; why.append("size")
        if ind[i+1]-ind[i]!=len(up): ok=False; why.append("count"); continue
        d=P[sl]-c
        if not np.allclose(np.linalg.norm(d,axis=1),r[i],rtol=1e-12,atol=1e-13): ok=False; why.append("radius")
        if not np.allclose(W[sl],w[i]*r[i]**2*uw,rtol=1e-13,atol=0): ok=False; why.append("weights")
        if r[i]>0:
            U=d/r[i]
            if not np.allclose(U@U.T,up@up.T,atol=1e-11): ok=False; why.append("gram")
            if rot==0 and not np.allclose(U,up,atol=1e-13): ok=False; why.append("norot")
        sg=ag.get_shell_grid(i)
        if not (np.allclose(sg.points,d,atol=1e-13) and np.allclose(sg.weights,W[sl],rtol=1e-13)): ok=False; why.append("shell")
        sg2=ag.get_shell_grid(i,r_sq=False)
        if not np.allclose(sg2.weights,w[i]*uw,rtol=1e-13): ok=False; why.append("shell-nosq")
    ag2=AtomGrid(rg,degrees=list(ag.degrees),center=np.zeros(3),rotate=rot,method=method)
    if not np.allclose(ag2.points+c,P,atol=1e-12) or not np.array_equal(ag2.weights,W): ok=False; why.append("translate/reproducible")
    st[(mode,"ok" if ok else "BAD:"+",".join(sorted(set(why))))]+=1
for k,v in sorted(st.items(),key=str): print(k,v)
# C07 structure
st=collections.Counter()
for trial in range(150):
    M=int(rng.integers(1,5)); atn=rng.choice([1,6,8,17,2,18],M); 
    while True:
        at=rng.uniform(-3,3,(M,3)); dd=[np.linalg.norm(at[i]-at[j]) for i in range(M) for j in range(i)]
        if not dd or min(dd)>0.5: break
    ags=[]
    for a in range(M):
        n=int(rng.integers(3,8)); rg=OneDGrid(np.sort(rng.uniform(.05,4,n)),rng.uniform(.1,1,n),(0,np.inf))
        ags.append(AtomGrid(rg,degrees=[int(rng.integers(3,12))],center=at[a],rotate=int(rng.integers(0,50))))
    bw=BeckeWeights(order=int(rng.integers(1,4)))
    m1=MolGrid(atn,ags,bw,store=True); m2=MolGrid(atn,ags,bw,store=False); m3=MolGrid(atn,ags,m1.aim_weights.copy(),store=False)
    ok=True
    P=np.vstack([a.points for a in ags]); Wt=np.hstack([a.weights for a in ags])
    ok&=np.array_equal(m1.points,P) and np.array_equal(m1.atweights,Wt) and np.allclose(m1.weights,Wt*m1.aim_weights,rtol=1e-15)
    ok&=np.array_equal(m1.points,m2.points) and np.array_equal(m1.weights,m2.weights) and np.array_equal(m1.weights,m3.weights)
    f=np.exp(-np.sum(P**2,axis=1)/3)
    tot=0
    for a in range(M):
        sl=slice(m1.indices[a],m1.indices[a+1]); tot+=ags[a].integrate((m1.aim_weights*f)[sl])
        g1=m1.get_atomic_grid(a); g2=m2.get_atomic_grid(a)
        ok&=np.array_equal(g1.points,g2.points) and np.array_equal(g1.weights,g2.weights) and np.allclose(g1.center,g2.center)
        st[("getitem weights equal across store", bool(np.array_equal(m1[a].weights,m2[a].weights)))]+=1
    ok&=abs(tot-m1.integrate(f))<1e-12*max(1,abs(tot))
    st[("structure","ok" if ok else "BAD")]+=1
for k,v in sorted(st.items(),key=str): print(k,v)
