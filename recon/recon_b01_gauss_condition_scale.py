import warnings; warnings.simplefilter("ignore")
import numpy as np
from scipy.special import eval_genlaguerre, eval_legendre, eval_chebyt, eval_chebyu, gamma
from grid.onedgrid import *
res={}
for alpha in [-0.99,-0.9,-0.5,0,0.5,1,2.5,5,10]:
    for n in [2,3,5,10,20,40,60,80,100,120,150]:
        try: g=GaussLaguerre(n,alpha)
        except Exception as e: res[(alpha,n)]="EXC "+type(e).__name__; continue
        if not np.all(np.isfinite(g.weights)): res[(alpha,n)]="nonfinite"; continue
        x=g.points; wt=x**alpha*np.exp(-x); worst=0
        for k in range(0,2*n):
            v=np.sum(g.weights*wt*eval_genlaguerre(k,alpha,x)); ref=gamma(alpha+1) if k==0 else 0.0
            S=np.sum(np.abs(g.weights*wt))*max(1,np.max(np.abs(eval_genlaguerre(k,alpha,x))))+gamma(alpha+1)
            worst=max(worst,abs(v-ref)/max(S,1e-300))
        res[(alpha,n)]=f"{worst:.0e}"
ns=[2,3,5,10,20,40,60,80,100,120,150]
print("alpha\\n "+" ".join(f"{n:>9d}" for n in ns))
for alpha in [-0.99,-0.9,-0.5,0,0.5,1,2.5,5,10]:
    print(f"{alpha:6.2f} "+" ".join(f"{res[(alpha,n)]:>9s}" for n in ns))
# other Gauss rules, condition-scaled error
for cls,name in [(GaussLegendre,"GL"),(GaussChebyshev,"GC1"),(GaussChebyshevType2,"GC2"),(ClenshawCurtis,"CC"),(FejerFirst,"F1")]:
    row=[]
    for n in [2,5,10,33,64,100,200,257]:
        g=cls(n); x=g.points; worst=0
        if name=="GL": K=2*n; f=lambda k: (eval_legendre(k,x), 2.0 if k==0 else 0.0)
        elif name=="GC1": K=2*n; f=lambda k: (eval_chebyt(k,x)/np.sqrt(1-x*x), np.pi if k==0 else 0.0)
        elif name=="GC2": K=2*n; f=lambda k: (eval_chebyu(k,x)*np.sqrt(1-x*x), np.pi/2 if k==0 else 0.0)
        else: K=n; f=lambda k: (eval_legendre(k,x), 2.0 if k==0 else 0.0)
        for k in range(K):
            b,ref=f(k); v=np.sum(g.weights*b); S=np.sum(np.abs(g.weights))*max(1,np.max(np.abs(b)))+abs(ref); worst=max(worst,abs(v-ref)/S)
        row.append(f"{worst:.0e}")
    print(name,row)
