import warnings; warnings.simplefilter("ignore")
import numpy as np, sys
from grid.molgrid import MolGrid
from grid.utils import _bragg, _DEFAULT_POWER_RTRANSFORM_PARAMS as DP
from importlib.resources import files
def rad(z):
    for k in (0,1,2):
        if not np.isnan(_bragg[z-k]): return _bragg[z-k]
rng=np.random.default_rng(int(sys.argv[1]))
zs=set(DP)
for p_ in ["coarse","medium","fine","veryfine","ultrafine","insane"]:
    d=np.load(files("grid.data.prune_grid").joinpath(f"prune_grid_{p_}.npz")); zs&={int(k.split("_")[0]) for k in d.keys() if k[0].isdigit()}
zs=sorted(zs)
def inregion(atn,at):
    for i in range(len(atn)):
        for j in range(i):
            ra,rb=rad(int(atn[i])),rad(int(atn[j])); 
            if max(ra,rb)/min(ra,rb)>2.0 and np.linalg.norm(at[i]-at[j])<3.0: return True
    return False
worst={}; n_in=0; n_out=0; worst_in={}
for trial in range(int(sys.argv[2])):
    preset=["coarse","medium","fine","veryfine","ultrafine","insane"][trial%6]
    M=int(rng.integers(2,6)); atn=rng.choice(zs,M)
    at=[np.zeros(3)]
    for a in range(1,M):
        while True:
            v=rng.normal(size=3); v/=np.linalg.norm(v); p=at[rng.integers(0,len(at))]+v*rng.uniform(1.2,3.5)
            if min(np.linalg.norm(p-q) for q in at)>=1.2: at.append(p); break
    at=np.array(at)
    mg=MolGrid.from_preset(atn,at,preset)
    tot=0; f=np.zeros(mg.size)
    for a in range(M):
        for _ in range(int(rng.integers(0,3))):
            al=float(np.exp(rng.uniform(np.log(0.3),np.log(30)))); c=float(rng.uniform(0.2,2))
            f+=c*(al/np.pi)**1.5*np.exp(-al*np.sum((mg.points-at[a])**2,axis=1)); tot+=c
    if tot==0: continue
    rel=abs(mg.integrate(f)-tot)/tot
    if inregion(atn,at):
        n_in+=1
        if rel>worst_in.get(preset,(0,))[0]: worst_in[preset]=(rel,atn.tolist())
    else:
        n_out+=1
        if rel>worst.get(preset,(0,))[0]: worst[preset]=(rel,atn.tolist(),np.round(at,2).tolist())
print("n_in",n_in,"n_out",n_out)
for k,v in worst.items(): print("OUT",k,f"{v[0]:.2e}",v[1])
for k,v in worst_in.items(): print("IN",k,f"{v[0]:.2e}",v[1])
