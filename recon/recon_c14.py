import warnings; warnings.simplefilter("ignore")
import numpy as np, itertools
from scipy.special import sph_harm_y
from grid.basegrid import Grid, OneDGrid
from grid.ngrid import MultiDomainGrid
from grid.utils import generate_real_spherical_harmonics as Ylib, generate_real_spherical_harmonics_scipy as Ysci
rng=np.random.default_rng(0)
def Yreal(l,m,theta,phi):
    l=int(l); m=int(m)
    if m==0: return sph_harm_y(l,0,phi,theta).real
    y=sph_harm_y(l,abs(m),phi,theta)*np.sqrt(2)*(-1.0)**abs(int(m))
    return y.real if m>0 else y.imag
def sph(d):
    r=np.linalg.norm(d,axis=1); 
    with np.errstate(all="ignore"): phi=np.where(r>0,np.arccos(np.clip(d[:,2]/np.where(r>0,r,1),-1,1)),0.0)
    return r,np.arctan2(d[:,1],d[:,0]),phi
# C14
g=Grid(rng.normal(size=(40,3)),rng.uniform(0.1,1,40)); f=rng.normal(size=40); cs=rng.normal(size=(3,3))
for typ in ["cartesian","radial","pure","pure-radial"]:
    L=4
    mom,orders=g.moments(L,cs,f,type_mom=typ,return_orders=True)
    worst=0
    for row,o in enumerate(np.atleast_2d(orders) if typ!="radial" else orders.reshape(-1,1)):
        for ic,c in enumerate(cs):
            d=g.points-c; r,th,ph=sph(d)
            if typ=="cartesian": b=np.prod(d**o,axis=1)
            elif typ=="radial": b=r**o[0]
            elif typ=="pure": l,m=o; b=np.sqrt(4*np.pi/(2*l+1))*r**l*Yreal(l,m,th,ph)
            else: n,l,m=o; b=r**n*np.sqrt(4*np.pi/(2*l+1))*r**l*Yreal(l,m,th,ph)
            worst=max(worst,abs(np.sum(g.weights*f*b)-mom[row,ic]))
    print(typ, mom.shape, "worst",worst, "orders head", np.asarray(orders)[:5].tolist())
# C18
def oned(n): return OneDGrid(np.sort(rng.uniform(-1,1,n)),rng.uniform(0.1,1,n),(-1,1))
g1,g2,g3=oned(3),Grid(rng.normal(size=(4,3)),rng.uniform(0.1,1,4)),oned(5)
mg=MultiDomainGrid([g1,g2,g3])
F=lambda x,y,z: np.sin(x)*np.sum(np.asarray(y)**2,axis=-1)+np.cos(z)*x
ref=sum(g1.weights[i]*g2.weights[j]*g3.weights[k]*F(g1.points[i],g2.points[j],g3.points[k]) for i in range(3) for j in range(4) for k in range(5))
vals=[mg.integrate(F)]+[mg.integrate(F,non_vectorized=True,integration_chunk_size=c) for c in [1,2,7,59,60,61,6000]]
print("C18 ref",ref,"max dev",max(abs(v-ref) for v in vals),"size",mg.size, len(list(mg.points)), len(list(mg.weights)))
mg2=MultiDomainGrid([g1],num_domains=3); G=lambda a,b,c: a*b**2+np.exp(c)*a
ref=sum(g1.weights[i]*g1.weights[j]*g1.weights[k]*G(g1.points[i],g1.points[j],g1.points[k]) for i in range(3) for j in range(3) for k in range(3))
print("C18 repeat", abs(mg2.integrate(G)-ref), abs(mg2.integrate(G,non_vectorized=True,integration_chunk_size=4)-ref), mg2.size)
# C08 periodic images of polar angle
th=rng.uniform(-20,20,6); ph=rng.uniform(0,np.pi,6)
for k in [-2,-1,1,3]:
    a=Ylib(5,th,ph+2*np.pi*k); b=Ysci(5,th,ph+2*np.pi*k); c=Ylib(5,th,ph)
    print("k",k, float(np.max(np.abs(a-b))), float(np.max(np.abs(a-c))))
