import warnings; warnings.simplefilter("ignore")
import numpy as np, sys, time
from scipy.special import erf
from grid.atomgrid import AtomGrid
from grid.onedgrid import GaussLegendre, Trapezoidal
from grid.rtransform import BeckeRTransform, InverseRTransform
from grid.poisson import solve_poisson_bvp, solve_poisson_ivp
rng=np.random.default_rng(0)
def rho(points, cs, als, cens): return sum(c*(a/np.pi)**1.5*np.exp(-a*np.sum((points-x)**2,axis=1)) for c,a,x in zip(cs,als,cens))
def pot(points, cs, als, cens):
    out=0
    for c,a,x in zip(cs,als,cens):
        r=np.linalg.norm(points-x,axis=1); out=out+c*erf(np.sqrt(a)*r)/r
    return out
for nrad,deg,disp in [(60,7,0.0),(60,7,0.05),(60,7,0.1),(80,11,0.1),(80,11,0.2),(60,7,0.0)]:
    tf=BeckeRTransform(1e-5,1.5); rg=tf.transform_1d_grid(GaussLegendre(nrad))
    ag=AtomGrid(rg,degrees=[deg],center=np.array([0.3,-0.2,0.1]))
    cs=np.array([1.0,0.5]); als=np.array([0.8,2.5]); cens=ag.center+np.array([[disp,0,0],[0,-disp,disp]])
    t=time.time()
    V=solve_poisson_bvp(ag, rho(ag.points,cs,als,cens), InverseRTransform(tf), remove_large_pts=10.0)
    t1=time.time()-t
    pts=rng.uniform(-3,3,(300,3))+ag.center
    e=np.max(np.abs(V(pts)-pot(pts,cs,als,cens)))
    # linearity
    V1=solve_poisson_bvp(ag, rho(ag.points,cs[:1],als[:1],cens[:1]), InverseRTransform(tf), remove_large_pts=10.0)
    V2=solve_poisson_bvp(ag, rho(ag.points,cs[1:],als[1:],cens[1:]), InverseRTransform(tf), remove_large_pts=10.0)
    lin=np.max(np.abs(V(pts)-V1(pts)-V2(pts)))
    print(f"nrad={nrad} deg={deg} disp={disp} err={e:.1e} lin={lin:.1e} t={t1:.1f}s")
