import warnings; warnings.simplefilter("ignore")
import numpy as np, sympy as sp
from grid.rtransform import *
x=sp.Symbol('x')
def forms():
    yield "Becke", BeckeRTransform(0.3,1.7), 1.7*(1+x)/(1-x)+0.3, [-0.7,-0.2,0.3,0.8]
    yield "LinearFinite", LinearFiniteRTransform(0.3,5.5), (5.5-0.3)/2*(1+x)+0.3, [-0.7,-0.2,0.3,0.8]
    yield "MultiExp", MultiExpRTransform(0.3,1.7), -1.7*sp.log((x+1)/2)+0.3, [-0.7,-0.2,0.3,0.8]
    for k in [1,2,3,4,2.5]:
        yield f"Knowles k={k}", KnowlesRTransform(0.3,1.7,k), 0.3-1.7*sp.log(1-2**(-sp.nsimplify(k))*(x+1)**sp.nsimplify(k)), [-0.7,-0.2,0.3,0.8]
    for m in [1,2,3,4,2.5]:
        yield f"Handy m={m}", HandyRTransform(0.3,1.7,m), 1.7*((1+x)/(1-x))**sp.nsimplify(m)+0.3, [-0.7,-0.2,0.3,0.8]
    for m in [1,2,3,4,2.5]:
        s=40.0-0.3; M=sp.nsimplify(m)
        yield f"HandyMod m={m}", HandyModRTransform(0.3,40.0,m), (1+x)**M*s/(2**M*(1-2**M+s)-(1+x)**M*(s-2**M))+0.3, [-0.7,-0.2,0.3,0.8]
    yield "LinearInf", LinearInfiniteRTransform(0.3,5.5,b=7.0), (5.5-0.3)/7.0*x+0.3, [0.5,1.5,3.3,6.0]
    yield "Exp", ExpRTransform(0.3,5.5,b=7.0), 0.3*sp.exp(x*sp.log(5.5/0.3)/7.0), [0.5,1.5,3.3,6.0]
    yield "Power", PowerRTransform(0.3,5.5,b=7.0), 0.3*(x+1)**(sp.log(5.5/0.3)/sp.log(8.0)), [0.5,1.5,3.3,6.0]
    yield "Hyperbolic", HyperbolicRTransform(0.7,0.05), 0.7*x/(1-0.05*x), [0.5,1.5,3.3,6.0]
    yield "Identity", IdentityRTransform(), x, [0.5,1.5,3.3,6.0]
for name, tf, expr, xs in forms():
    xs=np.array(xs)
    f0=sp.lambdify(x,expr,'mpmath')
    out=[]
    got=tf.transform(xs); ref=np.array([float(f0(v)) for v in xs]); out.append(np.max(np.abs(got-ref)/np.maximum(1,np.abs(ref))))
    for order,meth in [(1,tf.deriv),(2,tf.deriv2),(3,tf.deriv3)]:
        d=sp.lambdify(x,sp.diff(expr,x,order),'mpmath')
        ref=np.array([float(d(v)) for v in xs]); got=np.asarray(meth(xs))*np.ones(len(xs))
        out.append(np.max(np.abs(got-ref)/np.maximum(1,np.abs(ref))))
    inv=tf.inverse(tf.transform(xs)); out.append(np.max(np.abs(inv-xs)))
    print(f"{name:20s}", " ".join(f"{v:.1e}" for v in out))
