import warnings; warnings.simplefilter("ignore")
import numpy as np, os
from grid import angular as A
from importlib.resources import files
T={"lebedev":(A.LEBEDEV_NPOINTS,A.LEBEDEV_DEGREES,"lebedev"),"spherical":(A.SPHERICAL_NPOINTS,A.SPHERICAL_DEGREES,"spherical_design"),"maxdet":(A.MAX_DET_NPOINTS,A.MAX_DET_DEGREES,"maxdet"),"ahrens_beylkin":(A.AHRENS_BEYLKIN_NPOINTS,A.AHRENS_BEYLKIN_DEGREES,"ahrens_beylkin")}
for m,(np_,dg,d) in T.items():
    sizes=list(np_.keys()); degs=list(dg.keys())
    print(m, len(np_), len(dg), "sizes sorted",sizes==sorted(sizes),"degs sorted",degs==sorted(degs), "max deg",max(degs),"max size",max(sizes), "min deg", min(degs), "min size", min(sizes))
    # degree monotone in size?
    pairs=sorted(np_.items())
    bad=[(pairs[i],pairs[i+1]) for i in range(len(pairs)-1) if pairs[i][1]>=pairs[i+1][1]]
    print("  non-monotone pairs:",bad[:10])
    fl=sorted(f for f in os.listdir(files("grid.data."+d)) if f.endswith(".npz"))
    exp=sorted(f"{m}_{dd}_{ss}.npz" for ss,dd in np_.items())
    print("  files",len(fl),"missing",sorted(set(exp)-set(fl))[:10],"extra",sorted(set(fl)-set(exp))[:10])
    # exhaustive lookup
    bad=0
    for deg in range(0,max(degs)+1):
        d2,s2=A.AngularGrid._get_degree_and_size(deg,None,m)
        want=min(x for x in degs if x>=deg)
        if d2!=want or dg[d2]!=s2: bad+=1; print("  BAD deg",deg,d2,want) if bad<5 else None
    for s in range(0,max(sizes)+1):
        d2,s2=A.AngularGrid._get_degree_and_size(None,s,m)
        want=min(x for x in sizes if x>=s)
        if s2!=want or np_[s2]!=d2: bad+=1; print("  BAD size",s,s2,want) if bad<5 else None
    print("  bad lookups",bad)
