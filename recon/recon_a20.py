import warnings; warnings.simplefilter("ignore")
import numpy as np, copy, tempfile, os, traceback
from grid.basegrid import Grid, OneDGrid, LocalGrid
from grid.atomgrid import AtomGrid
from grid.molgrid import MolGrid
from grid.angular import AngularGrid
from grid.becke import BeckeWeights
from grid.hirshfeld import HirshfeldWeights
from grid.onedgrid import GaussLegendre, UniformInteger
from grid.rtransform import *
from grid.cubic import UniformGrid, Tensor1DGrids
from grid.periodicgrid import PeriodicGrid
from grid.ngrid import MultiDomainGrid
from grid.ode import solve_ode_ivp, solve_ode_bvp
from grid.poisson import solve_poisson_bvp, solve_poisson_ivp, interpolate_laplacian
from grid.robust_poisson import solve_poisson_robust
from grid.coulomb import *
from grid.utils import *
rng=np.random.default_rng(0)
def ro(a):
    a=np.array(a); a.setflags(write=False); return a
def snap(x):
    if isinstance(x,np.ndarray): return ("nd",x.dtype.str,x.shape,x.tobytes())
    if isinstance(x,(list,tuple)): return ("seq",type(x).__name__,[snap(v) for v in x])
    if isinstance(x,dict): return ("dict",[(k,snap(v)) for k,v in x.items()])
    return ("obj",repr(x) if isinstance(x,(int,float,str,bool,type(None))) else id(x))
results=[]
def run(name, fn, args, kwargs=None, cb_results=None):
    kwargs=kwargs or {}
    before=(snap(list(args)),snap(kwargs))
    try:
        out=fn(*args,**kwargs); err=None
    except Exception as e:
        out=None; err=f"{type(e).__name__}: {str(e)[:70]}"
    after=(snap(list(args)),snap(kwargs))
    cbbad=False
    if cb_results is not None:
        for arr,b in cb_results:
            if arr.tobytes()!=b: cbbad=True
    status="OK"
    if before!=after: status="MUTATED-ARGS"
    if cbbad: status+="+MUTATED-CALLBACK-RESULT"
    if err and "read-only" in err: status="READONLY-ERROR "+err
    elif err: status+=" (raised "+err+")"
    results.append((name,status)); return out
rg=BeckeRTransform(1e-4,1.0).transform_1d_grid(GaussLegendre(10))
P3=ro(rng.normal(size=(20,3))); W=ro(rng.uniform(.1,1,20)); F=ro(rng.normal(size=20))
g=Grid(P3,W)
run("Grid.integrate",g.integrate,[F,F])
run("Grid.get_localgrid",g.get_localgrid,[ro(np.zeros(3)),1.0])
run("Grid.moments cart",g.moments,[2,ro(rng.normal(size=(2,3))),F],dict(type_mom="cartesian"))
run("Grid.moments pure-radial",g.moments,[3,ro(rng.normal(size=(2,3))),F],dict(type_mom="pure-radial"))
run("Grid.getitem mask",g.__getitem__,[ro(rng.random(20)<.5)])
od=OneDGrid(ro(np.linspace(0.01,3,10)),ro(np.ones(10)*.3),(0,np.inf))
for tf in [BeckeRTransform(0.1,1.2),LinearFiniteRTransform(0.1,3),MultiExpRTransform(0.1,1.2),KnowlesRTransform(0.1,1.2,3),HandyRTransform(0.1,1.2,3),HandyModRTransform(0.1,30.,2)]:
    x=ro(np.linspace(-.9,.9,7))
    for m in ["transform","deriv","deriv2","deriv3"]: run(type(tf).__name__+"."+m,getattr(tf,m),[x])
    r=ro(tf.transform(x)); 
    for m in ["inverse","deriv_inverse","deriv2_inverse","deriv3_inverse"]: run(type(tf).__name__+"."+m,getattr(tf,m),[r])
    run(type(tf).__name__+".transform_1d_grid",tf.transform_1d_grid,[GaussLegendre(6)])
for tf in [IdentityRTransform(),LinearInfiniteRTransform(0.1,3),ExpRTransform(0.1,3),PowerRTransform(0.1,3),HyperbolicRTransform(0.5,0.05)]:
    x=ro(np.linspace(0.1,5,7))
    for m in ["transform","deriv","deriv2","deriv3","inverse"]: run(type(tf).__name__+"."+m,getattr(tf,m),[x])
    run(type(tf).__name__+".transform_1d_grid",tf.transform_1d_grid,[od])
deg=[5,5,7,7,7,9,9,9,9,9]
ag=run("AtomGrid",AtomGrid,[rg],dict(degrees=deg,center=ro(np.array([.1,.2,.3])),rotate=3))
run("AtomGrid sizes",AtomGrid,[rg],dict(degrees=None,sizes=[6,14,26,6,14,26,6,14,26,6],center=ro(np.zeros(3))))
rs=[0.5,1.0]; ds=[3,5,7]
run("AtomGrid.from_pruned",AtomGrid.from_pruned,[rg,1.0],dict(r_sectors=rs,d_sectors=ds,center=ro(np.zeros(3))))
run("AtomGrid.from_pruned arr",AtomGrid.from_pruned,[rg,1.0],dict(r_sectors=ro(np.array(rs)),d_sectors=ro(np.array(ds))))
fv=ro(np.exp(-np.sum(ag.points**2,axis=1)))
run("AtomGrid.integrate_angular_coordinates",ag.integrate_angular_coordinates,[fv])
run("AtomGrid.integrate_angular_coordinates 2d",ag.integrate_angular_coordinates,[ro(np.vstack([fv,fv]))])
run("AtomGrid.spherical_average",ag.spherical_average,[fv])
run("AtomGrid.radial_component_splines",ag.radial_component_splines,[fv])
itp=run("AtomGrid.interpolate",ag.interpolate,[fv])
Q=ro(rng.normal(size=(5,3)))
run("AtomGrid.interpolate()(pts)",itp,[Q]); run("AtomGrid.interpolate()(pts,deriv=1)",itp,[Q],dict(deriv=1)); run("interp deriv spherical",itp,[Q],dict(deriv=1,deriv_spherical=True)); run("interp radial2",itp,[Q],dict(deriv=2,only_radial_deriv=True))
run("AtomGrid.convert_cartesian_to_spherical",ag.convert_cartesian_to_spherical,[Q,ro(np.ones(3))])
atn=ro(np.array([1,8])); atc=ro(np.array([[0,0,-.7],[0,0,.7.__float__()]]))
ag1=AtomGrid(rg,degrees=[5],center=atc[0]); ag2=AtomGrid(rg,degrees=[5],center=atc[1])
mg=run("MolGrid",MolGrid,[atn,[ag1,ag2],BeckeWeights()],dict(store=True))
aw=ro(mg.aim_weights.copy())
run("MolGrid arr aim",MolGrid,[atn,[ag1,ag2],aw])
run("MolGrid.from_size",MolGrid.from_size,[atn,atc,26,rg])
run("MolGrid.from_preset",MolGrid.from_preset,[atn,atc,"coarse"])
run("MolGrid.from_pruned",MolGrid.from_pruned,[atn,atc,1.0,[[0.5],[0.5,1.0]]],dict(d_sectors=[[3,5],[3,5,7]],rgrid=rg))
mfv=ro(np.exp(-np.sum(mg.points**2,axis=1)))
mi=run("MolGrid.interpolate",mg.interpolate,[mfv]); run("MolGrid.interpolate()(pts)",mi,[Q]); run("MolGrid.interpolate()(pts,1)",mi,[Q,1])
idx=ro(mg.indices.copy())
run("Becke.__call__",BeckeWeights(),[ro(mg.points.copy()),atc,atn,idx])
run("Becke.generate_weights",BeckeWeights().generate_weights,[ro(mg.points.copy()),atc,atn],dict(pt_ind=idx))
run("Becke.compute_weights",BeckeWeights().compute_weights,[ro(mg.points.copy()),atc,atn],dict(pt_ind=idx))
run("Becke radii dict",BeckeWeights,[{1:0.5,8:1.1}])
run("Hirshfeld",HirshfeldWeights(),[ro(mg.points.copy()),atc,atn,idx])
ug=run("UniformGrid",UniformGrid,[ro(np.zeros(3)),ro(np.eye(3)*.3),ro(np.array([8,8,8]))])
run("UniformGrid.from_molecule",UniformGrid.from_molecule,[ro(np.array([1.,8.])),atc],dict(spacing=.5,extension=1.0))
vals=ro(np.exp(-np.sum((ug.points-1)**2,axis=1)))
q1=ro(np.array([[1.,1.1,.9],[.8,.9,1.2]]))
run("Uniform.interpolate cubic",ug.interpolate,[q1,vals]); run("Uniform.interpolate log",ug.interpolate,[q1,vals],dict(use_log=True,nu_x=1)); run("Uniform.interpolate linear",ug.interpolate,[q1,vals],dict(method="linear"))
run("Uniform.closest_point",ug.closest_point,[ro(np.array([1.,1.,1.]))])
with tempfile.TemporaryDirectory() as d:
    run("Uniform.generate_cube",ug.generate_cube,[os.path.join(d,"a.cube"),vals,atc,atn],dict(pseudo_numbers=ro(np.array([1.,6.]))))
    run("Uniform.from_cube",UniformGrid.from_cube,[os.path.join(d,"a.cube")],dict(return_data=True))
run("Tensor1DGrids",Tensor1DGrids,[od,od,od])
PP=ro(rng.uniform(0,1,(8,2))); RV=ro(np.array([[1.,.1],[0,1.2]]))
pg=run("PeriodicGrid wrap",PeriodicGrid,[ro(PP*3),ro(np.ones(8)),RV],dict(wrap=True))
run("PeriodicGrid.get_localgrid",pg.get_localgrid,[ro(np.array([.5,.5])),1.5])
run("PeriodicGrid.getitem",pg.__getitem__,[ro(np.array([1,2]))])
cache=ro(np.ones(od.size)); cbs=[]
def fcached(x,y): return cache
run("MultiDomain.integrate cached cb",MultiDomainGrid([od,od]).integrate,[fcached],cb_results=[(cache,cache.tobytes())])
run("MultiDomain.integrate nonvec",MultiDomainGrid([od],num_domains=2).integrate,[lambda x,y: x*y],dict(non_vectorized=True,integration_chunk_size=7))
# ODE
store=[]
def fx_ident(x): 
    store.append((x,x.tobytes())); return x
def fx_cached(x): return cc[:x.size] if x.size<=cc.size else np.ones(x.size)
coeffs=[ro(np.array(1.0)).item(),0.5,1.0]; 
xmesh=ro(np.linspace(0,1,15))
run("solve_ode_bvp fx returns arg",solve_ode_bvp,[xmesh,fx_ident,[1.0,0.5,1.0],[(0,0,0.0),(1,0,1.0)]],dict(initial_guess_y=ro(np.zeros((2,15)))))
bad=sum(1 for x,b in store if x.tobytes()!=b); results.append(("  callback-arg mutated after return (bvp)", f"{bad}/{len(store)}"))
store.clear()
run("solve_ode_ivp fx returns arg",solve_ode_ivp,[(0,1),fx_ident,[1.0,0.5,1.0],[0.0,1.0]])
bad=sum(1 for x,b in store if x.tobytes()!=b); results.append(("  callback-arg mutated after return (ivp)", f"{bad}/{len(store)}"))
run("solve_ode_bvp arrays",solve_ode_bvp,[xmesh,lambda x: np.sin(x),ro(np.array([1.0,0.5,1.0])),[[0,0,0.0],[1,0,1.0]]],dict(initial_guess_y=ro(np.zeros((2,15))),transform=None))
run("solve_ode_ivp tf",solve_ode_ivp,[(0.1,2.0),lambda x: np.sin(x),[1.0,0.5,1.0],[0.0,1.0],InverseRTransform(BeckeRTransform(0,1.))])
# poisson
params={"tol":1e-4}
tfb=BeckeRTransform(1e-4,1.0); agp=AtomGrid(tfb.transform_1d_grid(GaussLegendre(40)),degrees=[5])
rho=ro((1/np.pi)**1.5*np.exp(-np.sum(agp.points**2,axis=1)))
V=run("solve_poisson_bvp",solve_poisson_bvp,[agp,rho,InverseRTransform(tfb)],dict(ode_params=params,remove_large_pts=10.0))
if V: run("poisson()(pts)",V,[Q])
ip={"rtol":1e-6}
run("solve_poisson_ivp",solve_poisson_ivp,[agp,rho,InverseRTransform(tfb)],dict(ode_params=ip,r_interval=(float(agp.rgrid.points.max()),float(agp.rgrid.points.min()))))
L=run("interpolate_laplacian",interpolate_laplacian,[agp,rho]); 
if L: run("laplacian()(pts)",L,[Q])
run("solve_poisson_robust",solve_poisson_robust,[agp,rho,InverseRTransform(tfb),ro(np.array([1])),ro(np.zeros((1,3)))],dict(remove_large_pts=10.0))
r=ro(np.array([0.,1e-13,.5,3.]))
run("coulomb_gaussian_s",coulomb_gaussian_s,[r,1.3]); run("coulomb_gaussian_p",coulomb_gaussian_p,[r,1.3,False])
run("coulomb_potential",coulomb_potential,[Q,ro(np.zeros((2,3))),ro(np.ones(2)),ro(np.array([.5,2.]))],dict(centers_p=ro(np.ones((1,3))),coeffs_p=ro(np.ones(1)),alphas_p=ro(np.ones(1))))
th=ro(rng.uniform(0,6,5)); ph=ro(rng.uniform(0,3,5))
run("Ylm",generate_real_spherical_harmonics,[4,th,ph]); run("Ylm scipy",generate_real_spherical_harmonics_scipy,[4,th,ph]); run("dYlm",generate_derivative_real_spherical_harmonics,[3,th,ph])
run("solid_harmonics",solid_harmonics,[3,ro(np.abs(rng.normal(size=(5,3))))]); run("convert_cart_to_sph",convert_cart_to_sph,[Q,ro(np.ones(3))])
run("dipole",dipole_moment_of_molecule,[mg,mfv,atc,atn])
run("AngularGrid.convert sizes",AngularGrid.convert_angular_sizes_to_degrees,[ro(np.array([6,26,26,50])),"lebedev"])
w=max(len(n) for n,_ in results)
for n,s in results:
    if s!="OK": print(f"{n:{w}s}  {s}")
print("total ops",len(results),"OK",sum(1 for _,s in results if s=="OK"))
