import warnings; warnings.simplefilter("ignore")
import numpy as np, time
from scipy.special import erf
from grid.atomgrid import AtomGrid
from grid.onedgrid import GaussLegendre
from grid.rtransform import BeckeRTransform, InverseRTransform
from grid.poisson import solve_poisson_bvp
from grid.robust_poisson import solve_poisson_robust
from grid.coulomb import load_atomic_gaussian_params
rng=np.random.default_rng(0)
def pot(points, cs, als, cen):
    r=np.linalg.norm(points-cen,axis=1); return sum(c*erf(np.sqrt(a)*r)/r for c,a in zip(cs,als))
def rho(points, cs, als, cen):
    r2=np.sum((points-cen)**2,axis=1); return sum(c*(a/np.pi)**1.5*np.exp(-a*r2) for c,a in zip(cs,als))
for z in [1,6,8,17]:
    cs,als=load_atomic_gaussian_params(z); print(z,"n",len(cs),"alpha range",als.min(),als.max(),"sum c",cs.sum())
    for nrad in [80,150]:
        tf=BeckeRTransform(1e-5,1.5); ag=AtomGrid(tf.transform_1d_grid(GaussLegendre(nrad)),degrees=[7],center=np.array([.2,-.1,.3]))
        pts=ag.center+rng.normal(size=(100,3))*2
        t=time.time()
        # (a) density == core model -> exact
        V=solve_poisson_robust(ag,rho(ag.points,cs,als,ag.center),InverseRTransform(tf),np.array([z]),ag.center[None,:],remove_large_pts=10.0)
        ea=np.max(np.abs(V(pts)-pot(pts,cs,als,ag.center)))
        # (b) smooth density: robust vs plain vs analytic
        sm=rho(ag.points,[1.0],[0.6],ag.center)
        Vr=solve_poisson_robust(ag,sm,InverseRTransform(tf),np.array([z]),ag.center[None,:],remove_large_pts=10.0)
        Vp=solve_poisson_bvp(ag,sm,InverseRTransform(tf),remove_large_pts=10.0)
        an=pot(pts,[1.0],[0.6],ag.center)
        # (c) split2
        V2=solve_poisson_robust(ag,sm+rho(ag.points,cs,als,ag.center),InverseRTransform(tf),np.array([z]),ag.center[None,:],split2=True,remove_large_pts=10.0)
        e2=np.max(np.abs(V2(pts)-an-pot(pts,cs,als,ag.center)))
        print(f"  nrad={nrad} exact-core err {ea:.1e}; smooth: robust-analytic {np.max(np.abs(Vr(pts)-an)):.1e} plain-analytic {np.max(np.abs(Vp(pts)-an)):.1e} robust-plain {np.max(np.abs(Vr(pts)-Vp(pts))):.1e}; core+smooth split2 err {e2:.1e} t={time.time()-t:.1f}s")
