import warnings; warnings.simplefilter("ignore")
import numpy as np, tempfile, os
from grid.cubic import UniformGrid, Tensor1DGrids
from grid.basegrid import OneDGrid
rng=np.random.default_rng(0)
for trial in range(4):
    shape=rng.integers(7,11,3); axes=np.diag(rng.uniform(0.2,0.6,3)); origin=rng.uniform(-1,1,3)
    g=UniformGrid(origin,axes,shape)
    C=rng.normal(size=(4,4,4))
    P=lambda p,d=(0,0,0): sum(C[i,j,k]*np.polynomial.polynomial.polyval(p[:,0],np.polynomial.polynomial.polyder(np.eye(4)[i],d[0]) if d[0] else np.eye(4)[i])
                               *np.polynomial.polynomial.polyval(p[:,1],np.polynomial.polynomial.polyder(np.eye(4)[j],d[1]) if d[1] else np.eye(4)[j])
                               *np.polynomial.polynomial.polyval(p[:,2],np.polynomial.polynomial.polyder(np.eye(4)[k],d[2]) if d[2] else np.eye(4)[k]) for i in range(4) for j in range(4) for k in range(4))
    vals=P(g.points)
    hi=origin+np.diag(axes)*(shape-1)
    q=rng.uniform(origin+np.diag(axes),hi-2*np.diag(axes),(5,3))
    out=[]
    for d in [(0,0,0),(1,0,0),(0,2,0),(0,0,3),(1,1,0),(1,1,1)]:
        got=g.interpolate(q,vals,nu_x=d[0],nu_y=d[1],nu_z=d[2]); ref=P(q,d)
        out.append(np.max(np.abs(got-ref))/max(1,np.max(np.abs(ref))))
    lin=g.interpolate(q,(1+g.points[:,0])*(2-g.points[:,1])*(0.5+g.points[:,2]),method="linear")
    out.append(np.max(np.abs(lin-(1+q[:,0])*(2-q[:,1])*(0.5+q[:,2]))))
    # log variant with f=exp(small poly)
    Cs=C*0.05/(1+np.abs(g.points).max())**6; 
    lp=lambda p: sum(Cs[i,j,k]*p[:,0]**i*p[:,1]**j*p[:,2]**k for i in range(4) for j in range(4) for k in range(4))
    f=np.exp(lp(g.points)); got=g.interpolate(q,f,use_log=True); out.append(np.max(np.abs(got-np.exp(lp(q)))/np.exp(lp(q))))
    print(shape, " ".join(f"{v:.1e}" for v in out))
# cube roundtrip
g=UniformGrid(np.array([0.1234567,-1.5,2.0]),np.array([[0.3,0.01,0],[0,0.25,0.02],[0.05,0,0.4]]),np.array([3,4,5]))
data=rng.normal(size=60)*np.exp(rng.uniform(-20,20,60))
with tempfile.TemporaryDirectory() as d:
    fn=os.path.join(d,"a.cube"); at=rng.uniform(-2,2,(2,3))
    g.generate_cube(fn,data,at,np.array([1,8]))
    g2,cd=UniformGrid.from_cube(fn,return_data=True)
    print("cube:", np.max(np.abs(g2.points-g.points)), np.max(np.abs(cd["data"]-data)/np.abs(data)), np.max(np.abs(cd["atcoords"]-at)), cd["atnums"], cd["atcorenums"])
