import warnings; warnings.simplefilter("ignore")
import numpy as np, mpmath as mp, time
from scipy.special import eval_legendre
from grid.utils import *
mp.mp.dps=30
rng=np.random.default_rng(0)
def Plm(l,am,phi):
    x=mp.cos(phi); sn=mp.sin(phi)
    pmm=mp.mpf(1)
    for k in range(1,am+1): pmm*= (2*k-1)*sn
    if l==am: return pmm
    p1=(2*am+1)*x*pmm
    if l==am+1: return p1
    p0=pmm
    for ll in range(am+2,l+1):
        p0,p1=p1,((2*ll-1)*x*p1-(ll+am-1)*p0)/(ll-am)
    return p1
def Yref(l,m,theta,phi):
    am=abs(m); P=Plm(l,am,phi)
    N=mp.sqrt((2*l+1)/(4*mp.pi)*mp.factorial(l-am)/mp.factorial(l+am))
    if m==0: return N*P
    return mp.sqrt(2)*N*P*(mp.cos(am*theta) if m>0 else mp.sin(am*theta))
def horton(L):
    out=[]
    for l in range(L+1):
        out.append((l,0))
        for m in range(1,l+1): out+=[(l,m),(l,-m)]
    return out
t=time.time()
L=10; th=np.array([0.3,-2.0,7.5,0.0,3.0, 1.0]); ph=np.array([0.7,2.5,1.5707963267948966,0.0,np.pi, 1e-9])
a=generate_real_spherical_harmonics(L,th,ph); b=generate_real_spherical_harmonics_scipy(L,th,ph)
ref=np.array([[float(Yref(l,m,mp.mpf(float(t_)),mp.mpf(float(p_)))) for t_,p_ in zip(th,ph)] for l,m in horton(L)])
print("L=10 lib-vs-mp",float(np.max(np.abs(a-ref))),"scipy-vs-mp",float(np.max(np.abs(b-ref))),f"{time.time()-t:.1f}s")
# derivative vs mp.diff away from poles
t=time.time(); L=5; th=np.array([0.3,-2.0,7.5]); ph=np.array([0.7,2.5,1.2])
d=generate_derivative_real_spherical_harmonics(L,th,ph)
rt=np.array([[float(mp.diff(lambda x: Yref(l,m,x,mp.mpf(float(p_))),mp.mpf(float(t_)))) for t_,p_ in zip(th,ph)] for l,m in horton(L)])
rp=np.array([[float(mp.diff(lambda x: Yref(l,m,mp.mpf(float(t_)),x),mp.mpf(float(p_)))) for t_,p_ in zip(th,ph)] for l,m in horton(L)])
print("deriv theta err",float(np.max(np.abs(d[0]-rt))),"deriv phi err",float(np.max(np.abs(d[1]-rp))),f"{time.time()-t:.1f}s")
# poles: derivative convention
dpole=generate_derivative_real_spherical_harmonics(3,np.array([0.4,0.4]),np.array([0.0,np.pi]))
print("pole dphi:",np.round(np.asarray(dpole[1],dtype=float)[:9].T,4).tolist())
# addition theorem
L=40; n=6; th1,ph1,th2,ph2=rng.uniform(-9,9,n),rng.uniform(0,np.pi,n),rng.uniform(-9,9,n),rng.uniform(0,np.pi,n)
Y1=generate_real_spherical_harmonics(L,th1,ph1); Y2=generate_real_spherical_harmonics(L,th2,ph2)
cosg=np.sin(ph1)*np.sin(ph2)*np.cos(th1-th2)+np.cos(ph1)*np.cos(ph2); worst=0
for l in range(L+1):
    lhs=np.sum(np.asarray(Y1[l*l:(l+1)**2]*Y2[l*l:(l+1)**2],dtype=float),axis=0); rhs=(2*l+1)/(4*np.pi)*eval_legendre(l,cosg); worst=max(worst,np.max(np.abs(lhs-rhs)))
print("addition theorem worst",worst)
# solid harmonics & cart->sph
pts=rng.normal(size=(6,3)); c=rng.normal(size=3); s=convert_cart_to_sph(pts,c)
back=c+np.c_[s[:,0]*np.sin(s[:,2])*np.cos(s[:,1]),s[:,0]*np.sin(s[:,2])*np.sin(s[:,1]),s[:,0]*np.cos(s[:,2])]
print("cart->sph roundtrip",np.max(np.abs(back-pts)), "origin:",convert_cart_to_sph(np.array([c]),c))
sh=solid_harmonics(4,s); Y=generate_real_spherical_harmonics(4,s[:,1],s[:,2]); ls=np.array([l for l,m in horton(4)])
print("solid",float(np.max(np.abs(sh-np.sqrt(4*np.pi/(2*ls[:,None]+1))*s[:,0]**ls[:,None]*Y))))
