import warnings; warnings.simplefilter("ignore")
import numpy as np, collections
from scipy.spatial.transform import Rotation
from grid.becke import BeckeWeights
from grid.utils import _bragg
rng=np.random.default_rng(7)
def radius(z):
    if not np.isnan(_bragg[z]): return _bragg[z]
    if not np.isnan(_bragg[z-1]): return _bragg[z-1]
    return _bragg[z-2]
def ref_weights(points, atcoords, radii, order):
    M=len(atcoords); P=np.ones((len(points),M))
    for a in range(M):
        for b in range(M):
            if a==b: continue
            ra=np.linalg.norm(points-atcoords[a],axis=1); rb=np.linalg.norm(points-atcoords[b],axis=1)
            mu=(ra-rb)/np.linalg.norm(atcoords[a]-atcoords[b])
            u=(radii[a]-radii[b])/(radii[a]+radii[b]); al=u/(u*u-1); al=min(max(al,-0.45),0.45)
            nu=mu+al*(1-mu*mu)
            for _ in range(order): nu=1.5*nu-0.5*nu**3
            P[:,a]*=0.5*(1-nu)
    return P/P.sum(axis=1,keepdims=True)
st=collections.Counter(); worst=collections.defaultdict(float)
for trial in range(600):
    M=int(rng.integers(1,11)); atn=rng.integers(1,87,M)
    if trial%3==0: atn[rng.integers(0,M)]=int(rng.choice([2,10,18,36,54,85,86]))
    geo=rng.choice(["random","line","cluster"])
    while True:
        if geo=="random": at=rng.uniform(-4,4,(M,3))
        elif geo=="line": at=np.c_[np.zeros(M),np.zeros(M),np.sort(rng.uniform(-6,6,M))]
        else: at=np.r_[rng.normal(size=(max(M-1,1),3))*0.8, rng.normal(size=(1,3))*30][:M]
        d=[np.linalg.norm(at[i]-at[j]) for i in range(M) for j in range(i)]
        if not d or min(d)>0.3: break
    order=int(rng.integers(1,6))
    pts=np.r_[rng.uniform(-6,6,(25,3)), at, (at+np.roll(at,1,axis=0))/2, rng.normal(size=(4,3))*1e5]
    N=len(pts); cuts=np.sort(rng.integers(0,N+1,M-1)); idx=np.r_[0,cuts,N].astype(int)
    bw=BeckeWeights(order=order)
    radii=np.array([radius(int(z)) for z in atn])
    W=ref_weights(pts,at,radii,order)
    # per atom route over all points
    per=np.array([bw.compute_atom_weight(pts,at,atn,a) for a in range(M)]).T
    per2=np.array([bw.generate_weights(pts,at,atn,select=a) for a in range(M)]).T if M>1 else per
    worst["def"]=max(worst["def"],np.max(np.abs(per-W))); worst["routes"]=max(worst["routes"],np.max(np.abs(per-per2)))
    worst["sum"]=max(worst["sum"],np.max(np.abs(per.sum(axis=1)-1))); worst["bounds"]=max(worst["bounds"],max(0,-per.min(),per.max()-1))
    nuc=per[25:25+M]; worst["nucleus"]=max(worst["nucleus"],np.max(np.abs(nuc-np.eye(M))))
    call=bw(pts,at,atn,idx); ref=np.concatenate([W[idx[a]:idx[a+1],a] for a in range(M)]); worst["call"]=max(worst["call"],np.max(np.abs(call-ref)))
    if M>1:
        worst["segroutes"]=max(worst["segroutes"],np.max(np.abs(call-bw.generate_weights(pts,at,atn,pt_ind=idx))),np.max(np.abs(call-bw.compute_weights(pts,at,atn,pt_ind=idx))))
    R=Rotation.random(random_state=int(rng.integers(0,1e6))).as_matrix(); t=rng.normal(size=3)*3
    worst["rigid"]=max(worst["rigid"],np.max(np.abs(bw(pts@R.T+t,at@R.T+t,atn,idx)-call)))
    perm=rng.permutation(M); per_p=np.array([bw.compute_atom_weight(pts,at[perm],atn[perm],a) for a in range(M)]).T
    worst["relabel"]=max(worst["relabel"],np.max(np.abs(per_p-per[:,perm])))
    st[(geo,"M>=4" if M>=4 else "M<4","nanradius" if trial%3==0 else "")]+=1
print(dict(worst)); print(dict(st))
