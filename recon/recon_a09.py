import warnings; warnings.simplefilter("ignore")
import numpy as np
from grid.atomgrid import AtomGrid
from grid.molgrid import MolGrid
from grid.becke import BeckeWeights
from grid.basegrid import OneDGrid
from grid.utils import generate_real_spherical_harmonics as Y
rng=np.random.default_rng(0)
for trial in range(6):
    n=8; r=np.sort(rng.uniform(.1,4,n)); rg=OneDGrid(r,rng.uniform(.1,1,n),(0,np.inf)); c=rng.normal(size=3)
    ag=AtomGrid(rg,degrees=[int(rng.choice([6,9,12]))],center=c,rotate=int(rng.integers(0,9)))
    f=rng.normal(size=ag.size)   # arbitrary data: interpolant is still a spline x harmonic expansion
    itp=ag.interpolate(f); sp=ag.radial_component_splines(f)
    pts=c+rng.normal(size=(7,3))*1.5
    s=ag.convert_cartesian_to_spherical(pts); L=ag.l_max//2
    Yv=np.asarray(Y(L,s[:,1],s[:,2]),dtype=float)
    val=sum(sp[k](s[:,0])*Yv[k] for k in range(len(sp)))
    e0=np.max(np.abs(itp(pts)-val))
    h=1e-5; fd=np.zeros((7,3))
    for d in range(3):
        e=np.zeros(3); e[d]=h; fd[:,d]=(itp(pts+e)-itp(pts-e))/(2*h)
    g=itp(pts,deriv=1); e1=np.max(np.abs(g-fd))/max(1,np.max(np.abs(fd)))
    sph=itp(pts,deriv=1,deriv_spherical=True); m=len(pts)
    hr=1e-5
    def at(rr,th,ph): return c+np.c_[rr*np.sin(ph)*np.cos(th),rr*np.sin(ph)*np.sin(th),rr*np.cos(ph)]
    dr=(itp(at(s[:,0]+hr,s[:,1],s[:,2]))-itp(at(s[:,0]-hr,s[:,1],s[:,2])))/(2*hr)
    dt=(itp(at(s[:,0],s[:,1]+hr,s[:,2]))-itp(at(s[:,0],s[:,1]-hr,s[:,2])))/(2*hr)
    dp=(itp(at(s[:,0],s[:,1],s[:,2]+hr))-itp(at(s[:,0],s[:,1],s[:,2]-hr)))/(2*hr)
    e2=max(np.max(np.abs(sph[:m]-dr)),np.max(np.abs(sph[m:2*m]-dt)),np.max(np.abs(sph[2*m:]-dp)))/max(1,np.max(np.abs(sph)))
    ro=[np.max(np.abs(itp(pts,deriv=k,only_radial_deriv=True)-sum(sp[j](s[:,0],k)*Yv[j] for j in range(len(sp))))) for k in (1,2,3)]
    avg=ag.spherical_average(f); tot=np.sum(4*np.pi*avg(r)*r**2*rg.weights)
    print(trial,f"value {e0:.1e} cart-grad {e1:.1e} sph-grad {e2:.1e} radial {max(ro):.1e} avg-total {abs(tot-ag.integrate(f)):.1e}", sph.shape)
# molecular interpolation = sum of atomic interpolants of w_A f
rgm=OneDGrid(np.sort(rng.uniform(.1,4,7)),rng.uniform(.1,1,7),(0,np.inf))
ags=[AtomGrid(rgm,degrees=[7],center=np.array([0,0,z])) for z in (-.8,.9)]
mg=MolGrid(np.array([1,8]),ags,BeckeWeights(),store=True); f=rng.normal(size=mg.size)
mi=mg.interpolate(f); pts=rng.normal(size=(6,3))
ref=sum(ags[a].interpolate((f*mg.aim_weights)[mg.indices[a]:mg.indices[a+1]])(pts) for a in range(2))
print("mol interp",np.max(np.abs(mi(pts)-ref)), "deriv", np.max(np.abs(mi(pts,1)-sum(ags[a].interpolate((f*mg.aim_weights)[mg.indices[a]:mg.indices[a+1]])(pts,1) for a in range(2)))))
