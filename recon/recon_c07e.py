import warnings; warnings.simplefilter("ignore")
import numpy as np, time, sys
from grid.molgrid import MolGrid
from grid.utils import _DEFAULT_POWER_RTRANSFORM_PARAMS
presets=['coarse','medium','fine','veryfine','ultrafine','insane','sg_0','sg_1','sg_2','sg_3','g1','g2','g3','g4','g5','g6','g7']
rng=np.random.default_rng(int(sys.argv[1]) if len(sys.argv)>1 else 0)
worst={}
for trial in range(int(sys.argv[2]) if len(sys.argv)>2 else 40):
    preset=presets[trial%len(presets)]
    M=int(rng.integers(1,6))
    elems=[1,6,7,8,9,16,17] 
    atn=rng.choice(elems,size=M)
    while True:
        at=rng.uniform(-3,3,(M,3))
        d=[np.linalg.norm(at[i]-at[j]) for i in range(M) for j in range(i)]
        if not d or min(d)>1.2: break
    t=time.time()
    try:
        mg=MolGrid.from_preset(atn,at,preset)
    except Exception as e:
        print(preset,atn,"ERR",type(e).__name__,str(e)[:80]); continue
    # gaussians: 1-3 per atom
    tot=0; f=np.zeros(mg.size)
    for a in range(M):
        for _ in range(int(rng.integers(1,4))):
            al=float(np.exp(rng.uniform(np.log(0.3),np.log(30)))); c=float(rng.uniform(0.2,2))
            f+=c*(al/np.pi)**1.5*np.exp(-al*np.sum((mg.points-at[a])**2,axis=1)); tot+=c
    val=mg.integrate(f); rel=abs(val-tot)/tot
    worst[preset]=max(worst.get(preset,0),rel)
    print(f"{preset:10s} M={M} {list(atn)} size={mg.size} rel={rel:.2e} t={time.time()-t:.1f}s", "<<<<" if rel>1e-2 else "")
print(worst)
