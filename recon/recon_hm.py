import sympy as sp
x,m,s,T=sp.symbols('x m s T',positive=True)  # T=2^m
q=(1+x)**m
D=T*(1-T+s)+(T-s)*q
r=q*s/D
d3=sp.diff(r,x,3)
pref=-(m*T*s*(T-s-1)*(1+x)**(m-3))/D**4
br=sp.simplify(d3/pref)
br=sp.expand(sp.simplify(br))
Q=sp.Symbol('Q')
br=sp.expand(br.subs((1+x)**m,Q).subs((x+1)**(2*m),Q**2))
print(sp.collect(sp.factor_terms(br),Q))
for k in [0,1,2]:
    print(k, sp.factor(br.coeff(Q,k)))
