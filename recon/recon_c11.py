import warnings; warnings.simplefilter("ignore")
import numpy as np, itertools, collections
from grid.periodicgrid import PeriodicGrid
rng=np.random.default_rng(0)
def brute(points, realvecs, center, radius):
    pts=points.reshape(len(points),-1); rv=realvecs.reshape(-1,pts.shape[1]) if realvecs.size else np.zeros((0,pts.shape[1]))
    c=np.atleast_1d(center)
    K=len(rv)
    if K:
        rec=np.linalg.pinv(rv)  # (dim,K)
        ext=np.max(np.linalg.norm(pts-c,axis=1))+radius
        bounds=[int(np.ceil(ext*np.linalg.norm(rec[:,k])))+1 for k in range(K)]
    else: bounds=[]
    out=[]; amb=False
    for T in itertools.product(*[range(-b,b+1) for b in bounds]):
        delta=np.array(T)@rv if K else np.zeros(pts.shape[1])
        d=np.linalg.norm(pts+delta-c,axis=1)
        if np.any(np.abs(d-radius)<1e-9): amb=True
        for i in np.where(d<=radius)[0]:
            out.append((int(i),tuple(T)))
    return out, amb
stats=collections.Counter()
for trial in range(3000):
    dim=int(rng.integers(1,4)); K=int(rng.integers(0,dim+1)); N=int(rng.integers(1,8))
    oned = dim==1 and rng.random()<0.5
    pts=rng.uniform(-1.5,2.5,(N,dim))
    rv=rng.uniform(-2,2,(K,dim))
    if K and np.min(np.linalg.svd(rv,compute_uv=False))<0.3: continue
    wrap=bool(rng.integers(0,2))
    center=rng.uniform(-3,3,dim); radius=float(rng.choice([0.0,0.05,0.3,1.0,2.5,4.0]))
    if oned:
        P=pts[:,0]; RV=rv[:,0] if K else None; C=float(center[0])
    else:
        P=pts; RV=rv if K else None; C=center
    key=(dim,K,"1d" if oned else "nd")
    try:
        g=PeriodicGrid(P,np.arange(N,dtype=float)+1,RV,wrap=wrap)
        lg=g.get_localgrid(C,radius)
    except Exception as e:
        # is the expected set empty?
        try:
            gp=g.points
        except Exception:
            stats[key+("ctor-"+type(e).__name__,)]+=1; continue
        exp,amb=brute(np.asarray(gp), (rv[:,0] if oned else rv) if K else np.zeros((0,)), C, radius)
        stats[key+(type(e).__name__, "empty-expected" if not exp else "NONEMPTY-expected")]+=1
        continue
    exp,amb=brute(np.asarray(g.points), (rv[:,0] if oned else rv) if K else np.zeros((0,)), C, radius)
    if amb: stats[key+("ambiguous",)]+=1; continue
    # compare multiset of (index, position)
    got=sorted((int(i),)+tuple(np.round(np.atleast_1d(p),8)) for i,p in zip(lg.indices,lg.points))
    rvm=rv[:,0].reshape(-1,1) if oned else rv
    gp=np.asarray(g.points).reshape(N,-1)
    want=sorted((i,)+tuple(np.round(gp[i]+(np.array(T)@rvm.reshape(K,-1) if K else 0),8)) for i,T in exp)
    ok = got==want
    stats[key+("ok" if ok else "MISMATCH",)]+=1
    if not ok and stats[key+("MISMATCH",)]<3: print("MISMATCH",key,wrap,radius,len(got),len(want))
for k in sorted(stats): print(k,stats[k])
