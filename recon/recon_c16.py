import warnings; warnings.simplefilter("ignore")
import numpy as np, sys, time
from scipy.special import erf
from grid.atomgrid import AtomGrid
from grid.molgrid import MolGrid
from grid.becke import BeckeWeights
from grid.onedgrid import GaussLegendre
from grid.rtransform import BeckeRTransform, InverseRTransform
from grid.poisson import solve_poisson_bvp, solve_poisson_ivp
rng=np.random.default_rng(int(sys.argv[1]))
def rho(points, cs, als, cens):
    return sum(c*(a/np.pi)**1.5*np.exp(-a*np.sum((points-x)**2,axis=1)) for c,a,x in zip(cs,als,cens))
def pot(points, cs, als, cens):
    out=0
    for c,a,x in zip(cs,als,cens):
        r=np.linalg.norm(points-x,axis=1)
        with np.errstate(all="ignore"): v=np.where(r>1e-12, erf(np.sqrt(a)*r)/np.where(r>1e-12,r,1), 2*np.sqrt(a/np.pi))
        out=out+c*v
    return out
for trial in range(int(sys.argv[2])):
    nrad=int(rng.choice([80,120])); deg=int(rng.choice([11,15,21]))
    tf=BeckeRTransform(float(rng.choice([0.0,1e-6,1e-4])),float(rng.uniform(1.0,2.0)))
    rg=tf.transform_1d_grid(GaussLegendre(nrad))
    M=int(rng.integers(1,3))
    cens_at=np.array([[0,0,0],[0,0,float(rng.uniform(1.5,3))]])[:M]+rng.uniform(-1,1,3)
    ags=[AtomGrid(rg,degrees=[deg],center=c) for c in cens_at]
    grid=ags[0] if M==1 else MolGrid(np.array([1]*M),ags,BeckeWeights(order=3),store=True)
    K=int(rng.integers(1,4)); cs=rng.uniform(-1,2,K); als=np.exp(rng.uniform(np.log(0.3),np.log(4),K))
    cens=np.array([cens_at[rng.integers(0,M)]+rng.normal(size=3)*float(rng.choice([0,0.05,0.2])) for _ in range(K)])
    t=time.time()
    V=solve_poisson_bvp(grid, rho(grid.points,cs,als,cens), InverseRTransform(tf), remove_large_pts=float(rng.choice([10.0,1e6])))
    pts=rng.uniform(-4,4,(200,3))+cens_at[0]
    e=np.max(np.abs(V(pts)-pot(pts,cs,als,cens)))
    eg=np.max(np.abs(V(grid.points)-pot(grid.points,cs,als,cens)))
    print(f"M={M} nrad={nrad} deg={deg} K={K} al={np.round(als,2)} |c|={np.abs(cs).sum():.2f} err_rand={e:.1e} err_grid={eg:.1e} t={time.time()-t:.1f}s")
