import warnings; warnings.simplefilter("ignore")
import numpy as np
from grid.utils import *
rng=np.random.default_rng(1)
th=rng.uniform(-7,14,8); ph=rng.uniform(0,np.pi,8)
a=generate_real_spherical_harmonics(6,th,ph); b=generate_real_spherical_harmonics_scipy(6,th,ph)
print("theta out of range, phi in range:", np.max(np.abs(a-b)))
ph2=np.array([-0.3,-2.0,3.5,5.0,7.0,-4.0,2*np.pi+0.4, -np.pi])
a=generate_real_spherical_harmonics(4,th,ph2); b=generate_real_spherical_harmonics_scipy(4,th,ph2)
print("phi out of range:", np.max(np.abs(a-b),axis=1).round(3))
# poles
ph3=np.array([0,np.pi,0,np.pi]); th3=np.array([0.3,0.3,2.0,-1.0])
a=generate_real_spherical_harmonics(5,th3,ph3); b=generate_real_spherical_harmonics_scipy(5,th3,ph3)
print("poles:", np.max(np.abs(a-b)))
# high degree
th=rng.uniform(0,2*np.pi,5); ph=rng.uniform(0,np.pi,5)
import time
for L in [50,150,300]:
    t=time.time(); a=generate_real_spherical_harmonics(L,th,ph); t1=time.time()-t
    t=time.time(); b=generate_real_spherical_harmonics_scipy(L,th,ph); t2=time.time()-t
    print(L, np.nanmax(np.abs(a-b)), np.isnan(a).sum(), np.isnan(b).sum(), f"{t1:.2f}s {t2:.2f}s")
# derivative check vs finite differences
L=5; th=rng.uniform(-1,7,6); ph=rng.uniform(0.2,np.pi-0.2,6); h=1e-6
d=generate_derivative_real_spherical_harmonics(L,th,ph)
fd_t=(generate_real_spherical_harmonics(L,th+h,ph)-generate_real_spherical_harmonics(L,th-h,ph))/(2*h)
fd_p=(generate_real_spherical_harmonics(L,th,ph+h)-generate_real_spherical_harmonics(L,th,ph-h))/(2*h)
print("deriv theta err", float(np.max(np.abs(d[0]-fd_t))), "deriv phi err", float(np.max(np.abs(d[1]-fd_p))))
# phi>pi/2 and negative theta
