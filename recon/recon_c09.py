import warnings; warnings.simplefilter("ignore")
import numpy as np
from scipy.special import sph_harm_y
from grid.atomgrid import AtomGrid
from grid.basegrid import OneDGrid
from grid.onedgrid import GaussLegendre
from grid.rtransform import BeckeRTransform
rng=np.random.default_rng(0)
def Yreal(l,m,theta,phi):  # theta azimuth, phi polar ; independent via scipy complex
    if m==0: return sph_harm_y(l,0,phi,theta).real
    y=sph_harm_y(l,abs(m),phi,theta)*np.sqrt(2)*(-1)**m
    return y.real if m>0 else y.imag
def horton(L):
    out=[]
    for l in range(L+1):
        out.append((l,0))
        for m in range(1,l+1): out+= [(l,m),(l,-m)]
    return out
for trial in range(12):
    n=int(rng.integers(4,12))
    method=rng.choice(["lebedev","spherical","maxdet","ahrens_beylkin"])
    r=np.sort(rng.uniform(0.05,4,n)); 
    if trial%3==0: r[0]=0.0
    w=rng.uniform(0.1,1,n)
    rg=OneDGrid(r,w,(0,np.inf))
    degs=list(rng.choice([6,8,10,14,17],size=n)) if trial%2 else [int(rng.choice([6,9,14]))]
    center=rng.uniform(-1,1,3); rot=int(rng.integers(0,1000)) if trial%2 else 0
    ag=AtomGrid(rg,degrees=[int(d) for d in degs],center=center,rotate=rot,method=str(method))
    L=min(ag.degrees)//2
    lm=horton(L)
    # g_lm(r) random cubic polys times exp
    co=rng.normal(size=(len(lm),4))
    g=lambda k,rr: (co[k,0]+co[k,1]*rr+co[k,2]*rr**2+co[k,3]*rr**3)*np.exp(-0.5*rr)
    def f(points):
        d=points-center; rr=np.linalg.norm(d,axis=1)
        with np.errstate(all="ignore"): phi=np.arccos(np.where(rr>0,d[:,2]/np.where(rr>0,rr,1),1.0))
        theta=np.arctan2(d[:,1],d[:,0])
        return sum(g(k,rr)*Yreal(l,m,theta,phi) for k,(l,m) in enumerate(lm))
    # at r=0 the function must be single valued: f(0)=g_00(0) Y00 + sum g_lm(0) Ylm(angle) -> require g_lm(0)=0 for l>0 if r=0 node
    if r[0]==0.0: co[1:,0]=0
    fv=f(ag.points)
    ia=ag.integrate_angular_coordinates(fv)
    e1=np.max(np.abs(ia-np.sqrt(4*np.pi)*g(0,r)))
    e2=abs(np.sum(ia*r**2*w)-ag.integrate(fv))
    sp=ag.radial_component_splines(fv)
    e3=max(np.max(np.abs(sp[k](r)-g(k,r))) for k in range(len(lm)))
    e3b=max([np.max(np.abs(sp[k](r))) for k in range(len(lm),len(sp))]+[0])
    itp=ag.interpolate(fv)
    e4=np.max(np.abs(itp(ag.points)-fv))
    print(trial,method,n,"L",L,"lmax",ag.l_max,"r0" if r[0]==0 else "", f"angint {e1:.1e} total {e2:.1e} splines {e3:.1e} extra {e3b:.1e} interp {e4:.1e}")
