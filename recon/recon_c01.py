import warnings; warnings.simplefilter("ignore")
import numpy as np
from grid.onedgrid import *
def exact(k):  # int_{-1}^1 x^k
    return 0.0 if k%2 else 2.0/(k+1)
def maxdeg(g, upto):
    # highest d such that all monomials <= d are integrated to 1e-12 (scaled)
    for k in range(upto+1):
        v = g.weights @ g.points**k
        if abs(v-exact(k))>1e-11: return k-1
    return upto
for cls in [GaussLegendre, ClenshawCurtis, FejerFirst, FejerSecond, Simpson, Trapezoidal, MidPoint, GaussChebyshev, GaussChebyshevType2, GaussChebyshevLobatto, RectangleRuleSineEndPoints]:
    row=[]
    for n in range(2,14):
        try:
            g=cls(n)
        except Exception as e:
            row.append((n,'X')); continue
        row.append((n,maxdeg(g, 2*n+2), bool(np.all(np.diff(g.points)>0))))
    print(cls.__name__, row)
